// Package c04: new capacity is opened only when existing capacity cannot admit the pod — two-pass histories through the
// real provisioner, lifecycle controller and cluster state, judged by the Lean specification.
package c04

import (
	"encoding/json"
	"fmt"
	"math/rand/v2"

	"verifharness/internal/core"
	"verifharness/internal/registry"
	"verifharness/internal/world"
)

func init() { registry.Register("C04", Ops) }

// implPass: one real Provisioner.Schedule with the commit trace.
func implPass(raw json.RawMessage) (any, error) {
	var s world.Scenario
	if err := json.Unmarshal(raw, &s); err != nil {
		return nil, err
	}
	h, err := newHist(&HistIn{Scn: s})
	if err != nil {
		return nil, err
	}
	h.w.Cluster.SetSynced(true)
	p, _ := h.pass("single")
	return p, nil
}

var passOpts = world.GenOpts{InterPod: 0.1, NodeAffinity: 0.4, Existing: 0.85, Limits: 0.15, MaxPods: 8}

func genPass(r *rand.Rand, t core.Tier) any {
	s := world.GenScenario(r, passOpts)
	singleTerm(r, s)
	// small pods next to partly filled nodes: the interesting question is whether a node still has room
	for i := range s.Pods {
		if r.Float64() < 0.3 {
			s.Pods[i].CPU = int64(100 * (1 + r.IntN(6)))
		}
	}
	// nodes are marked for deletion at every lifecycle stage, not only once initialized
	for i := range s.Nodes {
		if s.Nodes[i].Pool != "" && r.Float64() < 0.08 {
			s.Nodes[i].Deleting = true
		}
	}
	return s
}

func histLabels(raw json.RawMessage, impl any) []string {
	var in HistIn
	json.Unmarshal(raw, &in)
	m, _ := impl.(map[string]any)
	var l []string
	created := 0
	if n, ok := m["created"].(json.Number); ok {
		x, _ := n.Int64()
		created = int(x)
	}
	l = append(l, fmt.Sprintf("created=%d", min(created, 4)))
	passes, _ := m["passes"].([]any)
	l = append(l, fmt.Sprintf("pass2-runs=%d", len(passes)))
	for _, p := range passes {
		pm, _ := p.(map[string]any)
		o, _ := pm["outcome"].(map[string]any)
		c, _ := o["claims"].([]any)
		if len(c) > 0 {
			l = append(l, "pass2-opened-new@"+fmt.Sprint(pm["stage"]))
		}
	}
	if in.Gate {
		l = append(l, "gate-reconcile")
	}
	if in.MarkStage != "" {
		l = append(l, "marked-for-deletion@"+in.MarkStage)
		if in.MarkStale {
			l = append(l, "marked-in-one-call-after-stale-ids")
		}
	}
	if in.Kubelet.NoStatus {
		l = append(l, "kubelet:no-status")
	}
	if len(in.Kubelet.ZeroAlloc) > 0 {
		l = append(l, "kubelet:zero-alloc")
	}
	if in.Kubelet.NotReadyTaint {
		l = append(l, "kubelet:not-ready-taint")
	}
	if in.Kubelet.FullTaints {
		l = append(l, "kubelet:full-taints")
	}
	if in.Kubelet.BareLabels {
		l = append(l, "kubelet:bare-labels")
	}
	for _, p := range in.Scn.Pools {
		if len(p.StartupTaints) > 0 {
			l = append(l, "pool-startup-taints")
			break
		}
	}
	if len(in.Scn.DaemonSets) > 0 {
		l = append(l, "daemonsets")
	}
	open := false
	for _, p := range in.Scn.Pools {
		for _, e := range p.Reqs {
			if e.Key == "tier" && !(e.Op == "In" && len(e.Values) == 1) {
				open = true
			}
		}
	}
	if open {
		l = append(l, "pool-leaves-custom-key-open")
		for _, p := range in.Scn.Pods {
			for _, t := range p.Required {
				for _, e := range t {
					if e.Key == "tier" && (e.Op == "Exists" || (e.Op == "In" && len(e.Values) > 1)) {
						l = append(l, "pod-constrains-open-custom-key-without-pinning")
					}
				}
			}
		}
		l = dedupS(l)
	}
	if s, _ := m["launchErr"].(string); s != "" {
		l = append(l, "launch-error")
	}
	return l
}

func Ops() []*core.Op {
	return []*core.Op{
		viewOp(),
		syncedOp(),
		markOp(),
		accountOp(),
		churnOp(),
		roomOp(),
		{
			Name: "c04.history",
			Doc:  "two-pass histories through the REAL provisioner: Provisioner.Schedule (commit trace) -> Provisioner.CreateNodeClaims/Create -> Cluster.Synced / Provisioner.Reconcile gate -> real lifecycle controller (launch / registration / initialization) against a provider that launches an adversarially chosen permitted (instance type, offering) -> state informer -> Provisioner.Schedule again at every lifecycle stage with the same pods pending; judged by Karp.Spec.NeedCapacity",
			N:    func(t core.Tier) int { return map[core.Tier]int{core.Quick: 500, core.Thorough: 5000}[t] },
			Gen:  genHistory,
			Impl: implHistory,
			Rule: "non-trivial = pass 1 created at least one NodeClaim and pass 2 ran at all four lifecycle stages",
			Nontrivial: func(raw json.RawMessage, impl any) bool {
				m, _ := impl.(map[string]any)
				p, _ := m["passes"].([]any)
				return len(p) == 4
			},
			Labels:    histLabels,
			Signature: func(raw json.RawMessage, impl any) string { return "history" },
			Shrink:    shrinkHistory,
		},
		{
			Name: "c04.repass",
			Doc:  "the same two-pass histories, judged by the STRICT consequence clause of the property: a pod that pass 1 placed on capacity which is still there (and can hold it) is not put on a new NodeClaim when provisioning is re-run at any lifecycle stage",
			N:    func(t core.Tier) int { return map[core.Tier]int{core.Quick: 120, core.Thorough: 700}[t] },
			Gen:  genHistory,
			Impl: implHistory,
			Rule: "non-trivial = pass 1 created at least two NodeClaims (or one next to an existing node) and pass 2 ran at all four stages",
			Nontrivial: func(raw json.RawMessage, impl any) bool {
				var in HistIn
				json.Unmarshal(raw, &in)
				m, _ := impl.(map[string]any)
				p, _ := m["passes"].([]any)
				l, _ := m["launched"].([]any)
				return len(p) == 4 && len(l)+len(in.Scn.Nodes) >= 2
			},
			Labels:    histLabels,
			Signature: func(raw json.RawMessage, impl any) string { return "repass" },
			Shrink:    shrinkHistory,
		},
		{
			Name: "c04.pass",
			Doc:  "single real Provisioner.Schedule passes with the commit trace on clusters with existing / in-flight (claim, unregistered, registered, initialized) / unmanaged / deleting nodes, bound pods and daemonsets: every NodeClaim opened for a pod of the property's class must be needed at that moment; deleting nodes receive nothing",
			N:    func(t core.Tier) int { return map[core.Tier]int{core.Quick: 600, core.Thorough: 8000}[t] },
			Gen:  genPass,
			Impl: implPass,
			Rule: "non-trivial = the pass opened at least one NodeClaim while the cluster had at least one active node",
			Nontrivial: func(raw json.RawMessage, impl any) bool {
				var s world.Scenario
				json.Unmarshal(raw, &s)
				m, _ := impl.(map[string]any)
				o, _ := m["outcome"].(map[string]any)
				c, _ := o["claims"].([]any)
				return len(c) > 0 && len(s.Nodes) > 0
			},
			Labels: func(raw json.RawMessage, impl any) []string {
				var s world.Scenario
				json.Unmarshal(raw, &s)
				m, _ := impl.(map[string]any)
				o, _ := m["outcome"].(map[string]any)
				c, _ := o["claims"].([]any)
				e, _ := o["existing"].([]any)
				l := []string{fmt.Sprintf("nodes=%d", len(s.Nodes)), fmt.Sprintf("new-claims=%d", min(len(c), 4)), fmt.Sprintf("existing-placements=%d", min(len(e), 3))}
				for _, n := range s.Nodes {
					l = append(l, "stage="+n.Stage)
					if n.Deleting {
						l = append(l, "deleting-node")
					}
				}
				return l
			},
			Signature: func(raw json.RawMessage, impl any) string { return "pass" },
			Shrink:    shrinkPass,
		},
	}
}
