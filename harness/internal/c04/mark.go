package c04

import (
	"context"
	"encoding/json"
	"fmt"
	"math/rand/v2"
	"strings"
	"time"

	corev1 "k8s.io/api/core/v1"
	metav1 "k8s.io/apimachinery/pkg/apis/meta/v1"
	"k8s.io/apimachinery/pkg/types"
	clock "k8s.io/utils/clock/testing"

	v1 "sigs.k8s.io/karpenter/pkg/apis/v1"
	fakecp "sigs.k8s.io/karpenter/pkg/cloudprovider/fake"
	"sigs.k8s.io/karpenter/pkg/controllers/state"
	"sigs.k8s.io/karpenter/pkg/operator/options"
	"sigs.k8s.io/karpenter/pkg/test"

	"verifharness/internal/core"
	"verifharness/internal/world"
)

// c04.mark: "nodes marked for deletion are not counted as capacity" at the place where the mark is set: histories of
// Cluster.MarkForDeletion / UnmarkForDeletion calls with SEVERAL provider ids per call (as the disruption queue marks all
// candidates of a command at once) - ids of tracked nodes, of nodes that have meanwhile left the cluster state, and ids
// that never existed, in every order - interleaved with Node / NodeClaim informer deliveries and deletions, against the real
// state.Cluster.  After every event: which state nodes exist, StateNode.MarkedForDeletion() and membership in
// StateNodes.Active() / Deleting() (what Provisioner.Schedule counts as capacity / reschedules).
//
// ops: "see-node:N" "see-claim:N" "del-node:N" "del-claim:N" "mark:N,M,…" "unmark:N,M,…"   (names a b c; x y never exist)

type MarkIn struct {
	Ops []string `json:"ops"`
}

type MarkObs struct {
	Tracked  []string `json:"tracked"`  // names whose provider id has a state node
	Marked   []string `json:"marked"`   // … with MarkedForDeletion()
	Active   []string `json:"active"`   // … in StateNodes.Active()
	Deleting []string `json:"deleting"` // … in StateNodes.Deleting()
}

type MarkOut struct {
	Obs []MarkObs `json:"obs"` // after every op
}

var markNames = []string{"a", "b", "c"}

func implMark(raw json.RawMessage) (any, error) {
	var in MarkIn
	if err := json.Unmarshal(raw, &in); err != nil {
		return nil, err
	}
	ctx := options.ToContext(context.Background(), test.Options())
	clk := clock.NewFakeClock(world.T0)
	c := world.NewClient()
	cluster := state.NewCluster(clk, c, fakecp.NewCloudProvider())
	uid := 0
	pid := func(n string) string { return "fake:///" + n }
	out := MarkOut{Obs: []MarkObs{}}
	for _, op := range in.Ops {
		kind, arg := splitOp(op)
		switch kind {
		case "see-node":
			node := &corev1.Node{}
			if err := c.Get(ctx, types.NamespacedName{Name: "node-" + arg}, node); err != nil {
				uid++
				node = &corev1.Node{ObjectMeta: metav1.ObjectMeta{Name: "node-" + arg, UID: types.UID(fmt.Sprintf("node-%d", uid)),
					Labels: map[string]string{corev1.LabelInstanceTypeStable: "it-0", v1.NodePoolLabelKey: "pool-0", corev1.LabelHostname: "node-" + arg}},
					Spec: corev1.NodeSpec{ProviderID: pid(arg)}}
				if err := c.Create(ctx, node); err != nil {
					return nil, err
				}
			}
			if err := cluster.UpdateNode(ctx, node); err != nil {
				return nil, err
			}
		case "see-claim":
			nc := &v1.NodeClaim{}
			if err := c.Get(ctx, types.NamespacedName{Name: "claim-" + arg}, nc); err != nil {
				uid++
				nc = test.NodeClaim(v1.NodeClaim{ObjectMeta: metav1.ObjectMeta{Name: "claim-" + arg, UID: types.UID(fmt.Sprintf("nc-%d", uid)),
					CreationTimestamp: metav1.NewTime(world.T0.Add(time.Duration(uid) * time.Second)), Labels: map[string]string{v1.NodePoolLabelKey: "pool-0"}},
					Status: v1.NodeClaimStatus{ProviderID: pid(arg)}})
				nc.Status.ProviderID = pid(arg)
				if err := c.Create(ctx, nc); err != nil {
					return nil, err
				}
			}
			cluster.UpdateNodeClaim(nc)
		case "del-node":
			node := &corev1.Node{}
			if err := c.Get(ctx, types.NamespacedName{Name: "node-" + arg}, node); err == nil {
				_ = c.Delete(ctx, node)
			}
			cluster.DeleteNode("node-" + arg)
		case "del-claim":
			nc := &v1.NodeClaim{}
			if err := c.Get(ctx, types.NamespacedName{Name: "claim-" + arg}, nc); err == nil {
				nc.Finalizers = nil
				_ = c.Update(ctx, nc)
				_ = c.Delete(ctx, nc)
			}
			cluster.DeleteNodeClaim("claim-" + arg)
		case "mark", "unmark":
			var ids []string
			for _, n := range strings.Split(arg, ",") {
				if n != "" {
					ids = append(ids, pid(n))
				}
			}
			if kind == "mark" {
				cluster.MarkForDeletion(ids...)
			} else {
				cluster.UnmarkForDeletion(ids...)
			}
		default:
			return nil, fmt.Errorf("bad op %q", op)
		}
		o := MarkObs{Tracked: []string{}, Marked: []string{}, Active: []string{}, Deleting: []string{}}
		nodes := cluster.DeepCopyNodes()
		name := func(sn *state.StateNode) string { return strings.TrimPrefix(sn.ProviderID(), "fake:///") }
		inSet := func(l state.StateNodes, n string) bool {
			for _, sn := range l {
				if name(sn) == n {
					return true
				}
			}
			return false
		}
		act, del := nodes.Active(), nodes.Deleting()
		for _, n := range markNames {
			for _, sn := range nodes {
				if name(sn) != n {
					continue
				}
				o.Tracked = append(o.Tracked, n)
				if sn.MarkedForDeletion() {
					o.Marked = append(o.Marked, n)
				}
			}
			if inSet(act, n) {
				o.Active = append(o.Active, n)
			}
			if inSet(del, n) {
				o.Deleting = append(o.Deleting, n)
			}
		}
		out.Obs = append(out.Obs, o)
	}
	return out, nil
}

func genIDs(r *rand.Rand) string {
	k := 1 + r.IntN(4)
	pool := []string{"a", "b", "c", "x", "y"}
	perm := r.Perm(len(pool))
	var ids []string
	for i := 0; i < k; i++ {
		ids = append(ids, pool[perm[i]])
	}
	if r.Float64() < 0.1 {
		ids = append(ids, ids[0]) // a duplicate
	}
	return strings.Join(ids, ",")
}

func genMark(r *rand.Rand, t core.Tier) any {
	n := 3 + r.IntN(10)
	if t == core.Thorough {
		n = 3 + r.IntN(24)
	}
	ops := []string{}
	// mostly a populated cluster first
	for _, x := range markNames {
		if r.Float64() < 0.7 {
			ops = append(ops, pickS(r, []string{"see-node", "see-claim"})+":"+x)
		}
	}
	for i := 0; i < n; i++ {
		switch x := r.Float64(); {
		case x < 0.3:
			ops = append(ops, "mark:"+genIDs(r))
		case x < 0.45:
			ops = append(ops, "unmark:"+genIDs(r))
		default:
			ops = append(ops, pickS(r, []string{"see-node", "see-claim", "del-node", "del-claim"})+":"+pickS(r, markNames))
		}
	}
	return MarkIn{Ops: ops}
}

// enumMark: clusters of two nodes a, b (each a bare Node, a NodeClaim only, or both; possibly already gone again) and ONE
// or TWO calls with every id list of length <= 3 over {a, b, x}.
func enumMark(t core.Tier) []any {
	var out []any
	setups := [][]string{
		{"see-node:a", "see-node:b"}, {"see-claim:a", "see-node:b"}, {"see-node:a", "see-claim:a", "see-claim:b"},
		{"see-node:a", "see-node:b", "del-node:a"}, {"see-claim:a", "see-node:b", "del-claim:a"}, {"see-node:a", "see-claim:a", "see-node:b", "del-node:a"},
		{"see-node:b"},
	}
	ids := []string{"a", "b", "x"}
	var lists []string
	var rec func(prefix []string, depth int)
	rec = func(prefix []string, depth int) {
		if len(prefix) > 0 {
			lists = append(lists, strings.Join(prefix, ","))
		}
		if depth == 0 {
			return
		}
		for _, a := range ids {
			rec(append(append([]string{}, prefix...), a), depth-1)
		}
	}
	rec(nil, 3)
	for _, s := range setups {
		for _, l := range lists {
			out = append(out, MarkIn{Ops: append(append([]string{}, s...), "mark:"+l)})
			out = append(out, MarkIn{Ops: append(append([]string{}, s...), "mark:a,b", "unmark:"+l)})
			out = append(out, MarkIn{Ops: append(append([]string{}, s...), "mark:"+l, "see-node:a", "del-node:b", "see-claim:b")})
		}
	}
	return out
}

func markOp() *core.Op {
	return &core.Op{
		Name: "c04.mark",
		Doc:  "histories of Cluster.MarkForDeletion / UnmarkForDeletion calls with several provider ids per call (tracked nodes, nodes that left the cluster state, ids that never existed, duplicates, in every order) interleaved with Node / NodeClaim deliveries and deletions on the real state.Cluster; after every event the state nodes, StateNode.MarkedForDeletion() and StateNodes.Active() / Deleting() vs the model Karp.Provision.MarkSt; spec: right after a MarkForDeletion call EVERY tracked node named in it is out of Active() and in Deleting(), after UnmarkForDeletion every tracked node named is back, other events change no mark of a node that stays tracked, and Active / Deleting partition the tracked nodes by the mark",
		N:    func(t core.Tier) int { return map[core.Tier]int{core.Quick: 1500, core.Thorough: 20000}[t] },
		Gen:  genMark,
		Enum: enumMark,
		Impl: implMark,
		Rule: "non-trivial = some MarkForDeletion call names at least two ids of which at least one is tracked; all calls with id lists of length <= 3 over {a, b, unknown} on seven two-node clusters are enumerated",
		Nontrivial: func(raw json.RawMessage, impl any) bool {
			var in MarkIn
			json.Unmarshal(raw, &in)
			for _, o := range in.Ops {
				k, a := splitOp(o)
				if k == "mark" && strings.Contains(a, ",") {
					return true
				}
			}
			return false
		},
		Labels: func(raw json.RawMessage, impl any) []string {
			var in MarkIn
			json.Unmarshal(raw, &in)
			l := []string{fmt.Sprintf("len<=%d", ((len(in.Ops)/5)+1)*5)}
			seen := map[string]bool{}
			add := func(s string) {
				if !seen[s] {
					seen[s] = true
					l = append(l, s)
				}
			}
			for _, o := range in.Ops {
				k, a := splitOp(o)
				add("op:" + k)
				if k == "mark" || k == "unmark" {
					ids := strings.Split(a, ",")
					add(fmt.Sprintf("%s-ids=%d", k, min(len(ids), 4)))
					if len(ids) > 1 && (ids[0] == "x" || ids[0] == "y") {
						add(k + "-unknown-id-first")
					}
				}
			}
			return l
		},
		Signature: func(raw json.RawMessage, impl any) string { return "mark" },
		Shrink: func(raw json.RawMessage) []any {
			var in MarkIn
			json.Unmarshal(raw, &in)
			var out []any
			for _, c := range core.ShrinkList(in.Ops) {
				out = append(out, MarkIn{Ops: c})
			}
			return out
		},
		ExhaustiveNote: "every MarkForDeletion / UnmarkForDeletion id list of length <= 3 over {a, b, unknown} on seven two-node clusters (bare Nodes, NodeClaim-only, both, one already gone)",
	}
}
