// Package c05: correspondence ops for C05 (stub, not yet built).
package c05

import (
	"verifharness/internal/core"
	"verifharness/internal/registry"
)

func init() { registry.Register("C05", Ops) }

func Ops() []*core.Op { return nil }
