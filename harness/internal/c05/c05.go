// Package c05: disruption budgets — real code vs Lean model, and the independent Lean spec on what the real code did.
package c05

import (
	"encoding/json"
	"fmt"
	"math/rand/v2"
	"sort"
	"strings"
	"time"

	"github.com/robfig/cron/v3"
	"github.com/samber/lo"
	clocktesting "k8s.io/utils/clock/testing"

	v1 "sigs.k8s.io/karpenter/pkg/apis/v1"

	"verifharness/internal/core"
	"verifharness/internal/registry"
)

func init() { registry.Register("C05", Ops) }

// CronEntry records what the real robfig/cron answers for the (schedule, checkpoint) pair the code asks.
type CronEntry struct {
	S    string `json:"s"`
	T    int64  `json:"t"`
	OK   bool   `json:"ok"`
	Next *int64 `json:"next"`
}

// cronTable asks the real cron library the same questions Budget.IsActive asks, for every budget at `now`
// (and optionally at further instants).
func cronTable(bs []BudgetIn, nows ...time.Time) []CronEntry {
	out := []CronEntry{}
	seen := map[string]bool{}
	for _, now := range nows {
		for _, b := range bs {
			if b.Schedule == nil && b.DurationMin == nil {
				continue
			}
			s := lo.FromPtr(b.Schedule)
			d := time.Duration(lo.FromPtr(b.DurationMin)) * time.Minute
			t := now.UTC().Add(-d)
			key := fmt.Sprintf("%s|%d", s, t.UnixNano())
			if seen[key] {
				continue
			}
			seen[key] = true
			e := CronEntry{S: s, T: t.UnixNano()}
			sch, err := cron.ParseStandard(fmt.Sprintf("TZ=UTC %s", s))
			if err == nil {
				e.OK = true
				if h := sch.Next(t); !h.IsZero() {
					e.Next = lo.ToPtr(h.UnixNano())
				}
			}
			out = append(out, e)
		}
	}
	return out
}

func unixNs(ns int64) time.Time { return time.Unix(0, ns).UTC() }

// ---------------------------------------------------------------------------------------------------------------
// c05.active

type ActiveIn struct {
	Budget   BudgetIn `json:"budget"`
	NowNs    int64    `json:"nowNs"`
	NumNodes int      `json:"numNodes"`
}

type ActiveOut struct {
	Active     bool        `json:"active"`
	Err        bool        `json:"err"`
	Allowed    int         `json:"allowed"`
	AllowedErr bool        `json:"allowedErr"`
	Cron       []CronEntry `json:"cron"`
}

func genActive(r *rand.Rand, t core.Tier) any {
	b := genBudget(r, false, true)
	// this op is about the window: make sure most budgets are scheduled
	if b.Schedule == nil && r.Float64() < 0.7 {
		s := genSchedule(r)
		d := genDuration(r)
		b.Schedule, b.DurationMin = &s, &d
	}
	now := genInstant(r, []BudgetIn{b})
	return ActiveIn{Budget: b, NowNs: now.UnixNano(), NumNodes: genTotal(r)}
}

func implActive(raw json.RawMessage) (any, error) {
	var in ActiveIn
	if err := json.Unmarshal(raw, &in); err != nil {
		return nil, err
	}
	now := unixNs(in.NowNs)
	clk := clocktesting.NewFakeClock(now)
	b := in.Budget.toV1()
	active, err := b.IsActive(clk)
	allowed, err2 := b.GetAllowedDisruptions(clk, in.NumNodes)
	return ActiveOut{Active: active, Err: err != nil, Allowed: allowed, AllowedErr: err2 != nil, Cron: cronTable([]BudgetIn{in.Budget}, now)}, nil
}

// ---------------------------------------------------------------------------------------------------------------
// c05.allowed

type AllowedIn struct {
	Budgets  []BudgetIn `json:"budgets"`
	NowNs    int64      `json:"nowNs"`
	NumNodes int        `json:"numNodes"`
	Reason   string     `json:"reason"`
}

type PerBudget struct {
	Val int  `json:"val"`
	Err bool `json:"err"`
}

type AllowedOut struct {
	ByReason int         `json:"byReason"`
	Err      bool        `json:"err"`
	Must     int         `json:"must"`
	Per      []PerBudget `json:"per"`
	Cron     []CronEntry `json:"cron"`
}

func genBudgetList(r *rand.Rand, max int, wellFormed, allowEmptyNonNil bool) []BudgetIn {
	n := 1 + r.IntN(max)
	if r.Float64() < 0.04 {
		n = 0
	}
	bs := make([]BudgetIn, 0, n)
	for i := 0; i < n; i++ {
		bs = append(bs, genBudget(r, wellFormed, allowEmptyNonNil))
	}
	if n > 1 && r.Float64() < 0.08 {
		bs[1] = bs[0] // duplicates
	}
	return bs
}

func genAllowed(r *rand.Rand, t core.Tier) any {
	bs := genBudgetList(r, 4, r.Float64() < 0.6, false)
	now := genInstant(r, bs)
	reason := pick(r, allReasons)
	if r.Float64() < 0.03 {
		reason = "Other"
	}
	return AllowedIn{Budgets: bs, NowNs: now.UnixNano(), NumNodes: genTotal(r), Reason: reason}
}

// genReasonsCase: budget lists in which at least one budget has a non-nil EMPTY reasons list.
func genReasonsCase(r *rand.Rand, t core.Tier) any {
	in := genAllowed(r, t).(AllowedIn)
	if len(in.Budgets) == 0 {
		in.Budgets = []BudgetIn{genBudget(r, true, false)}
	}
	i := r.IntN(len(in.Budgets))
	in.Budgets[i].Reasons = &[]string{}
	if r.Float64() < 0.3 {
		in.Budgets = append(in.Budgets, BudgetIn{Reasons: &[]string{}, Nodes: pick(r, []string{"0", "1", "10%"})})
	}
	return in
}

// enumAllowed: a small exhaustive core — every nodes value × reasons shape × queried reason × pool size at a fixed
// instant, for an always-active budget and for one inside / outside its window.
func enumAllowed(t core.Tier) []any {
	return enumAllowedWith([]*[]string{nil, {"Empty"}, {"Drifted", "Underutilized"}})
}

// enumReasons: the same core for the non-nil empty reasons list (known finding C05-empty-reasons lives here).
func enumReasons(t core.Tier) []any { return enumAllowedWith([]*[]string{{}}) }

func enumAllowedWith(reasons []*[]string) []any {
	var out []any
	nodes := []string{"0", "1", "3", "10%", "50%", "100%", "abc", "2147483648"}
	sizes := []int{0, 1, 9, 10, 11}
	hourly := "0 * * * *"
	bad := "61 * * * *"
	d20 := int64(20)
	at := time.Date(2026, 3, 4, 12, 10, 0, 0, time.UTC)
	for _, n := range nodes {
		for _, rs := range reasons {
			for _, q := range allReasons {
				for _, sz := range sizes {
					for w := 0; w < 4; w++ {
						b := BudgetIn{Reasons: rs, Nodes: n}
						now := at
						if w > 0 {
							b.Schedule, b.DurationMin = &hourly, &d20
						}
						if w == 2 {
							now = at.Add(15 * time.Minute)
						}
						if w == 3 {
							b.Schedule = &bad
						}
						out = append(out, AllowedIn{Budgets: []BudgetIn{b, {Nodes: "7"}}, NowNs: now.UnixNano(), NumNodes: sz, Reason: q})
					}
				}
			}
		}
	}
	return out
}

func implAllowed(raw json.RawMessage) (any, error) {
	var in AllowedIn
	if err := json.Unmarshal(raw, &in); err != nil {
		return nil, err
	}
	return runAllowed(in), nil
}

func runAllowed(in AllowedIn) AllowedOut {
	now := unixNs(in.NowNs)
	clk := clocktesting.NewFakeClock(now)
	np := &v1.NodePool{}
	np.Spec.Disruption.Budgets = budgetsToV1(in.Budgets)
	val, err := np.GetAllowedDisruptionsByReason(clk, in.NumNodes, v1.DisruptionReason(in.Reason))
	must := np.MustGetAllowedDisruptions(clk, in.NumNodes, v1.DisruptionReason(in.Reason))
	out := AllowedOut{ByReason: val, Err: err != nil, Must: must, Per: []PerBudget{}, Cron: cronTable(in.Budgets, now)}
	for i := range np.Spec.Disruption.Budgets {
		v, e := np.Spec.Disruption.Budgets[i].GetAllowedDisruptions(clk, in.NumNodes)
		out.Per = append(out.Per, PerBudget{Val: v, Err: e != nil})
	}
	return out
}

// hasEmptyNonNil tells whether some budget has a non-nil empty reasons list.
func hasEmptyNonNil(bs []BudgetIn) bool {
	for _, b := range bs {
		if b.Reasons != nil && len(*b.Reasons) == 0 {
			return true
		}
	}
	return false
}

// nilEmptyReasons returns the budgets with every non-nil empty reasons list replaced by nil (the repaired reading).
func nilEmptyReasons(bs []BudgetIn) []BudgetIn {
	out := make([]BudgetIn, len(bs))
	copy(out, bs)
	for i := range out {
		if out[i].Reasons != nil && len(*out[i].Reasons) == 0 {
			out[i].Reasons = nil
		}
	}
	return out
}

// sigAllowed: "empty-reasons-ignored" iff the input has a budget with a non-nil empty reasons list AND reading that
// list as "no reasons listed" (nil) changes what the real code returns — i.e. the failure is caused by that budget
// being skipped. Any other failing input is "other".
func sigAllowed(raw json.RawMessage, _ any) string {
	var in AllowedIn
	if json.Unmarshal(raw, &in) != nil {
		return "other"
	}
	if !hasEmptyNonNil(in.Budgets) {
		return "other"
	}
	a := runAllowed(in)
	in2 := in
	in2.Budgets = nilEmptyReasons(in.Budgets)
	b := runAllowed(in2)
	if a.Must != b.Must {
		return "empty-reasons-ignored"
	}
	return "other"
}

func budgetLabels(bs []BudgetIn) []string {
	var l []string
	for _, b := range bs {
		switch {
		case b.Schedule == nil && b.DurationMin == nil:
			l = append(l, "budget:always")
		case b.Schedule != nil && b.DurationMin == nil:
			l = append(l, "budget:schedule-without-duration")
		case b.Schedule == nil:
			l = append(l, "budget:duration-without-schedule")
		default:
			if _, err := cron.ParseStandard("TZ=UTC " + *b.Schedule); err != nil {
				l = append(l, "budget:malformed-schedule")
			} else if strings.HasPrefix(*b.Schedule, "@") {
				l = append(l, "budget:descriptor")
			} else {
				l = append(l, "budget:cron")
			}
		}
		switch {
		case b.Reasons == nil:
			l = append(l, "reasons:nil")
		case len(*b.Reasons) == 0:
			l = append(l, "reasons:empty-nonnil")
		default:
			l = append(l, fmt.Sprintf("reasons:%d", len(*b.Reasons)))
		}
		switch {
		case strings.HasSuffix(b.Nodes, "%") && isDigits(strings.TrimSuffix(b.Nodes, "%")):
			l = append(l, "nodes:percent")
		case isDigits(b.Nodes):
			if len(b.Nodes) >= 10 {
				l = append(l, "nodes:count-huge")
			} else {
				l = append(l, "nodes:count")
			}
		case strings.HasPrefix(b.Nodes, "+") || strings.HasPrefix(b.Nodes, "-"):
			l = append(l, "nodes:signed(outside-admission)")
		default:
			l = append(l, "nodes:malformed")
		}
	}
	return l
}

func isDigits(s string) bool {
	if s == "" {
		return false
	}
	for _, c := range s {
		if c < '0' || c > '9' {
			return false
		}
	}
	return true
}

func shrinkBudgets(bs []BudgetIn) [][]BudgetIn {
	var out [][]BudgetIn
	out = append(out, core.ShrinkList(bs)...)
	for i, b := range bs {
		if b.Schedule != nil || b.DurationMin != nil {
			c := append([]BudgetIn{}, bs...)
			c[i].Schedule, c[i].DurationMin = nil, nil
			out = append(out, c)
		}
		if b.Reasons != nil && len(*b.Reasons) > 1 {
			c := append([]BudgetIn{}, bs...)
			rs := (*b.Reasons)[:1]
			c[i].Reasons = &rs
			out = append(out, c)
		}
	}
	return out
}

// ---------------------------------------------------------------------------------------------------------------

func Ops() []*core.Op {
	return []*core.Op{
		{
			Name: "c05.active",
			Doc:  "v1.Budget.IsActive / GetAllowedDisruptions on one budget at one instant, against the window spec [hit, hit+d) with the real robfig/cron sampled against the Lean cron spec",
			N: func(t core.Tier) int {
				if t == core.Thorough {
					return 60000
				}
				return 3000
			},
			Gen:  genActive,
			Impl: implActive,
			Rule: "budgets from the cron grammar (+descriptors, malformed stream), instants at/±1ns/±1s around window edges; non-trivial = scheduled, parsable budget with the instant within one minute of a window edge",
			Nontrivial: func(raw json.RawMessage, _ any) bool {
				var in ActiveIn
				json.Unmarshal(raw, &in)
				return nearEdge([]BudgetIn{in.Budget}, unixNs(in.NowNs))
			},
			Labels: func(raw json.RawMessage, impl any) []string {
				var in ActiveIn
				json.Unmarshal(raw, &in)
				l := budgetLabels([]BudgetIn{in.Budget})
				if m, ok := impl.(map[string]any); ok {
					l = append(l, fmt.Sprintf("active=%v", m["active"]), fmt.Sprintf("err=%v", m["err"]))
				}
				if nearEdge([]BudgetIn{in.Budget}, unixNs(in.NowNs)) {
					l = append(l, "near-edge")
				}
				if m, ok := impl.(map[string]any); ok {
					if cs, ok := m["cron"].([]any); ok {
						for _, c := range cs {
							if cm, ok := c.(map[string]any); ok && cm["ok"] == true && cm["next"] == nil {
								l = append(l, "cron:no-activation-within-5y")
							}
						}
					}
				}
				return l
			},
			Signature: func(raw json.RawMessage, _ any) string { return "active" },
			Shrink: func(raw json.RawMessage) []any {
				var in ActiveIn
				json.Unmarshal(raw, &in)
				var out []any
				if in.Budget.Reasons != nil {
					c := in
					c.Budget.Reasons = nil
					out = append(out, c)
				}
				if in.NumNodes > 10 {
					c := in
					c.NumNodes = 10
					out = append(out, c)
				}
				return out
			},
		},
		{
			Name: "c05.allowed",
			Doc:  "NodePool.GetAllowedDisruptionsByReason / MustGetAllowedDisruptions / per-budget GetAllowedDisruptions on a budget list × instant × pool size × reason",
			N: func(t core.Tier) int {
				if t == core.Thorough {
					return 120000
				}
				return 4000
			},
			Gen:            genAllowed,
			Enum:           enumAllowed,
			ExhaustiveNote: "8 nodes values × 3 reasons shapes (nil, one, two) × 3 queried reasons × 5 pool sizes × {always, inside window, outside window, unparsable schedule}",
			Impl:           implAllowed,
			Rule:           "1–4 budgets (counts, percents, huge/malformed values, reasons nil/empty/listed, cron windows); non-trivial = at least one scheduled parsable budget with the instant within one minute of a window edge, or a percentage budget",
			Nontrivial: func(raw json.RawMessage, _ any) bool {
				var in AllowedIn
				json.Unmarshal(raw, &in)
				if nearEdge(in.Budgets, unixNs(in.NowNs)) {
					return true
				}
				for _, b := range in.Budgets {
					if strings.HasSuffix(b.Nodes, "%") {
						return true
					}
				}
				return false
			},
			Labels: func(raw json.RawMessage, impl any) []string {
				var in AllowedIn
				json.Unmarshal(raw, &in)
				l := budgetLabels(in.Budgets)
				l = append(l, fmt.Sprintf("budgets=%d", len(in.Budgets)), "reason:"+in.Reason)
				if m, ok := impl.(map[string]any); ok {
					l = append(l, fmt.Sprintf("err=%v", m["err"]))
					if fmt.Sprint(m["must"]) == "2147483647" {
						l = append(l, "must=unbounded")
					} else if fmt.Sprint(m["must"]) == "0" {
						l = append(l, "must=0")
					} else {
						l = append(l, "must=bounded")
					}
				}
				return l
			},
			Signature: sigAllowed,
			Shrink: func(raw json.RawMessage) []any {
				var in AllowedIn
				json.Unmarshal(raw, &in)
				var out []any
				for _, c := range shrinkBudgets(in.Budgets) {
					x := in
					x.Budgets = c
					out = append(out, x)
				}
				if in.NumNodes > 10 {
					x := in
					x.NumNodes = 10
					out = append(out, x)
				}
				return out
			},
		},
		{
			Name: "c05.reasons",
			Doc:  "the same real functions as c05.allowed, on budget lists that contain a budget with a non-nil EMPTY `reasons` list (what decoding `reasons: []` yields); home of known finding C05-empty-reasons",
			N: func(t core.Tier) int {
				if t == core.Thorough {
					return 4000
				}
				return 400
			},
			Gen:            genReasonsCase,
			Enum:           enumReasons,
			ExhaustiveNote: "8 nodes values × reasons = [] × 3 queried reasons × 5 pool sizes × {always, inside window, outside window, unparsable schedule}",
			Impl:           implAllowed,
			Rule:           "budget lists with at least one `reasons: []` budget; non-trivial = that budget is the most restrictive active one for the queried reason (reading [] as nil changes the result)",
			Nontrivial: func(raw json.RawMessage, _ any) bool {
				return sigAllowed(raw, nil) == "empty-reasons-ignored"
			},
			Labels: func(raw json.RawMessage, impl any) []string {
				var in AllowedIn
				json.Unmarshal(raw, &in)
				return []string{fmt.Sprintf("budgets=%d", len(in.Budgets)), "reason:" + in.Reason, "class:" + sigAllowed(raw, nil)}
			},
			Signature: sigAllowed,
			Shrink: func(raw json.RawMessage) []any {
				var in AllowedIn
				json.Unmarshal(raw, &in)
				var out []any
				for _, c := range shrinkBudgets(in.Budgets) {
					x := in
					x.Budgets = c
					out = append(out, x)
				}
				return out
			},
		},
		opMapping(),
		opSelect(),
		opRounds(),
	}
}

func sortedPairs(m map[string]int) [][]any {
	keys := lo.Keys(m)
	sort.Strings(keys)
	out := [][]any{}
	for _, k := range keys {
		out = append(out, []any{k, m[k]})
	}
	return out
}
