package c05

// cluster.go: the ops that run the real disruption code on a fake-client cluster:
//   c05.mapping — disruption.BuildDisruptionBudgetMapping
//   c05.select  — each method's ComputeCommands with its real validator (zero delay, world mutated "meanwhile")
//   c05.rounds  — histories through the real Controller.Reconcile with the real orchestration Queue

import (
	"context"
	"encoding/json"
	"fmt"
	"math/rand/v2"
	"sort"
	"strings"
	"time"

	"github.com/samber/lo"
	corev1 "k8s.io/api/core/v1"
	metav1 "k8s.io/apimachinery/pkg/apis/meta/v1"
	"k8s.io/apimachinery/pkg/types"

	v1 "sigs.k8s.io/karpenter/pkg/apis/v1"
	"sigs.k8s.io/karpenter/pkg/controllers/disruption"
	nodeutils "sigs.k8s.io/karpenter/pkg/utils/node"

	"verifharness/internal/core"
)

// ---------------------------------------------------------------------------------------------------------------
// generators

type clusterOpts struct {
	maxPools, maxNodes int
	wellFormed         float64 // probability that a pool's budgets are all admissible/readable
	emptyNonNil        bool
	healthy            float64 // probability that a node is an ordinary healthy node
	method             string
}

func genPools(r *rand.Rand, o clusterOpts) []PoolIn {
	n := 1 + r.IntN(o.maxPools)
	names := []string{"a", "b", "c", "d"}
	pools := make([]PoolIn, 0, n)
	for i := 0; i < n; i++ {
		p := PoolIn{Name: names[i], Budgets: genBudgetList(r, 3, r.Float64() < o.wellFormed, o.emptyNonNil), NodeLimit: -1}
		if r.Float64() < 0.25 {
			// the default budget of the CRD
			p.Budgets = []BudgetIn{{Nodes: "10%"}}
		}
		pools = append(pools, p)
	}
	if r.Float64() < 0.06 {
		pools = append(pools, PoolIn{Name: "u", Unmanaged: true, Budgets: []BudgetIn{{Nodes: "0"}}, NodeLimit: -1})
	}
	return pools
}

func genNodes(r *rand.Rand, pools []PoolIn, o clusterOpts) []NodeIn {
	n := r.IntN(o.maxNodes + 1)
	nodes := make([]NodeIn, 0, n)
	for i := 0; i < n; i++ {
		p := pick(r, pools)
		nd := NodeIn{Name: fmt.Sprintf("n%02d", i), Pool: p.Name, Initialized: true, Ready: true, Consolidatable: true}
		if r.Float64() < 0.02 {
			nd.Pool = "zz" // a pool that does not exist
		}
		switch o.method {
		case "emptiness":
			nd.Pods = lo.Ternary(r.Float64() < 0.2, 1, 0)
		case "drift", "static":
			nd.Drifted = r.Float64() < 0.8
			nd.DriftedAgoSec = int64(10 + i*7 + r.IntN(5))
			nd.Pods = lo.Ternary(r.Float64() < 0.4, 1, 0)
		case "multi", "single":
			nd.Pods = lo.Ternary(r.Float64() < 0.85, 1, 0)
		default:
			nd.Pods = r.IntN(2)
			nd.Drifted = r.Float64() < 0.3
			nd.DriftedAgoSec = int64(10 + i*7)
		}
		if r.Float64() >= o.healthy {
			switch r.IntN(9) {
			case 0:
				nd.Ready = false
			case 1:
				nd.Marked = true
			case 2:
				nd.Deleting = true
			case 3:
				nd.Initialized = false
				nd.Ready = r.Float64() < 0.5
			case 4:
				nd.Terminating = true
				nd.Deleting = r.Float64() < 0.7
			case 5:
				nd.ReadyMissing = true
			case 6:
				nd.Unmanaged = true
				nd.Ready = r.Float64() < 0.7
			case 7:
				nd.Consolidatable = false
				nd.DoNotDisrupt = r.Float64() < 0.5
			case 8:
				nd.Ready = false
				nd.Marked = true
			}
		}
		nodes = append(nodes, nd)
	}
	return nodes
}

func allBudgets(pools []PoolIn) []BudgetIn {
	var bs []BudgetIn
	for _, p := range pools {
		if !p.Unmanaged {
			bs = append(bs, p.Budgets...)
		}
	}
	return bs
}

func clusterLabels(pools []PoolIn, nodes []NodeIn) []string {
	l := []string{fmt.Sprintf("pools=%d", len(pools)), fmt.Sprintf("nodes<=%d", ((len(nodes)/5)+1)*5)}
	for _, n := range nodes {
		switch {
		case n.Unmanaged:
			l = append(l, "node:unmanaged")
		case !n.Initialized:
			l = append(l, "node:uninitialized")
		case n.Terminating:
			l = append(l, "node:terminating")
		case n.Deleting:
			l = append(l, "node:deleting")
		case n.Marked:
			l = append(l, "node:marked")
		case n.ReadyMissing:
			l = append(l, "node:ready-missing")
		case !n.Ready:
			l = append(l, "node:not-ready")
		default:
			l = append(l, "node:healthy")
		}
	}
	return l
}

// ---------------------------------------------------------------------------------------------------------------
// c05.mapping

type MappingIn struct {
	Pools  []PoolIn `json:"pools"`
	Nodes  []NodeIn `json:"nodes"`
	NowNs  int64    `json:"nowNs"`
	Reason string   `json:"reason"`
}

type MappingOut struct {
	Mapping [][]any     `json:"mapping"`
	Cron    []CronEntry `json:"cron"`
	Err     string      `json:"err,omitempty"`
}

func genMapping(r *rand.Rand, t core.Tier) any {
	o := clusterOpts{maxPools: 3, maxNodes: 14, wellFormed: 0.8, emptyNonNil: false, healthy: 0.6}
	if t == core.Thorough {
		o.maxNodes = 30
	}
	pools := genPools(r, o)
	nodes := genNodes(r, pools, o)
	now := genInstant(r, allBudgets(pools))
	return MappingIn{Pools: pools, Nodes: nodes, NowNs: now.UnixNano(), Reason: pick(r, allReasons)}
}

func runMapping(in MappingIn) (MappingOut, error) {
	now := unixNs(in.NowNs)
	w := NewWorld(now)
	if err := w.Build(in.Pools, in.Nodes); err != nil {
		return MappingOut{}, err
	}
	m, err := disruption.BuildDisruptionBudgetMapping(w.Ctx, w.Cluster, w.Clk, w.Client, w.CP, w.Rec, v1.DisruptionReason(in.Reason))
	out := MappingOut{Mapping: sortedPairs(m), Cron: cronTable(allBudgets(in.Pools), now)}
	if err != nil {
		out.Err = "error"
	}
	return out, nil
}

func implMapping(raw json.RawMessage) (any, error) {
	var in MappingIn
	if err := json.Unmarshal(raw, &in); err != nil {
		return nil, err
	}
	return runMapping(in)
}

func poolsNilEmptyReasons(pools []PoolIn) []PoolIn {
	out := make([]PoolIn, len(pools))
	copy(out, pools)
	for i := range out {
		out[i].Budgets = nilEmptyReasons(out[i].Budgets)
	}
	return out
}

// sigMapping: same classification as sigAllowed, on the mapping.
func sigMapping(raw json.RawMessage, _ any) string {
	var in MappingIn
	if json.Unmarshal(raw, &in) != nil {
		return "other"
	}
	if !hasEmptyNonNil(allBudgets(in.Pools)) {
		return "other"
	}
	a, err1 := runMapping(in)
	in2 := in
	in2.Pools = poolsNilEmptyReasons(in.Pools)
	b, err2 := runMapping(in2)
	if err1 != nil || err2 != nil {
		return "other"
	}
	ja, _ := json.Marshal(a.Mapping)
	jb, _ := json.Marshal(b.Mapping)
	if string(ja) != string(jb) {
		return "empty-reasons-ignored"
	}
	return "other"
}

func shrinkCluster(pools []PoolIn, nodes []NodeIn) (ps [][]PoolIn, ns [][]NodeIn) {
	ns = core.ShrinkList(nodes)
	for i := range pools {
		for _, bs := range shrinkBudgets(pools[i].Budgets) {
			c := append([]PoolIn{}, pools...)
			c[i].Budgets = bs
			ps = append(ps, c)
		}
	}
	if len(pools) > 1 {
		for i := range pools {
			c := append([]PoolIn{}, pools[:i]...)
			c = append(c, pools[i+1:]...)
			ps = append(ps, c)
		}
	}
	return
}

func opMapping() *core.Op {
	return &core.Op{
		Name: "c05.mapping",
		Doc:  "disruption.BuildDisruptionBudgetMapping on a fake-client cluster + real state.Cluster (pools × budgets × node health states × instant × reason)",
		N: func(t core.Tier) int {
			if t == core.Thorough {
				return 12000
			}
			return 700
		},
		Gen:  genMapping,
		Impl: implMapping,
		Rule: "1–3 pools (+unmanaged), 0–14 nodes with mixed states (not ready, marked, deleting, terminating, uninitialized, unmanaged, no Ready condition); non-trivial = some managed pool has at least one counted node that is not ready or being deleted",
		Nontrivial: func(raw json.RawMessage, _ any) bool {
			var in MappingIn
			json.Unmarshal(raw, &in)
			for _, n := range in.Nodes {
				if !n.Unmanaged && n.Initialized && !n.Terminating && (!n.Ready || n.ReadyMissing || n.Marked || n.Deleting) {
					return true
				}
			}
			return false
		},
		Labels: func(raw json.RawMessage, _ any) []string {
			var in MappingIn
			json.Unmarshal(raw, &in)
			return append(clusterLabels(in.Pools, in.Nodes), "reason:"+in.Reason)
		},
		Signature: sigMapping,
		Shrink: func(raw json.RawMessage) []any {
			var in MappingIn
			json.Unmarshal(raw, &in)
			var out []any
			ps, ns := shrinkCluster(in.Pools, in.Nodes)
			for _, n := range ns {
				c := in
				c.Nodes = n
				out = append(out, c)
			}
			for _, p := range ps {
				c := in
				c.Pools = p
				out = append(out, c)
			}
			return out
		},
	}
}

// ---------------------------------------------------------------------------------------------------------------
// c05.select

// LaterIn: what happens to the world while the validator waits out commandValidationDelay.
type LaterIn struct {
	AdvanceSec int64    `json:"advanceSec"`
	NotReady   []string `json:"notReady"`
	Mark       []string `json:"mark"`
	Nominate   []string `json:"nominate"`
}

type SelectIn struct {
	Pools  []PoolIn `json:"pools"`
	Nodes  []NodeIn `json:"nodes"`
	NowNs  int64    `json:"nowNs"`
	Method string   `json:"method"`
	// Validator: "real" = the method's real validator (zero delay, after the Later mutations);
	// "nop" = a pass-through validator (what ComputeCommands itself selects, before validation)
	Validator string  `json:"validator"`
	Later     LaterIn `json:"later"`
}

// nopValidator lets every command through unchanged.
type nopValidator struct{}

func (nopValidator) Validate(_ context.Context, cmd disruption.Command, _ time.Duration) (disruption.Command, error) {
	return cmd, nil
}

type StaticCount struct {
	Pool     string `json:"pool"`
	Running  int    `json:"running"`
	Deleting int    `json:"deleting"`
	Pending  int    `json:"pending"`
}

type SelectOut struct {
	Mapping    [][]any       `json:"mapping"`
	Candidates []string      `json:"candidates"`
	Commands   [][]string    `json:"commands"`
	Validated  bool          `json:"validated"`
	Static     []StaticCount `json:"static"`
	Err        string        `json:"err,omitempty"`
	Cron       []CronEntry   `json:"cron"`
}

// laterValidator applies the "meanwhile" mutations, then runs the REAL validator without the 15 s wait.
type laterValidator struct {
	v      disruption.Validator
	w      *World
	later  LaterIn
	called *bool
}

func (l laterValidator) Validate(ctx context.Context, cmd disruption.Command, _ time.Duration) (disruption.Command, error) {
	if !*l.called {
		*l.called = true
		if err := l.w.applyLater(l.later); err != nil {
			return disruption.Command{}, err
		}
	}
	return l.v.Validate(ctx, cmd, 0)
}

func (w *World) applyLater(l LaterIn) error {
	if l.AdvanceSec > 0 {
		w.Clk.Step(time.Duration(l.AdvanceSec) * time.Second)
	}
	for _, n := range l.NotReady {
		if _, ok := w.PID[n]; ok {
			if err := w.SetReady(n, false); err != nil {
				return err
			}
		}
	}
	for _, n := range l.Mark {
		if pid, ok := w.PID[n]; ok {
			w.Cluster.MarkForDeletion(pid)
		}
	}
	for _, n := range l.Nominate {
		if pid, ok := w.PID[n]; ok {
			w.Cluster.NominateNodeForPod(w.Ctx, pid)
		}
	}
	return nil
}

var selectMethods = []string{"emptiness", "drift", "multi", "single", "static"}

func genSelect(r *rand.Rand, t core.Tier) any {
	method := pick(r, selectMethods)
	o := clusterOpts{maxPools: 3, maxNodes: 12, wellFormed: 1, emptyNonNil: false, healthy: 0.8, method: method}
	pools := genPools(r, o)
	// budgets that bind: small counts and percentages are the interesting ones here
	for i := range pools {
		if r.Float64() < 0.6 {
			pools[i].Budgets = []BudgetIn{{Nodes: pick(r, []string{"0", "1", "2", "3", "10%", "20%", "34%", "50%", "100%"})}}
			if r.Float64() < 0.4 {
				pools[i].Budgets = append(pools[i].Budgets, genBudget(r, true, false))
			}
			if r.Float64() < 0.45 {
				// a budget for one reason only, tighter or looser than the general one
				rs := []string{pick(r, allReasons)}
				pools[i].Budgets = append(pools[i].Budgets, BudgetIn{Nodes: pick(r, []string{"0", "1", "2", "25%", "4"}), Reasons: &rs})
			}
		}
	}
	var nodes []NodeIn
	for len(nodes) < 2 {
		nodes = genNodes(r, pools, o)
	}
	if method == "static" {
		for i := range pools {
			if pools[i].Unmanaged {
				continue
			}
			if r.Float64() < 0.75 {
				pools[i].Static = true
				cnt := 0
				for _, n := range nodes {
					if n.Pool == pools[i].Name && !n.Unmanaged {
						cnt++
					}
				}
				pools[i].Replicas = int64(cnt)
				switch r.IntN(6) {
				case 0:
					pools[i].Replicas = int64(lo.Max([]int{cnt - 1, 0})) // scale-down pending
				case 1:
					pools[i].NodeLimit = int64(cnt) // no headroom
				case 2:
					pools[i].NodeLimit = int64(cnt + 1)
				case 3:
					pools[i].NodeLimit = int64(cnt + 2)
				}
			}
		}
	}
	now := genInstant(r, allBudgets(pools))
	in := SelectIn{Pools: pools, Nodes: nodes, NowNs: now.UnixNano(), Method: method, Validator: "real", Later: LaterIn{NotReady: []string{}, Mark: []string{}, Nominate: []string{}}}
	if (method == "emptiness" || method == "multi" || method == "single") && r.Float64() < 0.35 {
		in.Validator = "nop"
		return in
	}
	if r.Float64() < 0.45 {
		// the world changes while the validator waits
		k := 1 + r.IntN(2)
		for i := 0; i < k; i++ {
			n := pick(r, nodes).Name
			switch r.IntN(4) {
			case 0, 1:
				in.Later.NotReady = append(in.Later.NotReady, n)
			case 2:
				in.Later.Mark = append(in.Later.Mark, n)
			case 3:
				in.Later.Nominate = append(in.Later.Nominate, n)
			}
		}
		if r.Float64() < 0.3 {
			in.Later.AdvanceSec = pick(r, []int64{15, 60, 600, 3600})
		}
	}
	return in
}

func buildMethod(w *World, method string, validator string, later LaterIn, called *bool) disruption.Method {
	c := disruption.MakeConsolidation(w.Clk, w.Cluster, w.Client, w.Prov, w.CP, w.Rec, w.Queue)
	wrap := func(v disruption.Validator) disruption.Validator {
		if validator == "nop" {
			return nopValidator{}
		}
		return laterValidator{v: v, w: w, later: later, called: called}
	}
	switch method {
	case "emptiness":
		return disruption.NewEmptiness(c, disruption.WithValidator(wrap(disruption.NewEmptinessValidator(c))))
	case "drift":
		return disruption.NewDrift(w.Client, w.Cluster, w.Prov, w.Rec, w.Clk)
	case "multi":
		return disruption.NewMultiNodeConsolidation(c, disruption.WithValidator(wrap(disruption.NewMultiConsolidationValidator(c))))
	case "single":
		return disruption.NewSingleNodeConsolidation(c, disruption.WithValidator(wrap(disruption.NewSingleConsolidationValidator(c))))
	case "static":
		return disruption.NewStaticDrift(w.Cluster, w.Prov, w.CP)
	}
	return nil
}

func implSelect(raw json.RawMessage) (any, error) {
	var in SelectIn
	if err := json.Unmarshal(raw, &in); err != nil {
		return nil, err
	}
	now := unixNs(in.NowNs)
	w := NewWorld(now)
	if err := w.Build(in.Pools, in.Nodes); err != nil {
		return nil, err
	}
	called := false
	m := buildMethod(w, in.Method, in.Validator, in.Later, &called)
	if m == nil {
		return nil, fmt.Errorf("bad method %q", in.Method)
	}
	out := SelectOut{Candidates: []string{}, Commands: [][]string{}, Static: []StaticCount{}}
	cands, err := disruption.GetCandidates(w.Ctx, w.Cluster, w.Client, w.Rec, w.Clk, w.CP, m.ShouldDisrupt, m.Class(), w.Queue)
	if err != nil {
		return nil, err
	}
	for _, c := range cands {
		out.Candidates = append(out.Candidates, c.Name())
	}
	sort.Strings(out.Candidates)
	mapping, err := disruption.BuildDisruptionBudgetMapping(w.Ctx, w.Cluster, w.Clk, w.Client, w.CP, w.Rec, m.Reason())
	if err != nil {
		return nil, err
	}
	out.Mapping = sortedPairs(mapping)
	for _, p := range in.Pools {
		if p.Static {
			a, d, pd := w.Cluster.NodePoolState.GetNodeCount(p.Name)
			out.Static = append(out.Static, StaticCount{Pool: p.Name, Running: a, Deleting: d, Pending: pd})
		}
	}
	cmds, err := m.ComputeCommands(w.Ctx, mapping, cands...)
	if err != nil {
		out.Err = "error"
	}
	for _, c := range cmds {
		if len(c.Candidates) == 0 {
			continue
		}
		out.Commands = append(out.Commands, candidateNames(c))
	}
	sort.Slice(out.Commands, func(i, j int) bool { return strings.Join(out.Commands[i], ",") < strings.Join(out.Commands[j], ",") })
	out.Validated = called
	later := now.Add(time.Duration(in.Later.AdvanceSec) * time.Second)
	out.Cron = cronTable(allBudgets(in.Pools), now, later)
	return out, nil
}

func opSelect() *core.Op {
	return &core.Op{
		Name: "c05.select",
		Doc:  "Emptiness / Drift / MultiNodeConsolidation / SingleNodeConsolidation / StaticDrift .ComputeCommands with the real validators (world mutated during the validation delay) on a fake-client cluster",
		N: func(t core.Tier) int {
			if t == core.Thorough {
				return 10000
			}
			return 600
		},
		Gen:  genSelect,
		Impl: implSelect,
		Rule: "clusters of 2–12 nodes in 1–3 pools with binding budgets, per method; 45% with NotReady/mark/nominate/clock changes during validation; non-trivial = at least one command was produced",
		Nontrivial: func(_ json.RawMessage, impl any) bool {
			if m, ok := impl.(map[string]any); ok {
				if c, ok := m["commands"].([]any); ok {
					return len(c) > 0
				}
			}
			return false
		},
		Labels: func(raw json.RawMessage, impl any) []string {
			var in SelectIn
			json.Unmarshal(raw, &in)
			l := []string{"method:" + in.Method, "validator:" + in.Validator}
			if m, ok := impl.(map[string]any); ok {
				c, _ := m["commands"].([]any)
				l = append(l, fmt.Sprintf("%s:commands=%d", in.Method, lo.Min([]int{len(c), 3})))
				if v, _ := m["validated"].(bool); v {
					l = append(l, "validator-ran")
					if len(in.Later.NotReady)+len(in.Later.Mark)+len(in.Later.Nominate) > 0 || in.Later.AdvanceSec > 0 {
						l = append(l, "validator-ran-on-changed-world")
					}
				}
				if cd, ok := m["candidates"].([]any); ok {
					total := 0
					for _, x := range c {
						if xs, ok := x.([]any); ok {
							total += len(xs)
						}
					}
					if total < len(cd) && len(cd) > 0 {
						l = append(l, "budget-or-simulation-limited")
					}
				}
			}
			return l
		},
		Signature: func(raw json.RawMessage, _ any) string {
			var in SelectIn
			json.Unmarshal(raw, &in)
			return "select:" + in.Method
		},
		Shrink: func(raw json.RawMessage) []any {
			var in SelectIn
			json.Unmarshal(raw, &in)
			var out []any
			ps, ns := shrinkCluster(in.Pools, in.Nodes)
			for _, n := range ns {
				c := in
				c.Nodes = n
				out = append(out, c)
			}
			for _, p := range ps {
				c := in
				c.Pools = p
				out = append(out, c)
			}
			if len(in.Later.NotReady)+len(in.Later.Mark)+len(in.Later.Nominate) > 0 || in.Later.AdvanceSec > 0 {
				c := in
				c.Later = LaterIn{NotReady: []string{}, Mark: []string{}, Nominate: []string{}}
				out = append(out, c)
			}
			return out
		},
	}
}

// ---------------------------------------------------------------------------------------------------------------
// c05.rounds

type EventIn struct {
	// reconcile | advance | notReady | ready | queue | sync | terminate | remove | rollback
	Kind string `json:"kind"`
	Name string `json:"name,omitempty"`
	Sec  int64  `json:"sec,omitempty"`
	// Lag (queue events): the orchestration queue executes its commands (the candidates' NodeClaims get their
	// deletionTimestamp in the API) but the NodeClaim informer has NOT yet delivered that update to the in-memory
	// cluster state when the next events happen; a later "sync" event (or any event that touches the node) delivers it.
	Lag bool `json:"lag,omitempty"`
}

type RoundsIn struct {
	Pools  []PoolIn  `json:"pools"`
	Nodes  []NodeIn  `json:"nodes"`
	NowNs  int64     `json:"nowNs"`
	Events []EventIn `json:"events"`
}

type SnapNode struct {
	Name        string `json:"name"`
	Pool        string `json:"pool"`
	Unmanaged   bool   `json:"unmanaged"`
	Initialized bool   `json:"initialized"`
	Ready       bool   `json:"ready"`
	Terminating bool   `json:"terminating"`
	// Marked: "being deleted" as an outside observer sees it (see snapshot): initially marked, held by a command in
	// the orchestration queue, or the NodeClaim has a deletionTimestamp IN THE API
	Marked bool `json:"marked"`
	// the parts of Marked, and the cluster state's own view (StateNode.MarkedForDeletion(), the thing under test)
	InFlight      bool `json:"inFlight"`
	APIDeleting   bool `json:"apiDeleting"`
	StateDeleting bool `json:"stateDeleting"`
	StateMarked   bool `json:"stateMarked"`
}

// CmdDone: a command the orchestration queue finished, and how (Succeeded: its candidates' NodeClaims were deleted).
type CmdDone struct {
	Names     []string `json:"names"`
	Succeeded bool     `json:"succeeded"`
}

// EventLog: what one input event did to the queue / the informer, in the order of the input events.
type EventLog struct {
	Kind string `json:"kind"`
	// Round: index into `rounds` for a reconcile event, -1 otherwise
	Round int `json:"round"`
	// Cmds: the commands Queue.Reconcile / CompleteCommand finished during this event
	Cmds []CmdDone `json:"cmds"`
	// Synced: the nodes whose API objects the "informer" delivered to the cluster state during this event
	Synced []string `json:"synced"`
}

type CmdOut struct {
	Reason string   `json:"reason"`
	Names  []string `json:"names"`
}

type RoundOut struct {
	NowNs    int64      `json:"nowNs"`
	Nodes    []SnapNode `json:"nodes"`
	Commands []CmdOut   `json:"commands"`
	Err      string     `json:"err,omitempty"`
}

type RoundsOut struct {
	Rounds []RoundOut  `json:"rounds"`
	Log    []EventLog  `json:"log"`
	Cron   []CronEntry `json:"cron"`
}

// snapshot is what an observer sees before a round. "Being deleted" is NOT read from the cluster state's mark
// (the thing under test) but from independent sources: the node was marked in the initial state, it belongs to a
// command that is in the orchestration queue, or its NodeClaim has a deletion timestamp in the API.
func (w *World) snapshot() []SnapNode {
	out := []SnapNode{}
	inFlight := map[string]bool{}
	for _, c := range w.Queue.GetCommands() {
		for _, n := range candidateNames(*c) {
			inFlight[n] = true
		}
	}
	for _, n := range w.Cluster.DeepCopyNodes() {
		s := SnapNode{Name: n.Name(), Pool: n.Labels()[v1.NodePoolLabelKey], Unmanaged: !n.Managed(), Initialized: n.Initialized()}
		if n.Node != nil {
			s.Name = n.Node.Name
		}
		s.InFlight = inFlight[s.Name]
		s.StateMarked = n.MarkedForDeletion()
		if n.NodeClaim != nil {
			s.StateDeleting = !n.NodeClaim.DeletionTimestamp.IsZero()
			nc := &v1.NodeClaim{}
			if err := w.Client.Get(w.Ctx, types.NamespacedName{Name: n.NodeClaim.Name}, nc); err == nil && !nc.DeletionTimestamp.IsZero() {
				s.APIDeleting = true
			}
		}
		s.Marked = w.InitMarked[s.Name] || s.InFlight || s.APIDeleting
		if n.Node != nil {
			s.Name = n.Node.Name
			s.Ready = nodeutils.GetCondition(n.Node, corev1.NodeReady).Status == corev1.ConditionTrue
		}
		if n.NodeClaim != nil {
			s.Terminating = n.NodeClaim.StatusConditions().Get(v1.ConditionTypeInstanceTerminating).IsTrue()
		}
		out = append(out, s)
	}
	sort.Slice(out, func(i, j int) bool { return out[i].Name < out[j].Name })
	return out
}

// launchReplacements plays the lifecycle controllers for NodeClaims the queue created: give them a provider id, a
// ready initialized Node, and tell the cluster state.
func (w *World) launchReplacements() error {
	ncs := &v1.NodeClaimList{}
	if err := w.Client.List(w.Ctx, ncs); err != nil {
		return err
	}
	sort.Slice(ncs.Items, func(i, j int) bool { return ncs.Items[i].Name < ncs.Items[j].Name })
	for i := range ncs.Items {
		nc := &ncs.Items[i]
		if nc.Status.ProviderID != "" {
			continue
		}
		w.repl++
		name := fmt.Sprintf("repl-%02d", w.repl)
		pid := "fake:///" + name
		w.PID[name] = pid
		w.NC[name] = nc.Name
		old := w.Clk.Now()
		nc.Status.ProviderID = pid
		nc.Status.NodeName = name
		alloc := corev1.ResourceList{}
		for k, v := range w.alloc() {
			alloc[k] = v
		}
		nc.Status.Capacity, nc.Status.Allocatable = alloc, alloc
		for _, t := range []string{v1.ConditionTypeLaunched, v1.ConditionTypeRegistered, v1.ConditionTypeInitialized} {
			nc.StatusConditions().SetTrue(t)
		}
		_ = old
		if err := w.Client.Status().Update(w.Ctx, nc); err != nil {
			return err
		}
		labels := lo.Assign(nc.Labels, map[string]string{
			corev1.LabelInstanceTypeStable: instanceType, v1.CapacityTypeLabelKey: "on-demand", corev1.LabelTopologyZone: "test-zone-1",
			corev1.LabelHostname: name, corev1.LabelArchStable: "amd64", corev1.LabelOSStable: "linux",
			v1.NodeRegisteredLabelKey: "true", v1.NodeInitializedLabelKey: "true",
		})
		node := &corev1.Node{ObjectMeta: w.meta(name, labels, nil)}
		node.Spec.ProviderID = pid
		node.Status.Allocatable, node.Status.Capacity = alloc, alloc
		node.Status.Conditions = []corev1.NodeCondition{{Type: corev1.NodeReady, Status: corev1.ConditionTrue}}
		if err := w.Client.Create(w.Ctx, node); err != nil {
			return err
		}
		if err := w.Sync(name); err != nil {
			return err
		}
	}
	return nil
}

func genRounds(r *rand.Rand, t core.Tier) any {
	o := clusterOpts{maxPools: 2, maxNodes: 12, wellFormed: 1, emptyNonNil: false, healthy: 0.85}
	pools := genPools(r, o)
	for i := range pools {
		if r.Float64() < 0.7 {
			pools[i].Budgets = []BudgetIn{{Nodes: pick(r, []string{"1", "2", "3", "10%", "20%", "34%", "50%"})}}
			if r.Float64() < 0.5 {
				// per-reason budgets
				rs := []string{pick(r, allReasons)}
				pools[i].Budgets = append(pools[i].Budgets, BudgetIn{Nodes: pick(r, []string{"0", "1", "25%"}), Reasons: &rs})
			}
			if r.Float64() < 0.3 {
				pools[i].Budgets = append(pools[i].Budgets, genBudget(r, true, false))
			}
		}
	}
	var nodes []NodeIn
	for len(nodes) < 3 {
		nodes = genNodes(r, pools, o)
	}
	now := genInstant(r, allBudgets(pools))
	if r.Float64() < 0.25 {
		// pipelines: the controller requeues immediately after a successful round, the queue executes the command,
		// and the next round starts before (80%) or after the informer has told the cluster state about the
		// NodeClaims' deletionTimestamp
		cycles := 2 + r.IntN(3)
		if t == core.Thorough {
			cycles = 2 + r.IntN(6)
		}
		evs := []EventIn{}
		for i := 0; i < cycles; i++ {
			evs = append(evs, EventIn{Kind: "reconcile"}, EventIn{Kind: "queue", Lag: r.Float64() < 0.8})
			switch x := r.Float64(); {
			case x < 0.15:
				evs = append(evs, EventIn{Kind: "notReady", Name: pick(r, nodes).Name})
			case x < 0.25:
				evs = append(evs, EventIn{Kind: "advance", Sec: pick(r, []int64{1, 15, 60, 600})})
			case x < 0.32:
				evs = append(evs, EventIn{Kind: "rollback"})
			}
			evs = append(evs, EventIn{Kind: "reconcile"})
			if r.Float64() < 0.4 {
				evs = append(evs, EventIn{Kind: "sync"})
			}
		}
		evs = append(evs, EventIn{Kind: "reconcile"})
		return RoundsIn{Pools: pools, Nodes: nodes, NowNs: now.UnixNano(), Events: evs}
	}
	n := 4 + r.IntN(10)
	if t == core.Thorough {
		n = 6 + r.IntN(24)
	}
	evs := []EventIn{{Kind: "reconcile"}}
	for i := 0; i < n; i++ {
		x := r.Float64()
		switch {
		case x < 0.47:
			evs = append(evs, EventIn{Kind: "reconcile"})
		case x < 0.56:
			evs = append(evs, EventIn{Kind: "advance", Sec: pick(r, []int64{1, 15, 59, 60, 600, 3600, 86400})})
		case x < 0.65:
			evs = append(evs, EventIn{Kind: "notReady", Name: pick(r, nodes).Name})
		case x < 0.70:
			evs = append(evs, EventIn{Kind: "ready", Name: pick(r, nodes).Name})
		case x < 0.83:
			evs = append(evs, EventIn{Kind: "queue", Lag: r.Float64() < 0.5})
		case x < 0.87:
			evs = append(evs, EventIn{Kind: "sync"})
		case x < 0.93:
			evs = append(evs, EventIn{Kind: "terminate", Name: pick(r, nodes).Name})
		case x < 0.97:
			evs = append(evs, EventIn{Kind: "remove", Name: pick(r, nodes).Name})
		default:
			evs = append(evs, EventIn{Kind: "rollback"})
		}
	}
	return RoundsIn{Pools: pools, Nodes: nodes, NowNs: now.UnixNano(), Events: evs}
}

func implRounds(raw json.RawMessage) (any, error) {
	var in RoundsIn
	if err := json.Unmarshal(raw, &in); err != nil {
		return nil, err
	}
	now := unixNs(in.NowNs)
	w := NewWorld(now)
	if err := w.Build(in.Pools, in.Nodes); err != nil {
		return nil, err
	}
	// the real controller with the real methods; validators are the real ones, run without the 15 s wait
	none := LaterIn{}
	called := false
	methods := []disruption.Method{
		buildMethod(w, "emptiness", "real", none, &called),
		buildMethod(w, "static", "real", none, &called),
		buildMethod(w, "drift", "real", none, &called),
		buildMethod(w, "multi", "real", none, &called),
		buildMethod(w, "single", "real", none, &called),
	}
	ctrl := disruption.NewController(w.Clk, w.Client, w.Prov, w.CP, w.Rec, w.Cluster, w.Queue, nil, disruption.WithMethods(methods...))
	out := RoundsOut{Rounds: []RoundOut{}, Log: []EventLog{}}
	seen := map[string]bool{}
	var nows []time.Time
	sortedCommands := func() []*disruption.Command {
		cmds := w.Queue.GetCommands()
		sort.Slice(cmds, func(i, j int) bool {
			return strings.Join(candidateNames(*cmds[i]), ",") < strings.Join(candidateNames(*cmds[j]), ",")
		})
		return cmds
	}
	w.cutSynced()
	for _, ev := range in.Events {
		lg := EventLog{Kind: ev.Kind, Round: -1, Cmds: []CmdDone{}}
		switch ev.Kind {
		case "reconcile":
			called = true // never apply "later" mutations in histories
			ro := RoundOut{NowNs: w.Clk.Now().UnixNano(), Nodes: w.snapshot(), Commands: []CmdOut{}}
			nows = append(nows, w.Clk.Now())
			if _, err := ctrl.Reconcile(w.Ctx); err != nil {
				ro.Err = "error"
			}
			for _, c := range sortedCommands() {
				if seen[c.ID.String()] {
					continue
				}
				seen[c.ID.String()] = true
				ro.Commands = append(ro.Commands, CmdOut{Reason: string(c.Reason()), Names: candidateNames(*c)})
			}
			lg.Round = len(out.Rounds)
			out.Rounds = append(out.Rounds, ro)
			if err := w.launchReplacements(); err != nil {
				return nil, err
			}
		case "advance":
			w.Clk.Step(time.Duration(ev.Sec) * time.Second)
		case "notReady", "ready":
			if _, ok := w.PID[ev.Name]; ok {
				if err := w.SetReady(ev.Name, ev.Kind == "ready"); err != nil && !strings.Contains(err.Error(), "not found") {
					return nil, err
				}
			}
		case "queue":
			// the orchestration queue: replacements are initialized, so candidates get deleted. With Lag the NodeClaim
			// informer has not delivered the deletionTimestamps to the cluster state yet.
			for _, c := range sortedCommands() {
				if len(c.Candidates) == 0 {
					continue
				}
				nc := &v1.NodeClaim{}
				nc.Status.ProviderID = c.Candidates[0].ProviderID()
				nc.Name = c.Candidates[0].NodeClaim.Name
				names := candidateNames(*c)
				if _, err := w.Queue.Reconcile(w.Ctx, nc); err != nil {
					return nil, err
				}
				if w.Queue.HasAny(c.Candidates[0].ProviderID()) {
					continue // still waiting (not completed)
				}
				lg.Cmds = append(lg.Cmds, CmdDone{Names: names, Succeeded: c.Succeeded})
				if ev.Lag {
					continue
				}
				for _, n := range names {
					if err := w.Sync(n); err != nil {
						return nil, err
					}
				}
			}
		case "sync":
			// the informers catch up on every node
			names := lo.Keys(w.PID)
			sort.Strings(names)
			for _, n := range names {
				if err := w.Sync(n); err != nil {
					return nil, err
				}
			}
		case "terminate":
			// the instance of a deleting NodeClaim is gone at the provider
			nc := &v1.NodeClaim{}
			if err := w.Client.Get(w.Ctx, types.NamespacedName{Name: w.ncName(ev.Name)}, nc); err == nil && !nc.DeletionTimestamp.IsZero() {
				if err := w.SetTerminating(ev.Name); err != nil {
					return nil, err
				}
			}
		case "remove":
			nc := &v1.NodeClaim{}
			if err := w.Client.Get(w.Ctx, types.NamespacedName{Name: w.ncName(ev.Name)}, nc); err == nil && !nc.DeletionTimestamp.IsZero() {
				if err := w.Remove(ev.Name); err != nil {
					return nil, err
				}
			}
		case "rollback":
			// a command fails (e.g. its replacement never initialises): the queue un-marks its candidates
			if cmds := sortedCommands(); len(cmds) > 0 {
				cmds[0].Succeeded = false
				names := candidateNames(*cmds[0])
				w.Queue.CompleteCommand(cmds[0])
				lg.Cmds = append(lg.Cmds, CmdDone{Names: names, Succeeded: false})
			}
		default:
			return nil, fmt.Errorf("bad event %q", ev.Kind)
		}
		lg.Synced = w.cutSynced()
		out.Log = append(out.Log, lg)
	}
	out.Cron = cronTable(allBudgets(in.Pools), nows...)
	return out, nil
}

func opRounds() *core.Op {
	return &core.Op{
		Name: "c05.rounds",
		Doc:  "histories through the real disruption.Controller.Reconcile (all five real methods, real validators, real orchestration Queue.StartCommand/Reconcile/CompleteCommand) with clock, readiness, termination, rollback and informer-lag events between rounds (the queue deletes NodeClaims in the API; the cluster state learns of it at once, later, or after further rounds)",
		N: func(t core.Tier) int {
			if t == core.Thorough {
				return 3000
			}
			return 200
		},
		Gen:  genRounds,
		Impl: implRounds,
		Rule: "3–12 nodes in 1–2 pools, 5–14 events (quick) / 7–30 (thorough): 47% reconcile, 13% queue (half of them with informer lag), 4% informer sync, clock/readiness/terminate/remove/rollback; 25% of the histories are pipelines reconcile→queue(lag 80%)→reconcile(→sync 40%); non-trivial = a command was accepted in a round that started with at least one node already not ready or marked for deletion",
		Nontrivial: func(_ json.RawMessage, impl any) bool {
			m, ok := impl.(map[string]any)
			if !ok {
				return false
			}
			rs, _ := m["rounds"].([]any)
			for _, r := range rs {
				rm, _ := r.(map[string]any)
				cs, _ := rm["commands"].([]any)
				if len(cs) == 0 {
					continue
				}
				ns, _ := rm["nodes"].([]any)
				for _, n := range ns {
					nm, _ := n.(map[string]any)
					if nm["marked"] == true || nm["ready"] == false {
						return true
					}
				}
			}
			return false
		},
		Labels: func(raw json.RawMessage, impl any) []string {
			var l []string
			m, ok := impl.(map[string]any)
			if !ok {
				return l
			}
			rs, _ := m["rounds"].([]any)
			accepted := 0
			for _, r := range rs {
				rm, _ := r.(map[string]any)
				cs, _ := rm["commands"].([]any)
				for _, c := range cs {
					cm, _ := c.(map[string]any)
					l = append(l, fmt.Sprintf("accepted:%v", cm["reason"]))
					accepted++
				}
			}
			l = append(l, fmt.Sprintf("rounds<=%d", ((len(rs)/5)+1)*5), fmt.Sprintf("acceptances=%d", lo.Min([]int{accepted, 6})))
			var in RoundsIn
			json.Unmarshal(raw, &in)
			for _, e := range in.Events {
				switch {
				case e.Kind == "queue" && e.Lag:
					l = append(l, "event:queue-informer-lag")
				case e.Kind == "queue":
					l = append(l, "event:queue-synced")
				case e.Kind == "sync" || e.Kind == "rollback":
					l = append(l, "event:"+e.Kind)
				}
			}
			// rounds that ran on a cluster state that had not yet seen a deletionTimestamp present in the API
			for _, r := range rs {
				rm, _ := r.(map[string]any)
				ns, _ := rm["nodes"].([]any)
				stale := false
				for _, n := range ns {
					nm, _ := n.(map[string]any)
					if nm["apiDeleting"] == true && nm["stateDeleting"] == false {
						stale = true
					}
				}
				if stale {
					l = append(l, "round:state-lags-api-deletion")
					if cs, _ := rm["commands"].([]any); len(cs) > 0 {
						l = append(l, "round:state-lags-api-deletion+accepted")
					}
				}
			}
			lgs, _ := m["log"].([]any)
			for _, e := range lgs {
				em, _ := e.(map[string]any)
				cs, _ := em["cmds"].([]any)
				for _, c := range cs {
					cm, _ := c.(map[string]any)
					l = append(l, fmt.Sprintf("command-completed:succeeded=%v", cm["succeeded"]))
				}
			}
			return l
		},
		Signature: func(raw json.RawMessage, _ any) string { return "rounds" },
		Shrink: func(raw json.RawMessage) []any {
			var in RoundsIn
			json.Unmarshal(raw, &in)
			var out []any
			for _, e := range core.ShrinkList(in.Events) {
				c := in
				c.Events = e
				out = append(out, c)
			}
			for i, e := range in.Events {
				if e.Kind == "queue" && e.Lag {
					c := in
					c.Events = append([]EventIn{}, in.Events...)
					c.Events[i].Lag = false
					out = append(out, c)
				}
			}
			ps, ns := shrinkCluster(in.Pools, in.Nodes)
			for _, n := range ns {
				c := in
				c.Nodes = n
				out = append(out, c)
			}
			for _, p := range ps {
				c := in
				c.Pools = p
				out = append(out, c)
			}
			return out
		},
	}
}

var _ = metav1.Now
