package c05

// world.go: a small offline "cluster" for the disruption controller: controller-runtime fake client +
// the real state.Cluster + the real provisioner + the real orchestration queue + the fake cloud provider.
// Everything the API server would add and the fake client does not (UIDs, creation timestamps) is
// assigned here, deterministically.

import (
	"context"
	"fmt"
	"sort"
	"time"

	"github.com/awslabs/operatorpkg/status"
	"github.com/go-logr/logr"
	"github.com/samber/lo"
	corev1 "k8s.io/api/core/v1"
	"k8s.io/apimachinery/pkg/api/resource"
	metav1 "k8s.io/apimachinery/pkg/apis/meta/v1"
	"k8s.io/apimachinery/pkg/types"
	"k8s.io/apimachinery/pkg/runtime/serializer"
	"k8s.io/client-go/kubernetes/scheme"
	clienttesting "k8s.io/client-go/testing"
	"k8s.io/klog/v2"
	clocktesting "k8s.io/utils/clock/testing"
	"sigs.k8s.io/controller-runtime/pkg/client"
	fakeclient "sigs.k8s.io/controller-runtime/pkg/client/fake"
	"sigs.k8s.io/controller-runtime/pkg/log"

	_ "sigs.k8s.io/karpenter/pkg/apis"
	v1 "sigs.k8s.io/karpenter/pkg/apis/v1"
	"sigs.k8s.io/karpenter/pkg/cloudprovider/fake"
	"sigs.k8s.io/karpenter/pkg/controllers/disruption"
	"sigs.k8s.io/karpenter/pkg/controllers/provisioning"
	"sigs.k8s.io/karpenter/pkg/controllers/state"
	"sigs.k8s.io/karpenter/pkg/operator/options"
	"sigs.k8s.io/karpenter/pkg/state/virtualpods"
	"sigs.k8s.io/karpenter/pkg/test"
)

// BudgetIn is one v1.Budget in the protocol. Reasons: nil (JSON null / absent) = Go nil slice,
// [] = non-nil empty slice (what decoding `reasons: []` yields), else the listed reasons.
type BudgetIn struct {
	Reasons  *[]string `json:"reasons"`
	Nodes    string    `json:"nodes"`
	Schedule *string   `json:"schedule"`
	// DurationMin: minutes (the CRD pattern only admits hours and minutes); nil = no duration
	DurationMin *int64 `json:"durationMin"`
}

func (b BudgetIn) toV1() v1.Budget {
	out := v1.Budget{Nodes: b.Nodes}
	if b.Reasons != nil {
		out.Reasons = make([]v1.DisruptionReason, 0, len(*b.Reasons))
		for _, r := range *b.Reasons {
			out.Reasons = append(out.Reasons, v1.DisruptionReason(r))
		}
	}
	if b.Schedule != nil {
		out.Schedule = lo.ToPtr(*b.Schedule)
	}
	if b.DurationMin != nil {
		out.Duration = &metav1.Duration{Duration: time.Duration(*b.DurationMin) * time.Minute}
	}
	return out
}

func budgetsToV1(bs []BudgetIn) []v1.Budget {
	out := make([]v1.Budget, 0, len(bs))
	for _, b := range bs {
		out = append(out, b.toV1())
	}
	return out
}

// PoolIn is a NodePool.
type PoolIn struct {
	Name    string     `json:"name"`
	Budgets []BudgetIn `json:"budgets"`
	// Static: spec.replicas set (static pool; only StaticDrift acts on it)
	Static   bool  `json:"static"`
	Replicas int64 `json:"replicas"`
	// NodeLimit: spec.limits.nodes for static pools; <0 = none
	NodeLimit int64 `json:"nodeLimit"`
	// Unmanaged: the NodePool references a node class the cloud provider does not support
	Unmanaged bool `json:"unmanaged"`
}

// NodeIn is one node (+ NodeClaim unless Unmanaged) of the cluster.
type NodeIn struct {
	Name string `json:"name"`
	Pool string `json:"pool"`
	// Unmanaged: a Node without a NodeClaim (not owned by karpenter)
	Unmanaged   bool `json:"unmanaged"`
	Initialized bool `json:"initialized"`
	// Ready: the Node's Ready condition is True; ReadyMissing: the Node has no Ready condition at all
	Ready        bool `json:"ready"`
	ReadyMissing bool `json:"readyMissing"`
	// Terminating: the NodeClaim has condition InstanceTerminating=True
	Terminating bool `json:"terminating"`
	// Deleting: the NodeClaim has a deletionTimestamp
	Deleting bool `json:"deleting"`
	// Marked: cluster.MarkForDeletion was called for it (a command is in flight)
	Marked bool `json:"marked"`
	// Drifted: Drifted=True since DriftedAgoSec seconds before "now"
	Drifted       bool  `json:"drifted"`
	DriftedAgoSec int64 `json:"driftedAgoSec"`
	// Consolidatable condition
	Consolidatable bool `json:"consolidatable"`
	// Pods: number of small reschedulable pods bound to the node (0 = empty)
	Pods int `json:"pods"`
	// DoNotDisrupt annotation on the node
	DoNotDisrupt bool `json:"doNotDisrupt"`
	// Nominated: the node was nominated for a pending pod (blocks candidacy)
	Nominated bool `json:"nominated"`
}

type World struct {
	Ctx     context.Context
	Clk     *clocktesting.FakeClock
	Client  client.Client
	CP      *fake.CloudProvider
	Cluster *state.Cluster
	Prov    *provisioning.Provisioner
	Queue   *disruption.Queue
	Rec     *test.EventRecorder
	uid     int
	pods    int
	repl    int
	// node name -> providerID
	PID map[string]string
	// node name -> NodeClaim name
	NC map[string]string
	// nodes marked for deletion in the initial state (no queue command stands for them)
	InitMarked map[string]bool
	// names whose API objects were pushed into the cluster state since the log was last cut (see cutSynced)
	synced []string
}

// cutSynced returns (sorted, de-duplicated) the node names the "informer" delivered since the last call.
func (w *World) cutSynced() []string {
	out := lo.Uniq(w.synced)
	sort.Strings(out)
	w.synced = nil
	if out == nil {
		out = []string{}
	}
	return out
}

func (w *World) ncName(node string) string {
	if n, ok := w.NC[node]; ok {
		return n
	}
	return "nc-" + node
}

func (w *World) alloc() corev1.ResourceList {
	return corev1.ResourceList{
		corev1.ResourceCPU:    resource.MustParse("4"),
		corev1.ResourceMemory: resource.MustParse("4Gi"),
		corev1.ResourcePods:   resource.MustParse("5"),
	}
}

const instanceType = "default-instance-type"

func init() {
	// intstr.FromInt logs a stack trace through klog for every out-of-range count; keep the harness quiet
	klog.SetLogger(logr.Discard())
}

func NewWorld(now time.Time) *World {
	ctx := options.ToContext(context.Background(), test.Options())
	ctx = log.IntoContext(ctx, log.Log) // a no-op logger unless one was set
	// a plain object tracker: the default field-managed tracker rebuilds a REST mapper on every Create (≈1 ms each)
	tracker := clienttesting.NewObjectTracker(scheme.Scheme, serializer.NewCodecFactory(scheme.Scheme).UniversalDecoder())
	c := fakeclient.NewClientBuilder().WithScheme(scheme.Scheme).WithObjectTracker(tracker).
		WithStatusSubresource(&v1.NodeClaim{}, &v1.NodePool{}).
		WithIndex(&corev1.Pod{}, "spec.nodeName", func(o client.Object) []string { return []string{o.(*corev1.Pod).Spec.NodeName} }).
		WithIndex(&corev1.Node{}, "spec.providerID", func(o client.Object) []string { return []string{o.(*corev1.Node).Spec.ProviderID} }).
		WithIndex(&v1.NodeClaim{}, "status.providerID", func(o client.Object) []string { return []string{o.(*v1.NodeClaim).Status.ProviderID} }).
		Build()
	clk := clocktesting.NewFakeClock(now)
	cp := fake.NewCloudProvider()
	cluster := state.NewCluster(clk, c, cp)
	rec := test.NewEventRecorder()
	prov := provisioning.NewProvisioner(c, rec, cp, cluster, clk, nil, virtualpods.NewVirtualPodCache(c))
	q := disruption.NewQueue(c, rec, cluster, clk, prov)
	return &World{Ctx: ctx, Clk: clk, Client: c, CP: cp, Cluster: cluster, Prov: prov, Queue: q, Rec: rec, PID: map[string]string{}, NC: map[string]string{}, InitMarked: map[string]bool{}}
}

func (w *World) meta(name string, labels, annotations map[string]string) metav1.ObjectMeta {
	w.uid++
	return metav1.ObjectMeta{
		Name:              name,
		UID:               types.UID(fmt.Sprintf("uid-%06d", w.uid)),
		Labels:            labels,
		Annotations:       annotations,
		CreationTimestamp: metav1.NewTime(w.Clk.Now().Add(-time.Hour).Add(time.Duration(w.uid) * time.Second)),
		Generation:        1,
	}
}

func (w *World) AddPool(p PoolIn) (*v1.NodePool, error) {
	np := &v1.NodePool{ObjectMeta: w.meta(p.Name, nil, nil)}
	np.Spec.Template.Spec.NodeClassRef = &v1.NodeClassReference{Group: "karpenter.test.sh", Kind: "TestNodeClass", Name: "default"}
	if p.Unmanaged {
		np.Spec.Template.Spec.NodeClassRef = &v1.NodeClassReference{Group: "other.sh", Kind: "OtherNodeClass", Name: "default"}
	}
	np.Spec.Template.Spec.Requirements = []v1.NodeSelectorRequirementWithMinValues{}
	np.Spec.Disruption.ConsolidateAfter = v1.MustParseNillableDuration("0s")
	np.Spec.Disruption.ConsolidationPolicy = v1.ConsolidationPolicyWhenEmptyOrUnderutilized
	np.Spec.Disruption.Budgets = budgetsToV1(p.Budgets)
	np.Spec.Limits = v1.Limits(corev1.ResourceList{corev1.ResourceCPU: resource.MustParse("100000")})
	if p.Static {
		np.Spec.Replicas = lo.ToPtr(p.Replicas)
		np.Spec.Limits = nil
		if p.NodeLimit >= 0 {
			np.Spec.Limits = v1.Limits(corev1.ResourceList{corev1.ResourceName("nodes"): *resource.NewQuantity(p.NodeLimit, resource.DecimalSI)})
		}
	}
	np.StatusConditions().SetTrue(v1.ConditionTypeValidationSucceeded)
	np.StatusConditions().SetTrue(v1.ConditionTypeNodeClassReady)
	if err := w.Client.Create(w.Ctx, np); err != nil {
		return nil, err
	}
	return np, nil
}

func cond(t string, st metav1.ConditionStatus, at time.Time) status.Condition {
	return status.Condition{Type: t, Status: st, Reason: t, Message: "", LastTransitionTime: metav1.NewTime(at)}
}

// AddNode creates the NodeClaim/Node pair described by n in the API and in the cluster state.
func (w *World) AddNode(n NodeIn) error {
	pid := "fake:///" + n.Name
	w.PID[n.Name] = pid
	labels := map[string]string{
		corev1.LabelInstanceTypeStable: instanceType,
		v1.CapacityTypeLabelKey:        "on-demand",
		corev1.LabelTopologyZone:       "test-zone-1",
		corev1.LabelHostname:           n.Name,
		corev1.LabelArchStable:         "amd64",
		corev1.LabelOSStable:           "linux",
	}
	if !n.Unmanaged {
		labels[v1.NodePoolLabelKey] = n.Pool
		labels["karpenter.test.sh/testnodeclass"] = "default"
	}
	annotations := map[string]string{}
	if n.DoNotDisrupt {
		annotations[v1.DoNotDisruptAnnotationKey] = "true"
	}
	alloc := w.alloc()
	now := w.Clk.Now()
	var nc *v1.NodeClaim
	if !n.Unmanaged {
		nc = &v1.NodeClaim{ObjectMeta: w.meta("nc-"+n.Name, lo.Assign(labels), lo.Assign(annotations))}
		nc.Finalizers = []string{"karpenter.sh/termination"}
		nc.Spec.NodeClassRef = &v1.NodeClassReference{Group: "karpenter.test.sh", Kind: "TestNodeClass", Name: "default"}
		nc.Spec.Requirements = []v1.NodeSelectorRequirementWithMinValues{}
		nc.Status.ProviderID = pid
		nc.Status.NodeName = n.Name
		nc.Status.Capacity = alloc
		nc.Status.Allocatable = alloc
		old := now.Add(-30 * time.Minute)
		conds := []status.Condition{
			cond(v1.ConditionTypeLaunched, metav1.ConditionTrue, old),
			cond(v1.ConditionTypeRegistered, metav1.ConditionTrue, old),
		}
		if n.Initialized {
			conds = append(conds, cond(v1.ConditionTypeInitialized, metav1.ConditionTrue, old))
		}
		if n.Consolidatable {
			conds = append(conds, cond(v1.ConditionTypeConsolidatable, metav1.ConditionTrue, old))
		}
		if n.Drifted {
			conds = append(conds, cond(v1.ConditionTypeDrifted, metav1.ConditionTrue, now.Add(-time.Duration(n.DriftedAgoSec)*time.Second)))
		}
		if n.Terminating {
			conds = append(conds, cond(v1.ConditionTypeInstanceTerminating, metav1.ConditionTrue, now.Add(-time.Minute)))
		}
		nc.Status.Conditions = conds
		if err := w.Client.Create(w.Ctx, nc); err != nil {
			return err
		}
	}
	nodeLabels := lo.Assign(labels)
	if !n.Unmanaged {
		nodeLabels[v1.NodeRegisteredLabelKey] = "true"
		if n.Initialized {
			nodeLabels[v1.NodeInitializedLabelKey] = "true"
		}
	}
	node := &corev1.Node{ObjectMeta: w.meta(n.Name, nodeLabels, lo.Assign(annotations))}
	node.Spec.ProviderID = pid
	node.Status.Allocatable = alloc
	node.Status.Capacity = alloc
	if !n.ReadyMissing {
		node.Status.Conditions = []corev1.NodeCondition{{Type: corev1.NodeReady, Status: lo.Ternary(n.Ready, corev1.ConditionTrue, corev1.ConditionFalse)}}
	}
	if err := w.Client.Create(w.Ctx, node); err != nil {
		return err
	}
	if nc != nil && n.Deleting {
		if err := w.Client.Delete(w.Ctx, nc); err != nil {
			return err
		}
	}
	if err := w.Sync(n.Name); err != nil {
		return err
	}
	for i := 0; i < n.Pods; i++ {
		if err := w.AddPod(n.Name); err != nil {
			return err
		}
	}
	if n.Marked {
		w.Cluster.MarkForDeletion(pid)
		w.InitMarked[n.Name] = true
	}
	if n.Nominated {
		w.Cluster.NominateNodeForPod(w.Ctx, pid)
	}
	return nil
}

// AddPod binds one small running, reschedulable (ReplicaSet-owned) pod to the node.
func (w *World) AddPod(nodeName string) error {
	w.pods++
	p := &corev1.Pod{ObjectMeta: w.meta(fmt.Sprintf("pod-%04d", w.pods), map[string]string{"app": "x"}, nil)}
	p.Namespace = "default"
	p.OwnerReferences = []metav1.OwnerReference{{APIVersion: "apps/v1", Kind: "ReplicaSet", Name: "rs", UID: "rs-uid", Controller: lo.ToPtr(true), BlockOwnerDeletion: lo.ToPtr(true)}}
	p.Spec.NodeName = nodeName
	p.Spec.Containers = []corev1.Container{{Name: "c", Image: "i", Resources: corev1.ResourceRequirements{
		Requests: corev1.ResourceList{corev1.ResourceCPU: resource.MustParse("100m"), corev1.ResourceMemory: resource.MustParse("64Mi")},
	}}}
	p.Status.Phase = corev1.PodRunning
	p.Status.Conditions = []corev1.PodCondition{{Type: corev1.PodReady, Status: corev1.ConditionTrue}}
	if err := w.Client.Create(w.Ctx, p); err != nil {
		return err
	}
	return w.Cluster.UpdatePod(w.Ctx, p)
}

// Sync pushes the API objects of one node into the cluster state (what the informer controllers do).
func (w *World) Sync(name string) error {
	w.synced = append(w.synced, name)
	nc := &v1.NodeClaim{}
	if err := w.Client.Get(w.Ctx, types.NamespacedName{Name: w.ncName(name)}, nc); err == nil {
		w.Cluster.UpdateNodeClaim(nc)
	} else if client.IgnoreNotFound(err) != nil {
		return err
	} else {
		w.Cluster.DeleteNodeClaim(w.ncName(name))
	}
	node := &corev1.Node{}
	if err := w.Client.Get(w.Ctx, types.NamespacedName{Name: name}, node); err == nil {
		if err := w.Cluster.UpdateNode(w.Ctx, node); err != nil {
			return err
		}
	} else if client.IgnoreNotFound(err) != nil {
		return err
	} else {
		w.Cluster.DeleteNode(name)
	}
	return nil
}

// SetReady flips the Ready condition of a node.
func (w *World) SetReady(name string, ready bool) error {
	node := &corev1.Node{}
	if err := w.Client.Get(w.Ctx, types.NamespacedName{Name: name}, node); err != nil {
		return err
	}
	node.Status.Conditions = []corev1.NodeCondition{{Type: corev1.NodeReady, Status: lo.Ternary(ready, corev1.ConditionTrue, corev1.ConditionFalse)}}
	if err := w.Client.Status().Update(w.Ctx, node); err != nil {
		return err
	}
	return w.Sync(name)
}

// SetTerminating sets InstanceTerminating=True on the NodeClaim (the instance is gone at the provider).
func (w *World) SetTerminating(name string) error {
	nc := &v1.NodeClaim{}
	if err := w.Client.Get(w.Ctx, types.NamespacedName{Name: w.ncName(name)}, nc); err != nil {
		return err
	}
	nc.StatusConditions().SetTrue(v1.ConditionTypeInstanceTerminating)
	if err := w.Client.Status().Update(w.Ctx, nc); err != nil {
		return err
	}
	return w.Sync(name)
}

// Remove deletes the NodeClaim and Node for good (finalizers dropped) and tells the cluster state.
func (w *World) Remove(name string) error {
	nc := &v1.NodeClaim{}
	if err := w.Client.Get(w.Ctx, types.NamespacedName{Name: w.ncName(name)}, nc); err == nil {
		if len(nc.Finalizers) > 0 {
			nc.Finalizers = nil
			if err := w.Client.Update(w.Ctx, nc); err != nil {
				return err
			}
		}
		_ = client.IgnoreNotFound(w.Client.Delete(w.Ctx, nc))
	}
	node := &corev1.Node{}
	if err := w.Client.Get(w.Ctx, types.NamespacedName{Name: name}, node); err == nil {
		_ = client.IgnoreNotFound(w.Client.Delete(w.Ctx, node))
	}
	return w.Sync(name)
}

func (w *World) Build(pools []PoolIn, nodes []NodeIn) error {
	for _, p := range pools {
		if _, err := w.AddPool(p); err != nil {
			return err
		}
	}
	for _, n := range nodes {
		if err := w.AddNode(n); err != nil {
			return err
		}
	}
	w.Cluster.SetSynced(true)
	return nil
}

// Names of the candidates of a command, sorted.
func candidateNames(cmd disruption.Command) []string {
	out := lo.Map(cmd.Candidates, func(c *disruption.Candidate, _ int) string { return c.Name() })
	sort.Strings(out)
	return out
}
