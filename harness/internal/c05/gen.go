package c05

// gen.go: structured generators for budgets (schedules from a cron grammar, durations, nodes values, reasons),
// instants placed at / just before / just after window edges, and clusters.

import (
	"fmt"
	"math/rand/v2"
	"strings"
	"time"

	"github.com/robfig/cron/v3"
)

var descriptors = []string{"@yearly", "@annually", "@monthly", "@weekly", "@daily", "@midnight", "@hourly"}

var minuteFields = []string{"0", "0", "30", "15", "59", "*/15", "*/5", "*/20", "0,30", "15-45", "*", "7,22,37,52", "10-50/10", "5/20"}
var hourFields = []string{"*", "*", "0", "9", "12", "23", "0-6", "*/6", "9-17", "22,23,0", "*/2", "8-18/2"}
var domFields = []string{"*", "*", "*", "1", "15", "1,15", "*/2", "28-31", "31", "29", "?", "1-7"}
var monthFields = []string{"*", "*", "*", "1", "*/3", "jan", "6-8", "2", "DEC", "mar-may", "1,7"}
var dowFields = []string{"*", "*", "*", "0", "1-5", "6,0", "mon", "MON-FRI", "*/2", "sat", "?", "3"}

var malformedSchedules = []string{
	"61 * * * *", "* * * *", "* * * * * *", "abc", "", "0 24 * * *", "0 0 0 * *", "0 0 * 13 *", "0 0 * * 7",
	"@hourlyfoo", "*/0 * * * *", "5-1 * * * *", "@every 1h 2 3 4", "a b c d e", "0 0 * * mon-", "1-2-3 * * * *",
	"0 0 32 * *", "TZ=Asia/Tokyo 0 0 * * *", "0/ * * * *", "* * * * x",
}

func pick[T any](r *rand.Rand, xs []T) T { return xs[r.IntN(len(xs))] }

// schedules that parse but never fire: robfig/cron answers the zero time after its five-year search
var neverSchedules = []string{"0 0 30 2 *", "0 0 31 4,6,9,11 *", "30 12 31 feb *"}

func genSchedule(r *rand.Rand) string {
	x := r.Float64()
	switch {
	case x < 0.02:
		return pick(r, neverSchedules)
	case x < 0.15:
		return pick(r, descriptors)
	case x < 0.45:
		// common shapes: a daily / weekday window start
		return fmt.Sprintf("%s %s * * %s", pick(r, []string{"0", "30", "15"}), pick(r, []string{"0", "9", "12", "18", "22"}), pick(r, []string{"*", "1-5", "6,0", "*"}))
	default:
		sep := " "
		if r.Float64() < 0.05 {
			sep = pick(r, []string{"  ", "\t"})
		}
		return strings.Join([]string{pick(r, minuteFields), pick(r, hourFields), pick(r, domFields), pick(r, monthFields), pick(r, dowFields)}, sep)
	}
}

var durationsMin = []int64{1, 2, 5, 10, 15, 20, 30, 45, 59, 60, 61, 90, 120, 180, 240, 480, 600, 720, 1439, 1440, 1441, 2880}

func genDuration(r *rand.Rand) int64 {
	if r.Float64() < 0.08 {
		return 1 + r.Int64N(3000)
	}
	return pick(r, durationsMin)
}

var nodesCommon = []string{"0", "1", "2", "3", "5", "10", "100", "0%", "1%", "5%", "10%", "20%", "25%", "33%", "50%", "75%", "99%", "100%"}
var nodesBig = []string{"2147483647", "2147483648", "4294967297", "4294967296", "9223372036854775807", "9223372036854775808", "99999999999999999999", "007", "00%", "010%"}
var nodesMalformed = []string{"abc", "", "%", "5%%", "1.5", "10 %", "ten", "1e3", "0x10", "1_0", "５"}

// outside the CRD admission pattern but accepted by the code; judged by the model only
var nodesInadmissible = []string{"+5", "-5", "-4294967295", "+5%", "-5%", "-0", "150%", "101%", "-1"}

func genNodesValue(r *rand.Rand) string {
	x := r.Float64()
	switch {
	case x < 0.55:
		return pick(r, nodesCommon)
	case x < 0.70:
		return fmt.Sprintf("%d", r.IntN(25))
	case x < 0.85:
		return fmt.Sprintf("%d%%", r.IntN(101))
	case x < 0.91:
		return pick(r, nodesBig)
	case x < 0.96:
		return pick(r, nodesMalformed)
	default:
		return pick(r, nodesInadmissible)
	}
}

var allReasons = []string{"Underutilized", "Empty", "Drifted"}

func genReasons(r *rand.Rand, allowEmptyNonNil bool) *[]string {
	x := r.Float64()
	switch {
	case x < 0.5:
		return nil
	case x < 0.75:
		return &[]string{pick(r, allReasons)}
	case x < 0.88:
		a := r.IntN(3)
		return &[]string{allReasons[a], allReasons[(a+1+r.IntN(2))%3]}
	case x < 0.93:
		return &[]string{"Underutilized", "Empty", "Drifted"}
	case x < 0.96:
		return &[]string{"Other"}
	default:
		if allowEmptyNonNil {
			return &[]string{}
		}
		return nil
	}
}

// genBudget draws one budget. wellFormed restricts to admissible, readable budgets.
func genBudget(r *rand.Rand, wellFormed bool, allowEmptyNonNil bool) BudgetIn {
	b := BudgetIn{Reasons: genReasons(r, allowEmptyNonNil), Nodes: genNodesValue(r)}
	if wellFormed {
		for b.Nodes == "" || strings.ContainsAny(b.Nodes, "+-abcdefghijklmnopqrstuvwxyz._ ５") || strings.HasSuffix(b.Nodes, "%%") || b.Nodes == "%" {
			b.Nodes = pick(r, nodesCommon)
		}
	}
	x := r.Float64()
	switch {
	case x < 0.35:
		// always active
	case x < 0.90 || wellFormed:
		s := genSchedule(r)
		d := genDuration(r)
		b.Schedule, b.DurationMin = &s, &d
	case x < 0.95:
		s := pick(r, malformedSchedules)
		d := genDuration(r)
		b.Schedule, b.DurationMin = &s, &d
	case x < 0.975:
		// schedule without duration (forbidden by the CEL rule)
		s := genSchedule(r)
		b.Schedule = &s
	default:
		// duration without schedule
		d := genDuration(r)
		b.DurationMin = &d
	}
	return b
}

var baseFrom = time.Date(2024, 1, 1, 0, 0, 0, 0, time.UTC)

const baseSpanSec = 7 * 365 * 24 * 3600

// genInstant places "now" relative to the window edges of one of the budgets (using the real cron library only to
// aim; the verdicts never depend on it).
func genInstant(r *rand.Rand, bs []BudgetIn) time.Time {
	base := baseFrom.Add(time.Duration(r.Int64N(baseSpanSec)) * time.Second)
	var scheduled []BudgetIn
	for _, b := range bs {
		if b.Schedule != nil {
			scheduled = append(scheduled, b)
		}
	}
	if len(scheduled) == 0 || r.Float64() < 0.12 {
		return base.Add(time.Duration(r.Int64N(1e9)))
	}
	b := pick(r, scheduled)
	sch, err := cron.ParseStandard("TZ=UTC " + *b.Schedule)
	if err != nil {
		return base
	}
	h := sch.Next(base)
	if h.IsZero() {
		return base
	}
	d := time.Duration(0)
	if b.DurationMin != nil {
		d = time.Duration(*b.DurationMin) * time.Minute
	}
	switch r.IntN(12) {
	case 0:
		return h
	case 1:
		return h.Add(-time.Nanosecond)
	case 2:
		return h.Add(time.Nanosecond)
	case 3:
		return h.Add(d)
	case 4:
		return h.Add(d - time.Nanosecond)
	case 5:
		return h.Add(d + time.Nanosecond)
	case 6:
		return h.Add(-time.Second)
	case 7:
		return h.Add(d - time.Second)
	case 8, 9:
		if d > 0 {
			return h.Add(time.Duration(r.Int64N(int64(d))))
		}
		return h
	case 10:
		return h.Add(d + time.Duration(r.Int64N(int64(time.Hour))))
	default:
		return h.Add(-time.Duration(r.Int64N(int64(time.Hour))))
	}
}

var totals = []int{0, 1, 2, 3, 4, 5, 7, 9, 10, 11, 19, 20, 21, 33, 50, 99, 100, 101, 199, 1000, 1001}

func genTotal(r *rand.Rand) int {
	x := r.Float64()
	switch {
	case x < 0.5:
		return pick(r, totals)
	case x < 0.95:
		return r.IntN(40)
	default:
		return r.IntN(2000000)
	}
}

// nearEdge tells whether now is within one minute of a window edge of some scheduled budget.
func nearEdge(bs []BudgetIn, now time.Time) bool {
	for _, b := range bs {
		if b.Schedule == nil {
			continue
		}
		sch, err := cron.ParseStandard("TZ=UTC " + *b.Schedule)
		if err != nil {
			continue
		}
		d := time.Duration(0)
		if b.DurationMin != nil {
			d = time.Duration(*b.DurationMin) * time.Minute
		}
		for _, t := range []time.Time{now.Add(-time.Minute - time.Nanosecond), now.Add(-d - time.Minute - time.Nanosecond)} {
			h := sch.Next(t)
			if !h.IsZero() && !h.After(t.Add(2*time.Minute+2*time.Nanosecond)) {
				return true
			}
		}
	}
	return false
}
