// Package c01: simulated placements are feasible — whole scheduling passes of the real provisioner judged by
// the Kubernetes admissibility specification (Lean), plus component correspondences.
package c01

import (
	"encoding/json"
	"fmt"
	"math/rand/v2"

	"verifharness/internal/core"
	"verifharness/internal/registry"
	"verifharness/internal/world"
)

func init() { registry.Register("C01", Ops) }

func implPass(raw json.RawMessage) (any, error) {
	var s world.Scenario
	if err := json.Unmarshal(raw, &s); err != nil {
		return nil, err
	}
	w, err := world.Build(&s)
	if err != nil {
		return nil, err
	}
	res, err := w.Schedule()
	if err != nil {
		return world.Outcome{Err: errClass(err), Faults: w.FiredFaults(), ErrorLogs: w.ErrorLogs()}, nil
	}
	out := world.Extract(res)
	out.Faults, out.ErrorLogs = w.FiredFaults(), w.ErrorLogs()
	return out, nil
}

var passOpts = world.GenOpts{CapOverride: 0.3, MultiTaint: 0.3, InterPod: 0.15, NodeAffinity: 0.45, Existing: 0.7, Limits: 0.2,
	Volumes: 0.3, Namespaces: 0.1, LabelInterplay: 0.2, DefaultSpread: 0.05, ListFaults: 0.03, GetFaults: 0.3, ZoneHoles: 0.02, TaintValues: 0.02, ZonelessUnmanaged: 0.5, DaemonLimitsOnly: 0.3}

func errClass(err error) string { return err.Error() }

// genExistingSeq: one or two nodes (any lifecycle stage, possibly unmanaged), and a BATCH of two to five small pods without
// inter-pod constraints; every NodePool has a CPU limit of 0 so that no new capacity can be opened: every pod is evaluated
// against the same ExistingNodes one after the other, in queue order.  Most batches are about one custom node label key that
// the node carries or lacks (In / NotIn / Exists / DoesNotExist / node selector): what one pod's evaluation leaves behind on
// the node must not change the verdict for the next pod.  Some batches mount zonal volumes.
func genExistingSeq(r *rand.Rand, t core.Tier) any {
	o := world.GenOpts{MultiTaint: 0.2, InterPod: 0, NodeAffinity: 0.5, Existing: 1.0}
	its := world.GenITs(r, o)
	pools := world.GenPools(r, its, o)
	zero := int64(0)
	for i := range pools {
		pools[i].LimitCPU = &zero
	}
	nodes := world.GenNodes(r, its, pools, o)
	if len(nodes) > 2 {
		nodes = nodes[:2]
	}
	for i := range nodes {
		nodes[i].Deleting = false
		for j := range nodes[i].Pods {
			nodes[i].Pods[j].Affinity, nodes[i].Pods[j].Spreads = nil, nil
		}
		// unmanaged nodes and a custom label of their own
		if r.Float64() < 0.25 {
			nodes[i].Labels["tier"] = world.GenCustomValue(r, "tier")
		}
	}
	s := &world.Scenario{ITs: its, Pools: pools, Nodes: nodes, DaemonSets: world.GenDaemonSets(r, its), IgnorePrefs: r.Float64() < 0.25, Parallelism: 1}
	n := 2 + r.IntN(4)
	focus := r.Float64() < 0.75
	key := world.GenCustomKey(r)
	for i := 0; i < n; i++ {
		p := world.GenPod(r, fmt.Sprintf("pod-%d", i), its, pools, o)
		if focus {
			world.ApplyLabelInterplay(r, &p, key)
		} else if r.Float64() < 0.5 {
			p.CPU = int64(100 * (1 + r.IntN(8)))
		}
		world.FixExprs(&p)
		s.Pods = append(s.Pods, p)
	}
	if r.Float64() < 0.15 {
		world.DecorateVolumes(r, s)
	}
	if s.DaemonSets == nil {
		s.DaemonSets = []world.DaemonSet{}
	}
	return s
}

// genExisting: one node (any lifecycle stage, possibly unmanaged or deleting) with bound pods, daemonsets, and ONE pending
// pod without inter-pod constraints; every NodePool has a CPU limit of 0 so that no new capacity can be opened.
func genExisting(r *rand.Rand, t core.Tier) any {
	o := world.GenOpts{MultiTaint: 0.35, InterPod: 0, NodeAffinity: 0.6, Existing: 1.0}
	its := world.GenITs(r, o)
	pools := world.GenPools(r, its, o)
	zero := int64(0)
	for i := range pools {
		pools[i].LimitCPU = &zero
	}
	nodes := world.GenNodes(r, its, pools, o)
	nodes = nodes[:1]
	for i := range nodes[0].Pods {
		nodes[0].Pods[i].Affinity, nodes[0].Pods[i].Spreads = nil, nil
	}
	s := &world.Scenario{ITs: its, Pools: pools, Nodes: nodes, DaemonSets: world.GenDaemonSets(r, its), IgnorePrefs: r.Float64() < 0.25, Parallelism: 1}
	p := world.GenPod(r, "pod-0", its, pools, o)
	// bias the pod towards the node: often pick constraints from the node's own labels
	if r.Float64() < 0.5 {
		p.NodeSelector = nil
	}
	if r.Float64() < 0.3 {
		p.NodeSelector = map[string]string{"topology.kubernetes.io/zone": nodes[0].Zone}
	}
	if r.Float64() < 0.4 {
		p.CPU = int64(100 * (1 + r.IntN(8)))
	}
	world.FixExprs(&p)
	s.Pods = []world.Pod{p}
	if s.DaemonSets == nil {
		s.DaemonSets = []world.DaemonSet{}
	}
	return s
}

// vocabularyLabels: which of the optional circumstances a scenario holds (input distribution evidence).
func vocabularyLabels(s *world.Scenario, m map[string]any) []string {
	var l []string
	placed := map[string]bool{}
	for _, k := range []string{"existing", "claims"} {
		if e, ok := m[k].([]any); ok {
			for _, x := range e {
				if ps, ok := x.(map[string]any)["pods"].([]any); ok {
					for _, p := range ps {
						placed[p.(string)] = true
					}
				}
			}
		}
	}
	if len(s.PVCs) > 0 {
		l = append(l, "volumes")
		multi, placedVol := false, false
		for _, p := range s.Pods {
			if len(p.Volumes) > 1 {
				multi = true
			}
			if len(p.Volumes) > 0 && placed[p.Name] {
				placedVol = true
			}
		}
		if multi {
			l = append(l, "volumes-several-per-pod")
		}
		if placedVol {
			l = append(l, "volumes-pod-placed")
		}
	}
	if len(s.Namespaces) > 0 {
		l = append(l, "several-namespaces")
	}
	custom := map[string]int{}
	for _, p := range s.Pods {
		seen := map[string]bool{}
		for k := range p.NodeSelector {
			if k == "team" || k == "tier" {
				seen[k] = true
			}
		}
		for _, t := range p.Required {
			for _, e := range t {
				if e.Key == "team" || e.Key == "tier" {
					seen[e.Key] = true
				}
			}
		}
		for k := range seen {
			custom[k]++
		}
	}
	for _, c := range custom {
		if c >= 2 {
			l = append(l, "custom-label-constrained-by-several-pods")
			break
		}
	}
	return l
}

func Ops() []*core.Op {
	return []*core.Op{
		{
			Name: "c01.existing",
			Doc:  "ExistingNode.CanAdd + relaxation loop through the real scheduler: one node (claim / unregistered / registered / initialized / unmanaged / deleting, with bound pods and daemonsets), one pod, no new capacity possible; model = tryExisting over viewNode, spec = admissibility of the real placement",
			N:    func(t core.Tier) int { return map[core.Tier]int{core.Quick: 1500, core.Thorough: 30000}[t] },
			Gen:  genExisting,
			Impl: implPass,
			Rule: "non-trivial = the pod was placed on the node",
			Nontrivial: func(raw json.RawMessage, impl any) bool {
				m, _ := impl.(map[string]any)
				e, _ := m["existing"].([]any)
				return len(e) > 0
			},
			Labels: func(raw json.RawMessage, impl any) []string {
				var s world.Scenario
				json.Unmarshal(raw, &s)
				m, _ := impl.(map[string]any)
				e, _ := m["existing"].([]any)
				l := []string{fmt.Sprintf("placed=%v", len(e) > 0)}
				if len(s.Nodes) > 0 {
					l = append(l, "stage="+s.Nodes[0].Stage, fmt.Sprintf("managed=%v", s.Nodes[0].Pool != ""), fmt.Sprintf("deleting=%v", s.Nodes[0].Deleting))
				}
				return l
			},
			Signature: func(raw json.RawMessage, impl any) string { return "existing" },
		},
		{
			Name: "c01.pass",
			Doc:  "whole real Provisioner.Schedule passes on generated clusters (catalogs, NodePools, existing/in-flight/deleting/unmanaged nodes with bound pods, daemonsets, pending pods with selectors/affinity/preferences/tolerations/host ports); every placement judged by the Kubernetes admissibility spec",
			N:    func(t core.Tier) int { return map[core.Tier]int{core.Quick: 600, core.Thorough: 8000}[t] },
			Gen:  func(r *rand.Rand, t core.Tier) any { return world.GenScenario(r, passOpts) },
			Impl: implPass,
			Rule: "non-trivial = at least one pod was placed (on an existing node or a new NodeClaim)",
			Nontrivial: func(raw json.RawMessage, impl any) bool {
				m, _ := impl.(map[string]any)
				e, _ := m["existing"].([]any)
				c, _ := m["claims"].([]any)
				return len(e)+len(c) > 0
			},
			Labels: func(raw json.RawMessage, impl any) []string {
				m, _ := impl.(map[string]any)
				e, _ := m["existing"].([]any)
				c, _ := m["claims"].([]any)
				er, _ := m["errors"].(map[string]any)
				l := []string{fmt.Sprintf("existing-placements=%d", min(len(e), 3)), fmt.Sprintf("new-claims=%d", min(len(c), 4)), fmt.Sprintf("errors=%d", min(len(er), 3))}
				if s, _ := m["err"].(string); s != "" {
					l = append(l, "schedule-error")
				}
				var s world.Scenario
				json.Unmarshal(raw, &s)
				l = append(l, vocabularyLabels(&s, m)...)
				return l
			},
			Signature: func(raw json.RawMessage, impl any) string { return "pass" },
		},
		{
			Name: "c01.existingseq",
			Doc:  "a batch of two to five pods evaluated one after the other against the same one or two ExistingNodes through the real scheduler (no new capacity possible): pods that constrain one custom node label in different ways (In / NotIn / Exists / DoesNotExist), zonal volumes; spec = admissibility of every placement the real scheduler made",
			N:    func(t core.Tier) int { return map[core.Tier]int{core.Quick: 1500, core.Thorough: 30000}[t] },
			Gen:  genExistingSeq,
			Impl: implPass,
			Rule: "non-trivial = at least one pod was placed on a node",
			Nontrivial: func(raw json.RawMessage, impl any) bool {
				m, _ := impl.(map[string]any)
				e, _ := m["existing"].([]any)
				return len(e) > 0
			},
			Labels: func(raw json.RawMessage, impl any) []string {
				m, _ := impl.(map[string]any)
				placed := 0
				if e, ok := m["existing"].([]any); ok {
					for _, x := range e {
						if ps, ok := x.(map[string]any)["pods"].([]any); ok {
							placed += len(ps)
						}
					}
				}
				er, _ := m["errors"].(map[string]any)
				return []string{fmt.Sprintf("placed=%d", min(placed, 4)), fmt.Sprintf("rejected=%d", min(len(er), 4))}
			},
			Signature: func(raw json.RawMessage, impl any) string { return "existingseq" },
		},
		filterOp(),
	}
}
