// Package c01: correspondence ops for C01 (stub, not yet built).
package c01

import (
	"verifharness/internal/core"
	"verifharness/internal/registry"
)

func init() { registry.Register("C01", Ops) }

func Ops() []*core.Op { return nil }
