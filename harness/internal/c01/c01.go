// Package c01: simulated placements are feasible — whole scheduling passes of the real provisioner judged by
// the Kubernetes admissibility specification (Lean), plus component correspondences.
package c01

import (
	"encoding/json"
	"fmt"
	"math/rand/v2"

	"verifharness/internal/core"
	"verifharness/internal/registry"
	"verifharness/internal/world"
)

func init() { registry.Register("C01", Ops) }

func implPass(raw json.RawMessage) (any, error) {
	var s world.Scenario
	if err := json.Unmarshal(raw, &s); err != nil {
		return nil, err
	}
	w, err := world.Build(&s)
	if err != nil {
		return nil, err
	}
	res, err := w.Schedule()
	if err != nil {
		return world.Outcome{Err: err.Error()}, nil
	}
	return world.Extract(res), nil
}

var passOpts = world.GenOpts{CapOverride: 0.3, MultiTaint: 0.3, InterPod: 0.15, NodeAffinity: 0.45, Existing: 0.7, Limits: 0.2}

// genExisting: one node (any lifecycle stage, possibly unmanaged or deleting) with bound pods, daemonsets, and ONE pending
// pod without inter-pod constraints; every NodePool has a CPU limit of 0 so that no new capacity can be opened.
func genExisting(r *rand.Rand, t core.Tier) any {
	o := world.GenOpts{MultiTaint: 0.35, InterPod: 0, NodeAffinity: 0.6, Existing: 1.0}
	its := world.GenITs(r, o)
	pools := world.GenPools(r, its, o)
	zero := int64(0)
	for i := range pools {
		pools[i].LimitCPU = &zero
	}
	nodes := world.GenNodes(r, its, pools, o)
	nodes = nodes[:1]
	for i := range nodes[0].Pods {
		nodes[0].Pods[i].Affinity, nodes[0].Pods[i].Spreads = nil, nil
	}
	s := &world.Scenario{ITs: its, Pools: pools, Nodes: nodes, DaemonSets: world.GenDaemonSets(r, its), IgnorePrefs: r.Float64() < 0.25, Parallelism: 1}
	p := world.GenPod(r, "pod-0", its, pools, o)
	// bias the pod towards the node: often pick constraints from the node's own labels
	if r.Float64() < 0.5 {
		p.NodeSelector = nil
	}
	if r.Float64() < 0.3 {
		p.NodeSelector = map[string]string{"topology.kubernetes.io/zone": nodes[0].Zone}
	}
	if r.Float64() < 0.4 {
		p.CPU = int64(100 * (1 + r.IntN(8)))
	}
	world.FixExprs(&p)
	s.Pods = []world.Pod{p}
	if s.DaemonSets == nil {
		s.DaemonSets = []world.DaemonSet{}
	}
	return s
}

func Ops() []*core.Op {
	return []*core.Op{
		{
			Name: "c01.existing",
			Doc:  "ExistingNode.CanAdd + relaxation loop through the real scheduler: one node (claim / unregistered / registered / initialized / unmanaged / deleting, with bound pods and daemonsets), one pod, no new capacity possible; model = tryExisting over viewNode, spec = admissibility of the real placement",
			N:    func(t core.Tier) int { return map[core.Tier]int{core.Quick: 1500, core.Thorough: 30000}[t] },
			Gen:  genExisting,
			Impl: implPass,
			Rule: "non-trivial = the pod was placed on the node",
			Nontrivial: func(raw json.RawMessage, impl any) bool {
				m, _ := impl.(map[string]any)
				e, _ := m["existing"].([]any)
				return len(e) > 0
			},
			Labels: func(raw json.RawMessage, impl any) []string {
				var s world.Scenario
				json.Unmarshal(raw, &s)
				m, _ := impl.(map[string]any)
				e, _ := m["existing"].([]any)
				l := []string{fmt.Sprintf("placed=%v", len(e) > 0)}
				if len(s.Nodes) > 0 {
					l = append(l, "stage="+s.Nodes[0].Stage, fmt.Sprintf("managed=%v", s.Nodes[0].Pool != ""), fmt.Sprintf("deleting=%v", s.Nodes[0].Deleting))
				}
				return l
			},
			Signature: func(raw json.RawMessage, impl any) string { return "existing" },
		},
		{
			Name: "c01.pass",
			Doc:  "whole real Provisioner.Schedule passes on generated clusters (catalogs, NodePools, existing/in-flight/deleting/unmanaged nodes with bound pods, daemonsets, pending pods with selectors/affinity/preferences/tolerations/host ports); every placement judged by the Kubernetes admissibility spec",
			N:    func(t core.Tier) int { return map[core.Tier]int{core.Quick: 400, core.Thorough: 8000}[t] },
			Gen:  func(r *rand.Rand, t core.Tier) any { return world.GenScenario(r, passOpts) },
			Impl: implPass,
			Rule: "non-trivial = at least one pod was placed (on an existing node or a new NodeClaim)",
			Nontrivial: func(raw json.RawMessage, impl any) bool {
				m, _ := impl.(map[string]any)
				e, _ := m["existing"].([]any)
				c, _ := m["claims"].([]any)
				return len(e)+len(c) > 0
			},
			Labels: func(raw json.RawMessage, impl any) []string {
				m, _ := impl.(map[string]any)
				e, _ := m["existing"].([]any)
				c, _ := m["claims"].([]any)
				er, _ := m["errors"].(map[string]any)
				l := []string{fmt.Sprintf("existing-placements=%d", min(len(e), 3)), fmt.Sprintf("new-claims=%d", min(len(c), 4)), fmt.Sprintf("errors=%d", min(len(er), 3))}
				if s, _ := m["err"].(string); s != "" {
					l = append(l, "schedule-error")
				}
				return l
			},
			Signature: func(raw json.RawMessage, impl any) string { return "pass" },
		},
		filterOp(),
	}
}
