// Package c01: simulated placements are feasible — whole scheduling passes of the real provisioner judged by
// the Kubernetes admissibility specification (Lean), plus component correspondences.
package c01

import (
	"encoding/json"
	"fmt"
	"math/rand/v2"

	"verifharness/internal/core"
	"verifharness/internal/registry"
	"verifharness/internal/world"
)

func init() { registry.Register("C01", Ops) }

func implPass(raw json.RawMessage) (any, error) {
	var s world.Scenario
	if err := json.Unmarshal(raw, &s); err != nil {
		return nil, err
	}
	w, err := world.Build(&s)
	if err != nil {
		return nil, err
	}
	res, err := w.Schedule()
	if err != nil {
		return world.Outcome{Err: err.Error()}, nil
	}
	return world.Extract(res), nil
}

var passOpts = world.GenOpts{InterPod: 0.15, NodeAffinity: 0.45, Existing: 0.7, Limits: 0.2}

func Ops() []*core.Op {
	return []*core.Op{
		{
			Name: "c01.pass",
			Doc:  "whole real Provisioner.Schedule passes on generated clusters (catalogs, NodePools, existing/in-flight/deleting/unmanaged nodes with bound pods, daemonsets, pending pods with selectors/affinity/preferences/tolerations/host ports); every placement judged by the Kubernetes admissibility spec",
			N:    func(t core.Tier) int { return map[core.Tier]int{core.Quick: 400, core.Thorough: 8000}[t] },
			Gen:  func(r *rand.Rand, t core.Tier) any { return world.GenScenario(r, passOpts) },
			Impl: implPass,
			Rule: "non-trivial = at least one pod was placed (on an existing node or a new NodeClaim)",
			Nontrivial: func(raw json.RawMessage, impl any) bool {
				m, _ := impl.(map[string]any)
				e, _ := m["existing"].([]any)
				c, _ := m["claims"].([]any)
				return len(e)+len(c) > 0
			},
			Labels: func(raw json.RawMessage, impl any) []string {
				m, _ := impl.(map[string]any)
				e, _ := m["existing"].([]any)
				c, _ := m["claims"].([]any)
				er, _ := m["errors"].(map[string]any)
				l := []string{fmt.Sprintf("existing-placements=%d", min(len(e), 3)), fmt.Sprintf("new-claims=%d", min(len(c), 4)), fmt.Sprintf("errors=%d", min(len(er), 3))}
				if s, _ := m["err"].(string); s != "" {
					l = append(l, "schedule-error")
				}
				return l
			},
			Signature: func(raw json.RawMessage, impl any) string { return "pass" },
		},
	}
}
