package c01

// c01.filter — the real filterInstanceTypesByRequirements / fits / compatible (through the verif hook
// VerifFilterInstanceTypes / VerifFits / VerifCompatible) against the Lean model `filterResult` over instance types whose
// offerings are split into allocatable groups by CapacityOverride / OverheadOverride, and against the independent
// feasibility specification (Karp/Spec/FilterSpec.lean) evaluated on the instance types the real function kept.

import (
	"encoding/json"
	"fmt"
	"math/rand/v2"
	"sort"
	"strconv"

	corev1 "k8s.io/api/core/v1"
	"k8s.io/apimachinery/pkg/api/resource"
	metav1 "k8s.io/apimachinery/pkg/apis/meta/v1"

	"sigs.k8s.io/karpenter/pkg/cloudprovider"
	provsched "sigs.k8s.io/karpenter/pkg/controllers/provisioning/scheduling"
	"sigs.k8s.io/karpenter/pkg/scheduling"
	"sigs.k8s.io/karpenter/pkg/utils/resources"

	"verifharness/internal/core"
	rg "verifharness/internal/reqgen"
	"verifharness/internal/world"
)

// ---------- input ----------

// Res is one resource quantity: cpu in milli-cores, memory in Mi, every other resource a plain count.
type Res struct {
	Name string `json:"name"`
	Q    int64  `json:"q"`
}

type KeyExprs struct {
	Key   string    `json:"key"`
	Exprs []rg.Expr `json:"exprs"`
}

type FOffering struct {
	Reqs        []KeyExprs `json:"reqs"`
	Available   bool       `json:"available"`
	CapOverride []Res      `json:"capOverride"` // empty = no CapacityOverride
	OvhOverride *[]Res     `json:"ovhOverride"` // nil = no OverheadOverride; non-nil (possibly empty) = its Total()
}

type FIT struct {
	Name      string      `json:"name"`
	Reqs      []KeyExprs  `json:"reqs"`
	Capacity  []Res       `json:"capacity"`
	Overhead  []Res       `json:"overhead"`
	Offerings []FOffering `json:"offerings"`
}

type FUsage struct {
	Owner string           `json:"owner"`
	Ports []world.HostPort `json:"ports"`
}

type FGroup struct {
	ITs      []string `json:"its"`
	Overhead []Res    `json:"overhead"`
	Usage    []FUsage `json:"usage"`
}

type FPod struct {
	Name  string           `json:"name"`
	Ports []world.HostPort `json:"ports"`
}

type FilterIn struct {
	ITs         []FIT      `json:"its"`
	Eligible    []string   `json:"eligible"` // the NodeClaim's remaining instance type options
	Reqs        []KeyExprs `json:"reqs"`     // the NodeClaim's requirements after the pod's were added
	Pod         FPod       `json:"pod"`
	PodRequests []Res      `json:"podRequests"`
	Groups      []FGroup   `json:"groups"` // daemon-overhead groups
	Total       []Res      `json:"total"`  // requests of the pods already on the NodeClaim plus this pod's
	Relax       bool       `json:"relax"`  // relaxMinValues
}

// ---------- building the real objects ----------

func quantity(name string, q int64) resource.Quantity {
	switch name {
	case "cpu":
		return *resource.NewMilliQuantity(q, resource.DecimalSI)
	case "memory":
		return *resource.NewQuantity(q*1024*1024, resource.BinarySI)
	}
	return *resource.NewQuantity(q, resource.DecimalSI)
}

func toRL(rs []Res) corev1.ResourceList {
	if len(rs) == 0 {
		return nil
	}
	out := corev1.ResourceList{}
	for _, r := range rs {
		out[corev1.ResourceName(r.Name)] = quantity(r.Name, r.Q)
	}
	return out
}

// toOverhead spreads a resource list over the three parts of an InstanceTypeOverhead (Total() merges them again).
func toOverhead(rs []Res) *cloudprovider.InstanceTypeOverhead {
	o := &cloudprovider.InstanceTypeOverhead{}
	for i, r := range rs {
		one := corev1.ResourceList{corev1.ResourceName(r.Name): quantity(r.Name, r.Q)}
		switch i % 3 {
		case 0:
			o.KubeReserved = resources.Merge(o.KubeReserved, one)
		case 1:
			o.SystemReserved = resources.Merge(o.SystemReserved, one)
		default:
			o.EvictionThreshold = resources.Merge(o.EvictionThreshold, one)
		}
	}
	return o
}

func buildReqs(l []KeyExprs) scheduling.Requirements {
	R := scheduling.NewRequirements()
	for _, ke := range l {
		for _, e := range ke.Exprs {
			R.Add(rg.New(ke.Key, e))
		}
	}
	return R
}

func buildFIT(it FIT) *cloudprovider.InstanceType {
	var ofs cloudprovider.Offerings
	for _, o := range it.Offerings {
		of := &cloudprovider.Offering{Requirements: buildReqs(o.Reqs), Price: 1, Available: o.Available, CapacityOverride: toRL(o.CapOverride)}
		if o.OvhOverride != nil {
			of.OverheadOverride = toOverhead(*o.OvhOverride)
		}
		ofs = append(ofs, of)
	}
	capacity := toRL(it.Capacity)
	if capacity == nil {
		capacity = corev1.ResourceList{}
	}
	return &cloudprovider.InstanceType{Name: it.Name, Requirements: buildReqs(it.Reqs), Offerings: ofs, Capacity: capacity, Overhead: toOverhead(it.Overhead)}
}

func podWithPorts(name string, ports []world.HostPort) *corev1.Pod {
	var cps []corev1.ContainerPort
	for _, p := range ports {
		cps = append(cps, corev1.ContainerPort{ContainerPort: 8000, HostPort: p.Port, HostIP: p.IP, Protocol: corev1.Protocol(p.Protocol)})
	}
	return &corev1.Pod{ObjectMeta: metav1.ObjectMeta{Name: name, Namespace: "default"}, Spec: corev1.PodSpec{Containers: []corev1.Container{{Name: "c", Ports: cps}}}}
}

type triple struct {
	IT string `json:"it"`
	C  bool   `json:"c"`
	F  bool   `json:"f"`
	O  bool   `json:"o"`
}

type unsatKey struct {
	Key string `json:"key"`
	N   int    `json:"n"`
}

func implFilter(raw json.RawMessage) (any, error) {
	var in FilterIn
	if err := json.Unmarshal(raw, &in); err != nil {
		return nil, err
	}
	byName := map[string]*cloudprovider.InstanceType{}
	for _, it := range in.ITs {
		if _, dup := byName[it.Name]; dup {
			return nil, fmt.Errorf("duplicate instance type name %s", it.Name)
		}
		byName[it.Name] = buildFIT(it)
	}
	var options []*cloudprovider.InstanceType
	for _, n := range in.Eligible {
		if it, ok := byName[n]; ok {
			options = append(options, it)
		}
	}
	R := buildReqs(in.Reqs)
	pod := podWithPorts(in.Pod.Name, in.Pod.Ports)
	total := toRL(in.Total)
	var groups []provsched.DaemonOverheadGroup
	for _, g := range in.Groups {
		dg := provsched.DaemonOverheadGroup{DaemonOverhead: toRL(g.Overhead), HostPortUsage: scheduling.NewHostPortUsage()}
		for _, n := range g.ITs {
			if it, ok := byName[n]; ok {
				dg.InstanceTypes = append(dg.InstanceTypes, it)
			}
		}
		for _, u := range g.Usage {
			owner := podWithPorts(u.Owner, u.Ports)
			dg.HostPortUsage.Add(owner, scheduling.GetHostPorts(owner))
		}
		groups = append(groups, dg)
	}
	res := provsched.VerifFilterInstanceTypes(options, R, pod, toRL(in.PodRequests), groups, total, in.Relax)
	names := append([]string{}, res.Names...)
	sort.Strings(names)
	unsat := []unsatKey{}
	for k, n := range res.Unsatisfiable {
		unsat = append(unsat, unsatKey{k, n})
	}
	sort.Slice(unsat, func(i, j int) bool { return unsat[i].Key < unsat[j].Key })
	var flags any
	if res.Err {
		flags = map[string]any{"minValuesErr": res.MinValuesErr, "requirementsMet": res.RequirementsMet, "fits": res.Fits, "hasOffering": res.HasOffering,
			"requirementsAndFits": res.RequirementsAndFits, "requirementsAndOffering": res.RequirementsAndOffering, "fitsAndOffering": res.FitsAndOffering}
	}
	// the three criteria of every member of every daemon group, straight from the real compatible / fits
	triples := make([][]triple, len(groups))
	for gi, g := range groups {
		triples[gi] = []triple{}
		req := resources.Merge(total, g.DaemonOverhead)
		for _, it := range g.InstanceTypes {
			f, o := provsched.VerifFits(it, req, R)
			triples[gi] = append(triples[gi], triple{IT: it.Name, C: provsched.VerifCompatible(it, R), F: f, O: o})
		}
	}
	return map[string]any{"names": names, "err": res.Err, "unsat": unsat, "flags": flags, "triples": triples}, nil
}

// ---------- generator ----------

const (
	kZone  = "topology.kubernetes.io/zone"
	kZoneB = "failure-domain.beta.kubernetes.io/zone"
	kCT    = "karpenter.sh/capacity-type"
	kIT    = "node.kubernetes.io/instance-type"
	kArch  = "kubernetes.io/arch"
	kOS    = "kubernetes.io/os"
	kCores = "example.com/cores"
	kTier  = "example.com/tier"
	kRes   = "example.com/res"
	kGPU   = "example.com/gpu"
)

var (
	fZones = []string{"z1", "z2", "z3"}
	fCTs   = []string{"spot", "on-demand"}
	fTiers = []string{"gold", "silver", "bronze"}
)

func pick[T any](r *rand.Rand, xs []T) T { return xs[r.IntN(len(xs))] }

func in1(vals ...string) []rg.Expr { return []rg.Expr{{Op: "In", Values: append([]string{}, vals...)}} }
func op1(op string, vals ...string) []rg.Expr {
	return []rg.Expr{{Op: op, Values: append([]string{}, vals...)}}
}

func subset(r *rand.Rand, xs []string) []string {
	out := []string{}
	for _, x := range xs {
		if r.Float64() < 0.5 {
			out = append(out, x)
		}
	}
	if len(out) == 0 {
		out = append(out, pick(r, xs))
	}
	return out
}

func uniq(xs []string) []string {
	seen := map[string]bool{}
	out := []string{}
	for _, x := range xs {
		if !seen[x] {
			seen[x] = true
			out = append(out, x)
		}
	}
	return out
}

func resGet(rs []Res, name string) (int64, bool) {
	for _, r := range rs {
		if r.Name == name {
			return r.Q, true
		}
	}
	return 0, false
}

func resSet(rs []Res, name string, q int64) []Res {
	out := []Res{}
	done := false
	for _, r := range rs {
		if r.Name == name {
			out = append(out, Res{name, q})
			done = true
		} else {
			out = append(out, r)
		}
	}
	if !done {
		out = append(out, Res{name, q})
	}
	return out
}

// genOverride draws one (CapacityOverride, OverheadOverride) pair for an instance type.
func genOverride(r *rand.Rand, it *FIT) ([]Res, *[]Res) {
	cpu, _ := resGet(it.Capacity, "cpu")
	mem, _ := resGet(it.Capacity, "memory")
	var capO []Res
	var ovhO *[]Res
	switch x := r.Float64(); {
	case x < 0.30:
		capO = []Res{{"cpu", cpu / 2}}
	case x < 0.40:
		capO = []Res{{"cpu", cpu * 2}}
	case x < 0.50:
		capO = []Res{{"memory", mem / 2}}
	case x < 0.58:
		capO = []Res{{"pods", int64(1 + r.IntN(2))}}
	case x < 0.64:
		capO = []Res{{kGPU, int64(1 + r.IntN(2))}}
	case x < 0.70:
		capO = []Res{{"cpu", cpu / 2}, {"memory", mem / 2}}
	case x < 0.82:
		ovhO = &[]Res{{"cpu", int64(pick(r, []int{500, 1000, 1500}))}}
	case x < 0.88:
		ovhO = &[]Res{{"memory", 1024}}
	case x < 0.92:
		ovhO = &[]Res{} // non-nil, empty: a group of its own with the base allocatable
	case x < 0.96:
		ovhO = &[]Res{{"cpu", cpu + 1000}} // more overhead than capacity: negative allocatable
	default:
		capO = []Res{{"cpu", cpu / 2}}
		ovhO = &[]Res{{"cpu", 300}, {"memory", 512}}
	}
	return capO, ovhO
}

func genFIT(r *rand.Rand, i int) FIT {
	name := "it-" + strconv.Itoa(i)
	cpu := int64(pick(r, []int{1000, 2000, 4000, 8000}))
	mem := int64(pick(r, []int{2048, 4096, 8192, 16384}))
	pods := int64(pick(r, []int{3, 8, 8, 20}))
	it := FIT{Name: name, Capacity: []Res{{"cpu", cpu}, {"memory", mem}, {"pods", pods}}, Overhead: []Res{}}
	if r.Float64() < 0.12 {
		it.Capacity = append(it.Capacity, Res{kGPU, int64(1 + r.IntN(2))})
	}
	switch x := r.Float64(); {
	case x < 0.3:
	case x < 0.7:
		it.Overhead = []Res{{"cpu", int64(pick(r, []int{100, 200}))}}
	default:
		it.Overhead = []Res{{"cpu", int64(pick(r, []int{100, 200}))}, {"memory", 256}}
	}
	// offerings: distinct (zone, capacity type) pairs
	type zc struct{ z, c string }
	var pairs []zc
	for _, z := range fZones {
		for _, c := range fCTs {
			pairs = append(pairs, zc{z, c})
		}
	}
	r.Shuffle(len(pairs), func(a, b int) { pairs[a], pairs[b] = pairs[b], pairs[a] })
	n := 1 + r.IntN(5)
	var zones, cts []string
	for _, p := range pairs[:n] {
		o := FOffering{Reqs: []KeyExprs{{kZone, in1(p.z)}, {kCT, in1(p.c)}}, Available: r.Float64() < 0.85, CapOverride: []Res{}}
		if r.Float64() < 0.08 {
			switch r.IntN(3) {
			case 0:
				o.Reqs = append(o.Reqs, KeyExprs{kTier, in1(pick(r, fTiers))})
			case 1:
				o.Reqs = append(o.Reqs, KeyExprs{kRes, op1("DoesNotExist")})
			default:
				o.Reqs = append(o.Reqs, KeyExprs{kRes, in1("r1")})
			}
		}
		it.Offerings = append(it.Offerings, o)
		zones, cts = append(zones, p.z), append(cts, p.c)
	}
	// overrides: on the offerings of one zone or one capacity type; sometimes a second, different one
	if r.Float64() < 0.65 {
		nOv := 1
		if r.Float64() < 0.3 {
			nOv = 2
		}
		for k := 0; k < nOv; k++ {
			capO, ovhO := genOverride(r, &it)
			byZone := r.Float64() < 0.6
			sel := pick(r, zones)
			if !byZone {
				sel = pick(r, cts)
			}
			for j := range it.Offerings {
				o := &it.Offerings[j]
				v := o.Reqs[0].Exprs[0].Values[0]
				if !byZone {
					v = o.Reqs[1].Exprs[0].Values[0]
				}
				if v == sel && (k == 0 || (len(o.CapOverride) == 0 && o.OvhOverride == nil)) {
					o.CapOverride, o.OvhOverride = append([]Res{}, capO...), ovhO
				}
			}
		}
	}
	it.Reqs = []KeyExprs{{kIT, in1(name)}, {kArch, in1(pick(r, []string{"amd64", "amd64", "arm64"}))}, {kOS, in1("linux")},
		{kZone, in1(uniq(zones)...)}, {kCT, in1(uniq(cts)...)}, {kCores, in1(strconv.Itoa(int(cpu / 1000)))}}
	switch x := r.Float64(); {
	case x < 0.5:
	case x < 0.62:
		it.Reqs = append(it.Reqs, KeyExprs{kTier, op1("DoesNotExist")})
	case x < 0.78:
		it.Reqs = append(it.Reqs, KeyExprs{kTier, in1(pick(r, fTiers))})
	case x < 0.86:
		it.Reqs = append(it.Reqs, KeyExprs{kTier, in1("gold", "silver")})
	case x < 0.94:
		it.Reqs = append(it.Reqs, KeyExprs{kTier, op1("NotIn", "bronze")})
	default:
		it.Reqs = append(it.Reqs, KeyExprs{kTier, op1("Exists")})
	}
	return it
}

func genClaimReqs(r *rand.Rand, names []string) []KeyExprs {
	var out []KeyExprs
	used := map[string]bool{}
	add := func(k string, es []rg.Expr) {
		if used[k] {
			return
		}
		used[k] = true
		out = append(out, KeyExprs{k, es})
	}
	n := pick(r, []int{0, 0, 1, 1, 1, 1, 2, 2, 2, 3, 3, 4})
	for i := 0; i < n; i++ {
		switch x := r.Float64(); {
		case x < 0.26:
			switch y := r.Float64(); {
			case y < 0.55:
				es := in1(subset(r, fZones)...)
				if r.Float64() < 0.2 {
					mv := 1 + r.IntN(3)
					es[0].MinValues = &mv
				}
				add(kZone, es)
			case y < 0.75:
				add(kZone, op1("NotIn", subset(r, fZones)...))
			case y < 0.85:
				add(kZone, append(in1(subset(r, fZones)...), op1("NotIn", pick(r, fZones))...))
			case y < 0.95:
				add(kZone, op1("Exists"))
			default:
				add(kZone, op1("DoesNotExist"))
			}
		case x < 0.31:
			add(kZoneB, in1(subset(r, fZones)...))
		case x < 0.46:
			switch y := r.Float64(); {
			case y < 0.6:
				add(kCT, in1(pick(r, fCTs)))
			case y < 0.8:
				add(kCT, op1("NotIn", pick(r, fCTs)))
			default:
				add(kCT, in1(fCTs...))
			}
		case x < 0.60:
			es := in1(subset(r, names)...)
			if r.Float64() < 0.3 {
				es = op1("NotIn", subset(r, names)...)
			}
			if r.Float64() < 0.5 {
				mv := 1 + r.IntN(3)
				es[0].MinValues = &mv
			}
			add(kIT, es)
		case x < 0.68:
			if r.Float64() < 0.7 {
				add(kArch, in1(pick(r, []string{"amd64", "arm64"})))
			} else {
				add(kArch, op1("NotIn", pick(r, []string{"amd64", "arm64"})))
			}
		case x < 0.82:
			c := strconv.Itoa(pick(r, []int{0, 1, 2, 3, 4, 7, 8}))
			es := op1(pick(r, []string{"Gt", "Lt", "Gte", "Lte", "In", "NotIn"}), c)
			if r.Float64() < 0.3 {
				es = append(es, op1(pick(r, []string{"Gt", "Lt", "NotIn", "Exists"}), strconv.Itoa(pick(r, []int{1, 2, 4, 8})))...)
				if es[1].Op == "Exists" {
					es[1].Values = []string{}
				}
			}
			if r.Float64() < 0.15 {
				mv := 1 + r.IntN(2)
				es[0].MinValues = &mv
			}
			add(kCores, es)
		case x < 0.93:
			var es []rg.Expr
			switch y := r.Float64(); {
			case y < 0.35:
				es = in1(subset(r, fTiers)...)
			case y < 0.55:
				es = op1("NotIn", pick(r, fTiers))
			case y < 0.65:
				es = op1("Exists")
			case y < 0.75:
				es = op1("DoesNotExist")
			default:
				// two arbitrary expressions on one key: contradictions and Exists+NotIn reach the recorded findings
				es = []rg.Expr{tierExpr(r), tierExpr(r)}
			}
			add(kTier, es)
		case x < 0.97:
			add("team", []rg.Expr{pick(r, []rg.Expr{{Op: "In", Values: []string{"a"}}, {Op: "NotIn", Values: []string{"a"}}, {Op: "Exists", Values: []string{}}})})
		default:
			e := rg.RandExpr(r, false)
			if e.Values == nil {
				e.Values = []string{}
			}
			add(pick(r, []string{kZone, kCT, kCores, kTier, kRes}), []rg.Expr{e})
		}
	}
	if out == nil {
		out = []KeyExprs{}
	}
	return out
}

func tierExpr(r *rand.Rand) rg.Expr {
	switch x := r.Float64(); {
	case x < 0.35:
		return rg.Expr{Op: "In", Values: subset(r, fTiers)}
	case x < 0.6:
		return rg.Expr{Op: "NotIn", Values: []string{pick(r, fTiers)}}
	case x < 0.8:
		return rg.Expr{Op: "Exists", Values: []string{}}
	case x < 0.9:
		return rg.Expr{Op: "DoesNotExist", Values: []string{}}
	default:
		return rg.Expr{Op: pick(r, []string{"Gt", "Lt"}), Values: []string{strconv.Itoa(r.IntN(5))}}
	}
}

var (
	fPorts  = []int32{80, 8080, 9100, 0}
	fProtos = []string{"TCP", "TCP", "UDP"}
	fIPs    = []string{"", "0.0.0.0", "10.0.0.1", "10.0.0.2"}
)

func genPorts(r *rand.Rand, n int) []world.HostPort {
	out := []world.HostPort{}
	for i := 0; i < n; i++ {
		out = append(out, world.HostPort{Port: pick(r, fPorts), Protocol: pick(r, fProtos), IP: pick(r, fIPs)})
	}
	return out
}

// allocOfFor computes, harness-side and only to AIM requests at a boundary, the allocatable of one resource for an offering.
func allocOfFor(it *FIT, o *FOffering, name string) int64 {
	c, _ := resGet(it.Capacity, name)
	if v, ok := resGet(o.CapOverride, name); ok {
		c = v
	}
	h, _ := resGet(it.Overhead, name)
	if o.OvhOverride != nil {
		if v, ok := resGet(*o.OvhOverride, name); ok {
			h = v
		}
	}
	return c - h
}

func genFilter(r *rand.Rand, t core.Tier) any {
	nIT := 2 + r.IntN(4)
	in := FilterIn{Relax: r.Float64() < 0.5}
	var names []string
	for i := 0; i < nIT; i++ {
		it := genFIT(r, i)
		in.ITs = append(in.ITs, it)
		names = append(names, it.Name)
	}
	in.Eligible = append([]string{}, names...)
	if r.Float64() < 0.2 {
		d := r.IntN(len(names))
		in.Eligible = append(append([]string{}, names[:d]...), names[d+1:]...)
	}
	in.Reqs = genClaimReqs(r, names)
	// daemon-overhead groups: a partition of the instance types (occasionally an overlap or a type in no group)
	nG := 1 + r.IntN(3)
	in.Groups = make([]FGroup, nG)
	for gi := range in.Groups {
		g := &in.Groups[gi]
		g.ITs, g.Usage = []string{}, []FUsage{}
		switch x := r.Float64(); {
		case x < 0.35:
			g.Overhead = []Res{}
		case x < 0.75:
			g.Overhead = []Res{{"cpu", int64(pick(r, []int{100, 300, 1000}))}, {"pods", int64(1 + r.IntN(2))}}
		default:
			g.Overhead = []Res{{"cpu", int64(pick(r, []int{100, 300, 1000}))}, {"memory", int64(pick(r, []int{128, 256, 1024}))}, {"pods", int64(1 + r.IntN(2))}}
		}
		nU := r.IntN(3)
		if nG > 1 && r.Float64() < 0.3 {
			nU = 1 + r.IntN(2)
		}
		for u := 0; u < nU; u++ {
			owner := fmt.Sprintf("ds-%d-%d", gi, u)
			if r.Float64() < 0.06 {
				owner = "pod-a" // an entry the pod itself reserved earlier: never a conflict
			}
			g.Usage = append(g.Usage, FUsage{Owner: owner, Ports: genPorts(r, 1+r.IntN(2))})
		}
	}
	for _, n := range names {
		if r.Float64() < 0.04 {
			continue // in no group: never considered
		}
		gi := r.IntN(nG)
		in.Groups[gi].ITs = append(in.Groups[gi].ITs, n)
		if nG > 1 && r.Float64() < 0.06 {
			in.Groups[(gi+1)%nG].ITs = append(in.Groups[(gi+1)%nG].ITs, n)
		}
	}
	nP := 0
	if r.Float64() < 0.45 {
		nP = 1 + r.IntN(2)
	}
	in.Pod = FPod{Name: "pod-a", Ports: genPorts(r, nP)}
	// requests
	in.Total = []Res{{"cpu", int64(pick(r, []int{100, 100, 100, 500, 500, 500, 900, 900, 1500, 1900, 2500, 3500, 3900, 6000}))}}
	if r.Float64() < 0.8 {
		in.Total = append(in.Total, Res{"memory", int64(pick(r, []int{0, 512, 512, 512, 1500, 1500, 3000, 7000}))})
	}
	if r.Float64() < 0.9 {
		in.Total = append(in.Total, Res{"pods", int64(pick(r, []int{1, 1, 1, 2, 2, 3, 4}))})
	}
	if r.Float64() < 0.04 {
		in.Total = append(in.Total, Res{kGPU, 1})
	}
	// aim one resource at the boundary of one (instance type, offering, daemon group): exactly full, one over, one under
	if r.Float64() < 0.25 {
		it := &in.ITs[r.IntN(len(in.ITs))]
		o := &it.Offerings[r.IntN(len(it.Offerings))]
		g := &in.Groups[r.IntN(nG)]
		name := pick(r, []string{"cpu", "cpu", "memory", "pods"})
		d, _ := resGet(g.Overhead, name)
		in.Total = resSet(in.Total, name, allocOfFor(it, o, name)-d+int64(r.IntN(3)-1))
		if q, _ := resGet(in.Total, name); q < 0 {
			in.Total = resSet(in.Total, name, 0)
		}
	}
	if r.Float64() < 0.06 {
		in.Total = in.Total[1:] // no cpu requested at all (a negative cpu allocatable must still refuse)
		if len(in.Total) == 0 {
			in.Total = []Res{{"pods", 1}}
		}
	}
	in.PodRequests = []Res{}
	if q, ok := resGet(in.Total, "cpu"); ok {
		in.PodRequests = append(in.PodRequests, Res{"cpu", q / 2}, Res{"pods", 1})
	}
	return in
}

// ---------- labels / shrink ----------

func overrideKeyOf(o FOffering) string {
	c := append([]Res{}, o.CapOverride...)
	sort.Slice(c, func(i, j int) bool { return c[i].Name < c[j].Name })
	s := fmt.Sprint(c)
	if o.OvhOverride != nil {
		h := append([]Res{}, (*o.OvhOverride)...)
		sort.Slice(h, func(i, j int) bool { return h[i].Name < h[j].Name })
		s += "|" + fmt.Sprint(h)
	} else {
		s += "|nil"
	}
	return s
}

func allocGroupCount(it FIT) int {
	keys := map[string]bool{overrideKeyOf(FOffering{}): true}
	for _, o := range it.Offerings {
		if o.Available {
			keys[overrideKeyOf(o)] = true
		}
	}
	return len(keys)
}

func labelsFilter(raw json.RawMessage, impl any) []string {
	var in FilterIn
	json.Unmarshal(raw, &in)
	set := map[string]bool{}
	groupsOf := map[string]int{}
	for _, it := range in.ITs {
		n := allocGroupCount(it)
		groupsOf[it.Name] = n
		set[fmt.Sprintf("some-type-with-%d-allocatable-groups", n)] = true
		none := true
		for _, o := range it.Offerings {
			for _, c := range o.CapOverride {
				none = false
				switch c.Name {
				case "cpu", "memory", "pods":
					set["override:capacity-"+c.Name] = true
				default:
					set["override:capacity-new-resource"] = true
				}
			}
			if o.OvhOverride != nil {
				none = false
				if len(*o.OvhOverride) == 0 {
					set["override:overhead-empty"] = true
				} else {
					set["override:overhead"] = true
				}
				for _, h := range *o.OvhOverride {
					if c, _ := resGet(it.Capacity, h.Name); h.Q > c {
						set["negative-allocatable"] = true
					}
				}
			}
			if !o.Available {
				set["offering-unavailable"] = true
				if len(o.CapOverride) > 0 || o.OvhOverride != nil {
					set["override-on-unavailable-offering"] = true
				}
			}
			if len(o.Reqs) > 2 {
				set["offering-extra-requirement"] = true
			}
		}
		if none {
			set["some-type-without-overrides"] = true
		}
	}
	l := []string{fmt.Sprintf("daemon-groups=%d", len(in.Groups)), fmt.Sprintf("claim-req-keys=%d", len(in.Reqs)), fmt.Sprintf("pod-host-ports=%d", len(in.Pod.Ports)), fmt.Sprintf("relax=%v", in.Relax)}
	if len(in.Eligible) < len(in.ITs) {
		set["type-not-eligible"] = true
	}
	for _, g := range in.Groups {
		if len(g.Overhead) > 0 {
			set["daemon-overhead"] = true
		} else {
			set["daemon-overhead-empty"] = true
		}
		for _, u := range g.Usage {
			if u.Owner == in.Pod.Name {
				set["usage-owned-by-the-pod"] = true
			}
		}
	}
	for _, ke := range in.Reqs {
		for _, e := range ke.Exprs {
			set["claim-op:"+e.Op] = true
			if e.MinValues != nil {
				set["claim-minValues"] = true
			}
		}
		if len(ke.Exprs) > 1 {
			set["claim-two-exprs-on-a-key"] = true
		}
	}
	m, _ := impl.(map[string]any)
	names, _ := m["names"].([]any)
	switch {
	case len(names) == 0:
		l = append(l, "survivors=none")
	case len(names) >= len(in.Eligible):
		l = append(l, "survivors=all")
	default:
		l = append(l, "survivors=some")
	}
	if b, _ := m["err"].(bool); b {
		set["error-returned"] = true
		if f, _ := m["flags"].(map[string]any); f != nil {
			if mv, _ := f["minValuesErr"].(bool); mv {
				set["error:minValues-strict"] = true
			}
			for _, k := range []string{"requirementsMet", "fits", "hasOffering"} {
				if b, _ := f[k].(bool); !b {
					set["error:no-type-with-"+k] = true
				}
			}
			for _, k := range []string{"requirementsAndFits", "requirementsAndOffering", "fitsAndOffering"} {
				if b, _ := f[k].(bool); b {
					set["error:flag-"+k] = true
				}
			}
		}
	}
	if u, _ := m["unsat"].([]any); len(u) > 0 {
		set["minValues-unsatisfied"] = true
	}
	kept := map[string]bool{}
	for _, n := range names {
		if s, ok := n.(string); ok {
			kept[s] = true
		}
	}
	elig := map[string]bool{}
	for _, n := range in.Eligible {
		elig[n] = true
	}
	if ts, _ := m["triples"].([]any); ts != nil {
		for _, g := range ts {
			row, _ := g.([]any)
			for _, x := range row {
				t, _ := x.(map[string]any)
				name, _ := t["it"].(string)
				c, _ := t["c"].(bool)
				f, _ := t["f"].(bool)
				o, _ := t["o"].(bool)
				switch {
				case c && f && o:
					if !kept[name] && elig[name] {
						set["filtered-by:host-port-conflict-of-its-daemon-group"] = true
					}
				case !c:
					set["filtered-by:requirements"] = true
				case !o:
					set["filtered-by:no-compatible-available-offering"] = true
				default:
					set["filtered-by:resources"] = true
					if groupsOf[name] > 1 {
						set["filtered-by:resources(multi-group type: the compatible group is too small)"] = true
					}
				}
				if c && f && o && kept[name] && groupsOf[name] > 1 {
					set["kept:multi-group-type"] = true
				}
			}
		}
	}
	for k := range set {
		l = append(l, k)
	}
	sort.Strings(l)
	return l
}

func without[T any](xs []T, i int) []T {
	out := append([]T{}, xs[:i]...)
	return append(out, xs[i+1:]...)
}

func cloneIn(in FilterIn) FilterIn {
	b, _ := json.Marshal(in)
	var out FilterIn
	json.Unmarshal(b, &out)
	return out
}

func shrinkFilter(raw json.RawMessage) []any {
	var in FilterIn
	if json.Unmarshal(raw, &in) != nil {
		return nil
	}
	var out []any
	// drop an instance type everywhere
	for i := range in.ITs {
		if len(in.ITs) <= 1 {
			break
		}
		c := cloneIn(in)
		name := c.ITs[i].Name
		c.ITs = without(c.ITs, i)
		keep := func(xs []string) []string {
			o := []string{}
			for _, x := range xs {
				if x != name {
					o = append(o, x)
				}
			}
			return o
		}
		c.Eligible = keep(c.Eligible)
		for gi := range c.Groups {
			c.Groups[gi].ITs = keep(c.Groups[gi].ITs)
		}
		out = append(out, c)
	}
	for i := range in.Groups {
		if len(in.Groups) > 1 {
			c := cloneIn(in)
			c.Groups = without(c.Groups, i)
			out = append(out, c)
		}
		if len(in.Groups[i].Usage) > 0 {
			c := cloneIn(in)
			c.Groups[i].Usage = []FUsage{}
			out = append(out, c)
		}
		if len(in.Groups[i].Overhead) > 0 {
			c := cloneIn(in)
			c.Groups[i].Overhead = []Res{}
			out = append(out, c)
		}
	}
	for i := range in.Reqs {
		c := cloneIn(in)
		c.Reqs = without(c.Reqs, i)
		out = append(out, c)
		if len(in.Reqs[i].Exprs) > 1 {
			for j := range in.Reqs[i].Exprs {
				c := cloneIn(in)
				c.Reqs[i].Exprs = without(c.Reqs[i].Exprs, j)
				out = append(out, c)
			}
		}
	}
	if len(in.Pod.Ports) > 0 {
		c := cloneIn(in)
		c.Pod.Ports = []world.HostPort{}
		out = append(out, c)
	}
	for i := range in.ITs {
		for j := range in.ITs[i].Offerings {
			if len(in.ITs[i].Offerings) > 1 {
				c := cloneIn(in)
				c.ITs[i].Offerings = without(c.ITs[i].Offerings, j)
				out = append(out, c)
			}
		}
		if len(in.ITs[i].Reqs) > 1 {
			for j := range in.ITs[i].Reqs {
				c := cloneIn(in)
				c.ITs[i].Reqs = without(c.ITs[i].Reqs, j)
				out = append(out, c)
			}
		}
	}
	for i := range in.Total {
		if len(in.Total) > 1 {
			c := cloneIn(in)
			c.Total = without(c.Total, i)
			out = append(out, c)
		}
	}
	if len(in.PodRequests) > 0 {
		c := cloneIn(in)
		c.PodRequests = []Res{}
		out = append(out, c)
	}
	return out
}

// ---------- exhaustive small scope ----------

// enumFilter: the complete matrix of one two-offering instance type ("flex": z1 and z2 offering, each with one of four
// override settings and either availability) next to a plain big one, x the zone requirement x the cpu request around
// every allocatable boundary x daemon overhead x a daemon host-port conflict.
func enumFilter(t core.Tier) []any {
	type ov struct {
		capO []Res
		ovhO *[]Res
	}
	ovs := []ov{{[]Res{}, nil}, {[]Res{{"cpu", 2000}}, nil}, {[]Res{}, &[]Res{{"cpu", 600}}}, {[]Res{{"cpu", 6000}}, &[]Res{{"cpu", 600}}}}
	zreqs := [][]KeyExprs{{}, {{kZone, in1("z1")}}, {{kZone, in1("z2")}}, {{kZone, op1("NotIn", "z1")}}, {{kZone, in1("z3")}}}
	// allocatable of flex: base 3900, cap 2000 -> 1900, overhead 600 -> 3400, both -> 5400; with 200m of daemons: -200
	cpus := []int64{1700, 1701, 1900, 1901, 3200, 3201, 3400, 3401, 3700, 3701, 3900, 3901, 5200, 5201, 5400, 5401}
	mkOff := func(z string, o ov, av bool) FOffering {
		return FOffering{Reqs: []KeyExprs{{kZone, in1(z)}, {kCT, in1("on-demand")}}, Available: av, CapOverride: append([]Res{}, o.capO...), OvhOverride: o.ovhO}
	}
	var out []any
	for _, o1 := range ovs {
		for _, o2 := range ovs {
			for av := 0; av < 4; av++ {
				flex := FIT{Name: "flex", Capacity: []Res{{"cpu", 4000}, {"memory", 8192}, {"pods", 10}}, Overhead: []Res{{"cpu", 100}},
					Reqs:      []KeyExprs{{kIT, in1("flex")}, {kZone, in1("z1", "z2")}, {kCT, in1("on-demand")}},
					Offerings: []FOffering{mkOff("z1", o1, av&1 == 0), mkOff("z2", o2, av&2 == 0)}}
				big := FIT{Name: "big", Capacity: []Res{{"cpu", 16000}, {"memory", 8192}, {"pods", 10}}, Overhead: []Res{{"cpu", 100}},
					Reqs:      []KeyExprs{{kIT, in1("big")}, {kZone, in1("z1", "z2")}, {kCT, in1("on-demand")}},
					Offerings: []FOffering{mkOff("z1", ovs[0], true), mkOff("z2", ovs[0], true)}}
				for _, zr := range zreqs {
					for _, cpu := range cpus {
						for d := 0; d < 2; d++ {
							for c := 0; c < 2; c++ {
								if c == 1 && (cpu%100 != 0 || d == 1) {
									continue // the port conflict does not depend on the fine grain of the request
								}
								g := FGroup{ITs: []string{"flex", "big"}, Overhead: []Res{}, Usage: []FUsage{{Owner: "ds-x", Ports: []world.HostPort{{Port: 9100, Protocol: "TCP", IP: ""}}}}}
								if d == 1 {
									g.Overhead = []Res{{"cpu", 200}, {"pods", 1}}
								}
								pod := FPod{Name: "pod-a", Ports: []world.HostPort{{Port: 9100, Protocol: "UDP", IP: ""}}}
								if c == 1 {
									pod.Ports = []world.HostPort{{Port: 9100, Protocol: "TCP", IP: "10.0.0.1"}}
								}
								out = append(out, FilterIn{ITs: []FIT{flex, big}, Eligible: []string{"flex", "big"}, Reqs: zr, Pod: pod,
									PodRequests: []Res{{"cpu", 100}, {"pods", 1}}, Groups: []FGroup{g}, Total: []Res{{"cpu", cpu}, {"pods", 1}}})
							}
						}
					}
				}
			}
		}
	}
	return out
}

func filterOp() *core.Op {
	return &core.Op{
		Name:           "c01.filter",
		Doc:            "the real filterInstanceTypesByRequirements / fits / compatible (verif hook) on one NodeClaim step: 2-5 instance types whose offerings are split into 1-3 allocatable groups by CapacityOverride / OverheadOverride (per zone or capacity type; unavailable offerings; offerings with extra requirements), claim requirements over zone / capacity-type / instance-type / arch / custom keys with all 8 operators and minValues, a pod with host ports, 1-3 daemon-overhead groups (overhead, host-port usage, members), summed requests (often aimed at an allocatable boundary +-1); model = filterResult over allocGroups (names, error, unsatisfiable minValues keys, error flags, the (compatible, fits, hasOffering) triple of every group member); spec = every instance type the real function kept is feasible (Karp/Spec/FilterSpec.lean)",
		N:              func(t core.Tier) int { return map[core.Tier]int{core.Quick: 5000, core.Thorough: 80000}[t] },
		Gen:            genFilter,
		Enum:           enumFilter,
		ExhaustiveNote: "one two-offering instance type: {no override, CapacityOverride cpu, OverheadOverride cpu, both}^2 per offering x availability^2 x zone requirement {none, In z1, In z2, NotIn z1, In z3} x cpu request at every allocatable boundary and boundary+1 x daemon overhead {none, 200m} x daemon host-port conflict {no, yes}",
		Impl:           implFilter,
		Rule:           "non-trivial = some but not all of the NodeClaim's instance type options survive",
		Nontrivial: func(raw json.RawMessage, impl any) bool {
			var in FilterIn
			json.Unmarshal(raw, &in)
			m, _ := impl.(map[string]any)
			names, _ := m["names"].([]any)
			return len(names) > 0 && len(names) < len(in.Eligible)
		},
		Labels:    labelsFilter,
		Signature: func(raw json.RawMessage, impl any) string { return "filter" },
		Shrink:    shrinkFilter,
	}
}
