package c20

// c20.pool — the NodeRegistrationHealthy condition as the REAL controllers maintain it.
//
// A script of cluster events is played against
//   - the real nodeclaim lifecycle controller (lifecycle.NewController(...).Reconcile: launch, registration,
//     initialization, liveness — the anchored Registration/Liveness.updateNodePoolRegistrationHealth run inside it),
//   - the real nodepool.registrationhealth controller (Reconcile: hydration after a restart, reset on a
//     NodePool/NodeClass generation change),
// sharing one nodepoolhealth.State, on the controller-runtime fake client with a fake clock.  After every event the
// persisted condition of both NodePools, the tracker status and both what-if verdicts are observed.

import (
	"context"
	"encoding/json"
	"errors"
	"fmt"
	"math/rand/v2"
	"slices"
	"strings"
	"time"

	"github.com/awslabs/operatorpkg/status"
	"github.com/go-logr/logr"
	corev1 "k8s.io/api/core/v1"
	metav1 "k8s.io/apimachinery/pkg/apis/meta/v1"
	"k8s.io/apimachinery/pkg/runtime"
	"k8s.io/apimachinery/pkg/runtime/schema"
	"k8s.io/apimachinery/pkg/types"
	"k8s.io/apimachinery/pkg/util/managedfields"
	clientgoapplyconfigurations "k8s.io/client-go/applyconfigurations"
	"k8s.io/client-go/kubernetes/scheme"
	clocktesting "k8s.io/utils/clock/testing"
	"sigs.k8s.io/controller-runtime/pkg/client"
	"sigs.k8s.io/controller-runtime/pkg/client/fake"
	crlog "sigs.k8s.io/controller-runtime/pkg/log"

	_ "sigs.k8s.io/karpenter/pkg/apis"
	v1 "sigs.k8s.io/karpenter/pkg/apis/v1"
	fakecp "sigs.k8s.io/karpenter/pkg/cloudprovider/fake"
	"sigs.k8s.io/karpenter/pkg/controllers/nodeclaim/lifecycle"
	"sigs.k8s.io/karpenter/pkg/controllers/nodepool/registrationhealth"
	"sigs.k8s.io/karpenter/pkg/operator/options"
	"sigs.k8s.io/karpenter/pkg/state/nodepoolhealth"
	"sigs.k8s.io/karpenter/pkg/test"
	"sigs.k8s.io/karpenter/pkg/test/v1alpha1"

	"verifharness/internal/core"
)

func init() {
	// controller-runtime prints a warning + stack trace if no logger is ever set
	crlog.SetLogger(logr.Discard())
}

// Events (one string per step).  Pools: "a" and "b"; both reference the one TestNodeClass "default".
//
//	Sa Sb  a NodeClaim of the pool is launched and its Node registers           (success)
//	Fa Fb  a NodeClaim of the pool is launched, no Node ever shows up; the registration timeout passes (failure)
//	La Lb  the cloud provider cannot create the instance; the launch timeout passes                     (failure)
//	Za Zb  the cloud provider cannot create the instance and the controller gets to look at the NodeClaim again only
//	       after the registration timeout has passed as well (it was not running in between)  (ONE failed attempt)
//	Xs Xf  a NodeClaim that carries pool a's NAME but is owned by an earlier NodePool object of that name
//	       (other UID) registers / times out: not an attempt of either pool
//	Pa Pb  the NodePool spec is edited (generation bump), the registrationhealth controller reconciles it (reset)
//	C      the NodeClass is edited (generation bump); both NodePools are reconciled, as the NodeClass watch does (reset)
//	R      karpenter restarts: all in-memory state is lost, both NodePools are reconciled (re-hydration)
//	N      both NodePools are reconciled although nothing changed (resync)
var poolEvents = []string{"Sa", "Fa", "La", "Za", "Sb", "Fb", "Lb", "Zb", "Xs", "Xf", "Pa", "Pb", "C", "R", "N"}

type PoolIn struct {
	Steps []string `json:"steps"`
	// Full: every NodeClaim starts as the provisioner creates it (no finalizer, no status) and goes through the
	// launch step of the lifecycle controller first.  Otherwise the NodeClaim is created as that first reconcile
	// leaves it (finalizer, provider id, Launched, Registered=Unknown/NodeNotFound) and handed to the controller from
	// there — same registration / liveness code, fewer API writes (the fake client serialises all writes of all
	// workers on a global lock, so the exhaustive part uses this mode).
	Full bool `json:"full"`
}

// one observation = [condition, tracker status, what-if(success) status, what-if(failure) status]
// condition: 0 Unknown, 1 True, 2 False, 3 absent; status: nodepoolhealth.Status (0 Unknown, 1 Healthy, 2 Unhealthy)
type PoolOut struct {
	A [][]int `json:"a"` // pool a: index 0 = after the NodePool's first reconcile, then one entry per step
	B [][]int `json:"b"`
	// steps where the environment did not do what the event stands for (claim not registered / not deleted)
	Anomalies []string `json:"anomalies"`
}

// ---- fake API server ----

// only the kinds the controllers touch: the fake client rebuilds a REST mapper from its scheme on every Patch,
// which dominates the run time with the full client-go scheme
var poolScheme = func() *runtime.Scheme {
	s := runtime.NewScheme()
	cgv := schema.GroupVersion{Group: "", Version: "v1"}
	s.AddKnownTypes(cgv, &corev1.Node{}, &corev1.NodeList{})
	metav1.AddToGroupVersion(s, cgv)
	gv := schema.GroupVersion{Group: "karpenter.sh", Version: "v1"}
	s.AddKnownTypes(gv, &v1.NodePool{}, &v1.NodePoolList{}, &v1.NodeClaim{}, &v1.NodeClaimList{})
	metav1.AddToGroupVersion(s, gv)
	tgv := schema.GroupVersion{Group: v1alpha1.Group, Version: "v1alpha1"}
	s.AddKnownTypes(tgv, &v1alpha1.TestNodeClass{}, &v1alpha1.TestNodeClassList{})
	metav1.AddToGroupVersion(s, tgv)
	return s
}()

var poolTypeConverters = func() []managedfields.TypeConverter {
	cgs := runtime.NewScheme()
	if err := scheme.AddToScheme(cgs); err != nil {
		panic(err)
	}
	return []managedfields.TypeConverter{clientgoapplyconfigurations.NewTypeConverter(cgs), managedfields.NewDeducedTypeConverter()}
}()

// scripted cloud provider: Create succeeds with a provider id derived from the claim's name, or fails for the
// claims listed in failing (every attempt, as an instance type that is never available would)
type poolProvider struct {
	*fakecp.CloudProvider
	failing map[string]bool
}

func (p *poolProvider) Create(_ context.Context, nc *v1.NodeClaim) (*v1.NodeClaim, error) {
	if p.failing[nc.Name] {
		return nil, errors.New("injected create failure")
	}
	out := nc.DeepCopy()
	out.Status.ProviderID = "fake://" + nc.Name
	return out, nil
}

var poolT0 = time.Date(2026, 1, 1, 0, 0, 0, 0, time.UTC)

type poolEnv struct {
	ctx   context.Context
	clk   *clocktesting.FakeClock
	c     client.Client
	cp    *poolProvider
	st    *nodepoolhealth.State
	life  *lifecycle.Controller
	rh    *registrationhealth.Controller
	n     int
	full  bool
	anoms []string
}

var poolNames = map[string]string{"a": "pool-a", "b": "pool-b"}

func poolUID(p string) types.UID { return types.UID("uid-pool-" + p) }

func nodeClassRef() *v1.NodeClassReference {
	return &v1.NodeClassReference{Group: v1alpha1.Group, Kind: "TestNodeClass", Name: "default"}
}

func newPoolEnv(full bool) (*poolEnv, error) {
	e := &poolEnv{
		ctx:  options.ToContext(context.Background(), test.Options()),
		clk:  clocktesting.NewFakeClock(poolT0),
		full: full,
	}
	nodeClass := &v1alpha1.TestNodeClass{ObjectMeta: metav1.ObjectMeta{Name: "default", UID: "uid-nodeclass", Generation: 1, CreationTimestamp: metav1.NewTime(poolT0)}}
	objs := []client.Object{nodeClass}
	for _, p := range []string{"a", "b"} {
		np := &v1.NodePool{ObjectMeta: metav1.ObjectMeta{Name: poolNames[p], UID: poolUID(p), Generation: 1, CreationTimestamp: metav1.NewTime(poolT0)}}
		np.Spec.Template.Spec.NodeClassRef = nodeClassRef()
		objs = append(objs, np)
	}
	e.c = fake.NewClientBuilder().
		WithScheme(poolScheme).
		WithTypeConverters(poolTypeConverters...).
		WithObjects(objs...).
		WithStatusSubresource(&v1.NodeClaim{}, &v1.NodePool{}).
		WithIndex(&corev1.Node{}, "spec.providerID", func(o client.Object) []string { return []string{o.(*corev1.Node).Spec.ProviderID} }).
		WithIndex(&v1.NodeClaim{}, "status.providerID", func(o client.Object) []string { return []string{o.(*v1.NodeClaim).Status.ProviderID} }).
		Build()
	e.cp = &poolProvider{CloudProvider: fakecp.NewCloudProvider(), failing: map[string]bool{}}
	e.boot()
	// a NodePool is reconciled by the registrationhealth controller as soon as it exists
	if err := e.reconcilePools("a", "b"); err != nil {
		return nil, err
	}
	return e, nil
}

// boot = process start: fresh in-memory state, fresh controllers
func (e *poolEnv) boot() {
	e.st = nodepoolhealth.NewState()
	e.life = lifecycle.NewController(e.clk, e.c, e.cp, test.NewEventRecorder(), e.st, nil)
	e.rh = registrationhealth.NewController(e.clk, e.c, e.cp, e.st)
}

func (e *poolEnv) reconcilePools(pools ...string) error {
	for _, p := range pools {
		np := &v1.NodePool{}
		if err := e.c.Get(e.ctx, client.ObjectKey{Name: poolNames[p]}, np); err != nil {
			return fmt.Errorf("harness: get nodepool: %w", err)
		}
		if _, err := e.rh.Reconcile(e.ctx, np); err != nil {
			return fmt.Errorf("registrationhealth reconcile: %w", err)
		}
	}
	return nil
}

// newClaim creates the NodeClaim the provisioner would create for the pool (label + controller owner reference)
func (e *poolEnv) newClaim(pool string, ownerUID types.UID, createFails bool) (*v1.NodeClaim, error) {
	e.n++
	nc := &v1.NodeClaim{
		ObjectMeta: metav1.ObjectMeta{
			Name: fmt.Sprintf("nc-%d", e.n), UID: types.UID(fmt.Sprintf("uid-nc-%d", e.n)), Generation: 1,
			CreationTimestamp: metav1.NewTime(e.clk.Now()),
			Labels:            map[string]string{v1.NodePoolLabelKey: poolNames[pool]},
			OwnerReferences:   []metav1.OwnerReference{{APIVersion: "karpenter.sh/v1", Kind: "NodePool", Name: poolNames[pool], UID: ownerUID, BlockOwnerDeletion: new(true)}},
		},
		Spec: v1.NodeClaimSpec{NodeClassRef: nodeClassRef(), Requirements: []v1.NodeSelectorRequirementWithMinValues{}},
	}
	if createFails {
		e.cp.failing[nc.Name] = true
	}
	if !e.full {
		// the NodeClaim as the first pass of the lifecycle controller leaves it
		nc.Finalizers = []string{v1.TerminationFinalizer}
		cs := nc.StatusConditions(status.WithClock(e.clk))
		if createFails {
			cs.SetUnknownWithReason(v1.ConditionTypeLaunched, "LaunchFailed", "launching nodeclaim, injected create failure")
		} else {
			nc.Status.ProviderID = "fake://" + nc.Name
			cs.SetTrue(v1.ConditionTypeLaunched)
		}
		cs.SetUnknownWithReason(v1.ConditionTypeRegistered, "NodeNotFound", "Node not registered with cluster")
	}
	if err := e.c.Create(e.ctx, nc); err != nil {
		return nil, fmt.Errorf("harness: create nodeclaim: %w", err)
	}
	return nc, nil
}

// reconcileClaim hands the stored NodeClaim to the lifecycle controller, as controller-runtime would
func (e *poolEnv) reconcileClaim(name string) (time.Duration, error) {
	nc := &v1.NodeClaim{}
	if err := e.c.Get(e.ctx, client.ObjectKey{Name: name}, nc); err != nil {
		return 0, fmt.Errorf("harness: get nodeclaim: %w", err)
	}
	res, err := e.life.Reconcile(e.ctx, nc)
	return res.RequeueAfter, err
}

func (e *poolEnv) claimState(name string) (registered bool, deleting bool) {
	nc := &v1.NodeClaim{}
	if err := e.c.Get(e.ctx, client.ObjectKey{Name: name}, nc); err != nil {
		return false, true
	}
	for _, c := range nc.Status.Conditions {
		if c.Type == v1.ConditionTypeRegistered && c.Status == metav1.ConditionTrue {
			registered = true
		}
	}
	return registered, !nc.DeletionTimestamp.IsZero()
}

// success: launch, then the kubelet's Node shows up with the unregistered taint and the controller registers it
func (e *poolEnv) success(step int, pool string, owner types.UID) error {
	nc, err := e.newClaim(pool, owner, false)
	if err != nil {
		return err
	}
	if e.full {
		if _, err := e.reconcileClaim(nc.Name); err != nil {
			return fmt.Errorf("lifecycle reconcile (launch): %w", err)
		}
	}
	e.clk.Step(40 * time.Second)
	node := &corev1.Node{
		ObjectMeta: metav1.ObjectMeta{Name: "node-" + nc.Name, UID: types.UID("uid-node-" + nc.Name), CreationTimestamp: metav1.NewTime(e.clk.Now()), Labels: map[string]string{}},
		Spec:       corev1.NodeSpec{ProviderID: "fake://" + nc.Name, Taints: []corev1.Taint{v1.UnregisteredNoExecuteTaint}},
	}
	if err := e.c.Create(e.ctx, node); err != nil {
		return fmt.Errorf("harness: create node: %w", err)
	}
	if _, err := e.reconcileClaim(nc.Name); err != nil {
		return fmt.Errorf("lifecycle reconcile (registration): %w", err)
	}
	if reg, del := e.claimState(nc.Name); !reg || del {
		e.anoms = append(e.anoms, fmt.Sprintf("%d:not-registered", step))
	}
	return nil
}

// failure: launch (or a failing launch), then nothing until the controller's own timeout; the liveness step gives up
func (e *poolEnv) failure(step int, pool string, owner types.UID, launchFails bool, late bool) error {
	nc, err := e.newClaim(pool, owner, launchFails)
	if err != nil {
		return err
	}
	after, err := e.reconcileClaim(nc.Name)
	if err != nil && !launchFails {
		return fmt.Errorf("lifecycle reconcile (launch): %w", err)
	}
	if reg, del := e.claimState(nc.Name); reg || del {
		e.anoms = append(e.anoms, fmt.Sprintf("%d:early", step))
	}
	switch {
	case late:
		// nobody looks at the NodeClaim for a long time (longer than every timeout of the lifecycle controller)
		e.clk.Step(6 * time.Hour)
	case launchFails:
		// the reconcile returned the launch error: controller-runtime retries with back-off until the launch timeout
		e.clk.Step(lifecycle.LaunchTimeout)
	case after > 0:
		e.clk.Step(after) // the controller's own requeue for the registration timeout
	default:
		e.anoms = append(e.anoms, fmt.Sprintf("%d:no-requeue", step))
		e.clk.Step(time.Hour)
	}
	if _, err := e.reconcileClaim(nc.Name); err != nil && !launchFails {
		return fmt.Errorf("lifecycle reconcile (liveness): %w", err)
	}
	if reg, del := e.claimState(nc.Name); reg || !del {
		e.anoms = append(e.anoms, fmt.Sprintf("%d:not-deleted", step))
	}
	return nil
}

func (e *poolEnv) bumpNodePool(pool string) error {
	np := &v1.NodePool{}
	if err := e.c.Get(e.ctx, client.ObjectKey{Name: poolNames[pool]}, np); err != nil {
		return err
	}
	np.Generation++
	np.Spec.Template.Labels = map[string]string{"edit": fmt.Sprint(np.Generation)}
	return e.c.Update(e.ctx, np)
}

func (e *poolEnv) bumpNodeClass() error {
	nc := &v1alpha1.TestNodeClass{}
	if err := e.c.Get(e.ctx, client.ObjectKey{Name: "default"}, nc); err != nil {
		return err
	}
	nc.Generation++
	return e.c.Update(e.ctx, nc)
}

func (e *poolEnv) observe(pool string) ([]int, error) {
	np := &v1.NodePool{}
	if err := e.c.Get(e.ctx, client.ObjectKey{Name: poolNames[pool]}, np); err != nil {
		return nil, fmt.Errorf("harness: get nodepool: %w", err)
	}
	cond := 3
	for _, c := range np.Status.Conditions {
		if c.Type == v1.ConditionTypeNodeRegistrationHealthy {
			switch c.Status {
			case metav1.ConditionTrue:
				cond = 1
			case metav1.ConditionFalse:
				cond = 2
			default:
				cond = 0
			}
		}
	}
	uid := poolUID(pool)
	return []int{cond, int(e.st.Status(uid)), int(e.st.DryRun(uid, true).Status()), int(e.st.DryRun(uid, false).Status())}, nil
}

func (e *poolEnv) step(i int, ev string) error {
	e.clk.Step(7 * time.Second)
	switch ev {
	case "Sa", "Sb":
		p := strings.ToLower(ev[1:])
		return e.success(i, p, poolUID(p))
	case "Fa", "Fb":
		p := strings.ToLower(ev[1:])
		return e.failure(i, p, poolUID(p), false, false)
	case "La", "Lb":
		p := strings.ToLower(ev[1:])
		return e.failure(i, p, poolUID(p), true, false)
	case "Za", "Zb":
		p := strings.ToLower(ev[1:])
		return e.failure(i, p, poolUID(p), true, true)
	case "Xs":
		return e.success(i, "a", "uid-pool-a-previous")
	case "Xf":
		return e.failure(i, "a", "uid-pool-a-previous", false, false)
	case "Pa", "Pb":
		p := strings.ToLower(ev[1:])
		if err := e.bumpNodePool(p); err != nil {
			return err
		}
		return e.reconcilePools(p)
	case "C":
		if err := e.bumpNodeClass(); err != nil {
			return err
		}
		return e.reconcilePools("a", "b")
	case "R":
		e.boot()
		return e.reconcilePools("a", "b")
	case "N":
		return e.reconcilePools("a", "b")
	}
	return fmt.Errorf("bad event %q", ev)
}

func implPool(raw json.RawMessage) (any, error) {
	var in PoolIn
	if err := json.Unmarshal(raw, &in); err != nil {
		return nil, err
	}
	for _, ev := range in.Steps {
		if !slices.Contains(poolEvents, ev) {
			return nil, fmt.Errorf("bad event %q", ev)
		}
	}
	e, err := newPoolEnv(in.Full)
	if err != nil {
		return nil, err
	}
	out := PoolOut{A: [][]int{}, B: [][]int{}, Anomalies: []string{}}
	obs := func() error {
		a, err := e.observe("a")
		if err != nil {
			return err
		}
		b, err := e.observe("b")
		if err != nil {
			return err
		}
		out.A, out.B = append(out.A, a), append(out.B, b)
		return nil
	}
	if err := obs(); err != nil {
		return nil, err
	}
	for i, ev := range in.Steps {
		if err := e.step(i, ev); err != nil {
			return nil, fmt.Errorf("step %d (%s): %w", i, ev, err)
		}
		if err := obs(); err != nil {
			return nil, err
		}
	}
	out.Anomalies = append(out.Anomalies, e.anoms...)
	return out, nil
}

// ---- generator ----

func genPool(r *rand.Rand, t core.Tier) any {
	maxLen := 30
	if t == core.Thorough {
		maxLen = 60
	}
	n := 1 + r.IntN(maxLen)
	// per-case failure rate: from "almost always registers" (isolated failures in a healthy pool) to "almost never"
	pFail := []float64{0.08, 0.2, 0.35, 0.5, 0.65, 0.85}[r.IntN(6)]
	// per-case rate of the rare events
	pRare := []float64{0.0, 0.08, 0.2, 0.4}[r.IntN(4)]
	// how much of the traffic belongs to pool a
	pA := []float64{1.0, 0.85, 0.6}[r.IntN(3)]
	steps := make([]string, 0, n)
	// a launch failure that is noticed late: in about 6% of the cases (known finding, see known_findings.json)
	lateAt := -1
	if r.IntN(16) == 0 {
		lateAt = r.IntN(n)
	}
	for i := 0; i < n; i++ {
		if i == lateAt {
			steps = append(steps, []string{"Za", "Za", "Zb"}[r.IntN(3)])
			continue
		}
		if r.Float64() < pRare {
			steps = append(steps, []string{"C", "C", "C", "Pa", "Pa", "Pb", "R", "R", "R", "N", "N", "Xs", "Xf"}[r.IntN(13)])
			continue
		}
		p := "a"
		if r.Float64() >= pA {
			p = "b"
		}
		switch {
		case r.Float64() >= pFail:
			steps = append(steps, "S"+p)
		case r.Float64() < 0.25:
			steps = append(steps, "L"+p)
		default:
			steps = append(steps, "F"+p)
		}
	}
	return PoolIn{Steps: steps, Full: r.IntN(3) == 0}
}

// quick: every script of length 6 over {Sa, Fa}, of length 5 over {Sa, Fa, C} and over {Sa, Fa, R}, and of length 3
// over {Sa, Fa, Pa, N, C, R}; thorough: every script of length 6 over {Sa, Fa, C, R} and of length 4 over
// {Sa, Fa, Pa, N, C, R}.  All prefixes are checked too, since every step is observed.  (The fake client serialises the
// API writes of all workers on one global lock, which bounds what the quick tier can afford.)
func enumPool(t core.Tier) []any {
	var out []any
	seen := map[string]bool{}
	var rec func(alpha []string, prefix []string, n int)
	rec = func(alpha []string, prefix []string, n int) {
		if len(prefix) == n {
			k := strings.Join(prefix, " ")
			if !seen[k] {
				seen[k] = true
				out = append(out, PoolIn{Steps: append([]string{}, prefix...)})
			}
			return
		}
		for _, a := range alpha {
			rec(alpha, append(prefix, a), n)
		}
	}
	if t == core.Thorough {
		rec([]string{"Sa", "Fa", "C", "R"}, nil, 6)
		rec([]string{"Sa", "Fa", "Pa", "N", "C", "R"}, nil, 4)
		return out
	}
	rec([]string{"Sa", "Fa"}, nil, 6)
	rec([]string{"Sa", "Fa", "C"}, nil, 5)
	rec([]string{"Sa", "Fa", "R"}, nil, 5)
	rec([]string{"Sa", "Fa", "Pa", "N", "C", "R"}, nil, 3)
	return out
}

// circumstances of pool a along the script, judged by a plain replay of the events (labels only — never used as an
// oracle): what the generator reached
func poolCircumstances(steps []string) map[string]bool {
	seen := map[string]bool{}
	var window []bool
	cond := 0 // 0 Unknown 1 True 2 False
	fails := func(w []bool) int {
		n := 0
		for _, v := range w {
			if !v {
				n++
			}
		}
		return n
	}
	push := func(v bool) {
		window = append(window, v)
		if len(window) > nodepoolhealth.BufferSize {
			window = window[1:]
			seen["window-wrapped"] = true
		}
	}
	for _, s := range steps {
		switch s {
		case "Sa":
			if cond == 1 {
				seen["success-while-True"] = true
			}
			if cond == 2 {
				seen["success-while-False"] = true
			}
			push(true)
			if 2*fails(window) < nodepoolhealth.BufferSize {
				if cond == 2 {
					seen["recovers-to-True"] = true
				}
				cond = 1
			}
		case "Fa", "La", "Za":
			if cond == 1 {
				seen["failure-while-True"] = true
			}
			push(false)
			if 2*fails(window) >= nodepoolhealth.BufferSize {
				if cond == 1 {
					seen["True-to-False"] = true
				}
				cond = 2
			} else if cond == 1 {
				seen["isolated-failure-stays-True"] = true
			}
		case "C", "Pa":
			if cond == 0 && len(window) > 0 {
				seen["reset-while-Unknown-with-outcomes"] = true
			}
			if cond != 0 {
				seen["reset-from-True/False"] = true
			}
			window, cond = nil, 0
		case "R":
			if cond == 0 && len(window) > 0 {
				seen["restart-while-Unknown-with-outcomes"] = true
			}
			switch cond {
			case 1:
				window = []bool{true}
			case 2:
				window = []bool{false, false}
			default:
				window = nil
			}
		}
	}
	return seen
}

func poolOp() *core.Op {
	return &core.Op{
		Name: "c20.pool",
		Doc:  "event scripts (registrations, registration/launch timeouts, NodePool/NodeClass edits, restarts, resyncs, foreign claims; two NodePools) through the real nodeclaim lifecycle controller and the real nodepool.registrationhealth controller on the fake client; persisted NodeRegistrationHealthy condition, tracker status and what-if verdicts after every event",
		N: func(t core.Tier) int {
			if t == core.Thorough {
				return 1000
			}
			return 400
		},
		Gen:            genPool,
		Enum:           enumPool,
		Impl:           implPool,
		ExhaustiveNote: "quick: every event script of length 6 over {Sa,Fa}, of length 5 over {Sa,Fa,C} and over {Sa,Fa,R}, of length 3 over {Sa,Fa,Pa,N,C,R}; thorough: length 6 over {Sa,Fa,C,R} and length 4 over {Sa,Fa,Pa,N,C,R}; every prefix is observed",
		Rule:           "random scripts (length 1..30 quick, 1..60 thorough; per-case failure rate 8%..85%, rare-event rate 0..40%, share of pool a 60..100%) + exhaustive short scripts; non-trivial = pool a's condition leaves Unknown at least once and at least one reset/restart/resync/foreign event occurs, or the window wraps",
		Nontrivial: func(raw json.RawMessage, _ any) bool {
			var in PoolIn
			json.Unmarshal(raw, &in)
			c := poolCircumstances(in.Steps)
			rare := false
			for _, s := range in.Steps {
				switch s {
				case "C", "Pa", "R", "N", "Xs", "Xf":
					rare = true
				}
			}
			left := c["success-while-True"] || c["failure-while-True"] || c["success-while-False"] || c["reset-from-True/False"] || c["True-to-False"]
			return c["window-wrapped"] || (rare && left)
		},
		Labels: func(raw json.RawMessage, _ any) []string {
			var in PoolIn
			json.Unmarshal(raw, &in)
			l := []string{fmt.Sprintf("len<=%d", ((len(in.Steps)/10)+1)*10), fmt.Sprintf("full=%v", in.Full)}
			evs := map[string]bool{}
			for _, s := range in.Steps {
				evs[s] = true
			}
			for s := range evs {
				l = append(l, "ev:"+s)
			}
			for c := range poolCircumstances(in.Steps) {
				l = append(l, c)
			}
			return l
		},
		Signature: func(raw json.RawMessage, _ any) string { return "pool" },
		Shrink: func(raw json.RawMessage) []any {
			var in PoolIn
			json.Unmarshal(raw, &in)
			var out []any
			for _, c := range core.ShrinkList(in.Steps) {
				out = append(out, PoolIn{Steps: c, Full: in.Full})
			}
			if in.Full {
				out = append(out, PoolIn{Steps: in.Steps})
			}
			return out
		},
	}
}
