package c20

// c20.pool — the NodeRegistrationHealthy condition as the REAL controllers maintain it.
//
// A script of cluster events is played against
//   - the real nodeclaim lifecycle controller (lifecycle.NewController(...).Reconcile: launch, registration,
//     initialization, liveness — the anchored Registration/Liveness.updateNodePoolRegistrationHealth run inside it),
//   - the real nodepool.registrationhealth controller (Reconcile: hydration after a restart, reset on a
//     NodePool/NodeClass generation change),
// sharing one nodepoolhealth.State, on the controller-runtime fake client with a fake clock.  After every event the
// persisted condition of both NodePools, the tracker status and both what-if verdicts are observed.
//
// The controllers talk to the API server through an interceptor that can make ONE NodePool call of an event fail
// (409 Conflict / 500 on the NodePool status patch, 500 on the NodePool Get of the lifecycle controller); the harness
// then does what controller-runtime does: it hands the same object to the controller again.  The controller may also
// get to look at a NodeClaim at odd times (long after every timeout, exactly when a timeout expires, several times).

import (
	"context"
	"encoding/json"
	"errors"
	"fmt"
	"math/rand/v2"
	"slices"
	"strings"
	"time"

	"github.com/awslabs/operatorpkg/status"
	"github.com/go-logr/logr"
	corev1 "k8s.io/api/core/v1"
	apierrors "k8s.io/apimachinery/pkg/api/errors"
	metav1 "k8s.io/apimachinery/pkg/apis/meta/v1"
	"k8s.io/apimachinery/pkg/runtime"
	"k8s.io/apimachinery/pkg/runtime/schema"
	"k8s.io/apimachinery/pkg/types"
	"k8s.io/apimachinery/pkg/util/managedfields"
	clientgoapplyconfigurations "k8s.io/client-go/applyconfigurations"
	"k8s.io/client-go/kubernetes/scheme"
	clocktesting "k8s.io/utils/clock/testing"
	"sigs.k8s.io/controller-runtime/pkg/client"
	"sigs.k8s.io/controller-runtime/pkg/client/fake"
	"sigs.k8s.io/controller-runtime/pkg/client/interceptor"
	crlog "sigs.k8s.io/controller-runtime/pkg/log"

	_ "sigs.k8s.io/karpenter/pkg/apis"
	v1 "sigs.k8s.io/karpenter/pkg/apis/v1"
	fakecp "sigs.k8s.io/karpenter/pkg/cloudprovider/fake"
	"sigs.k8s.io/karpenter/pkg/controllers/nodeclaim/lifecycle"
	"sigs.k8s.io/karpenter/pkg/controllers/nodepool/readiness"
	"sigs.k8s.io/karpenter/pkg/controllers/nodepool/registrationhealth"
	"sigs.k8s.io/karpenter/pkg/operator/options"
	"sigs.k8s.io/karpenter/pkg/state/nodepoolhealth"
	"sigs.k8s.io/karpenter/pkg/test"
	"sigs.k8s.io/karpenter/pkg/test/v1alpha1"

	"verifharness/internal/core"
)

func init() {
	// controller-runtime prints a warning + stack trace if no logger is ever set
	crlog.SetLogger(logr.Discard())
}

// Events (one string per step).  Pools: "a" and "b"; both reference the one TestNodeClass "default".
//
//	Sa Sb  a NodeClaim of the pool is launched and its Node registers           (success)
//	Ta Tb  a NodeClaim of the pool is launched and its Node joins, but the controller gets to look at the NodeClaim only
//	       long after the registration timeout (it was not running / its queue was backed up)       (ONE success)
//	Ea Eb  as Ta, but the controller looks exactly when its own requeue for the registration timeout fires (the Node
//	       joined in between and the reconcile its event triggers had not run yet)                   (ONE success)
//	Wa Wb  the controller looks at the NodeClaim twice before the Node joins, registers it, and looks at it twice more
//	       afterwards (node updates, initialization)                                                 (ONE success)
//	Fa Fb  a NodeClaim of the pool is launched, no Node ever shows up; the registration timeout passes (failure)
//	Ga Gb  as Fa, but the controller gets to look at the NodeClaim again only long after the timeout (ONE failure)
//	La Lb  the cloud provider cannot create the instance; the launch timeout passes                     (failure)
//	Za Zb  the cloud provider cannot create the instance and the controller gets to look at the NodeClaim again only
//	       after the registration timeout has passed as well (it was not running in between)  (ONE failed attempt)
//	Xs Xf  a NodeClaim that carries pool a's NAME but is owned by an earlier NodePool object of that name
//	       (other UID) registers / times out: not an attempt of either pool
//	Pa Pb  the NodePool spec is edited (generation bump), the registrationhealth controller reconciles it (reset)
//	C      the NodeClass is edited (generation bump); both NodePools are reconciled, as the NodeClass watch does (reset)
//	D      the NodeClass is deleted (both NodePools are reconciled while it is gone: nothing to do) and re-created under
//	       the same name - a fresh object whose metadata.generation is 1 again, i.e. LOWER than the generation the
//	       NodePools observed if the old object had ever been edited; both NodePools are reconciled (reset iff the
//	       generation differs from the observed one)
//	Y0..Y3 the NodeClass's readiness flips and nodepool.readiness - another writer of the NodePool's status - reconciles
//	       both NodePools, working from the copy of each NodePool as it was 0..3 events ago (informer lag: the copy
//	       may predate a NodeRegistrationHealthy transition); after a 409 it is handed the current object, as
//	       controller-runtime does.  Not this condition's business: nothing may change.
//	R      karpenter restarts: all in-memory state is lost, both NodePools are reconciled (re-hydration)
//	N      both NodePools are reconciled although nothing changed (resync)
//
// An event may carry ONE fault modifier: the first NodePool call of that kind which a controller issues while it
// decides the event fails once, and the controller is handed the object again (as controller-runtime does after a
// requeue / an error):
//
//	!  the NodePool status patch answers 409 Conflict (optimistic lock: someone else wrote the NodePool in between)
//	?  the NodePool status patch answers 500
//	~  the NodePool Get of the lifecycle controller answers 500            (launch outcomes and Xs/Xf only)
//
// A launch attempt is ONE outcome whatever the API server did in between.
var poolEvents = func() []string {
	var out []string
	for _, k := range []string{"S", "T", "E", "W", "F", "G", "L", "Z"} {
		out = append(out, k+"a", k+"b")
	}
	return append(out, "Xs", "Xf", "Pa", "Pb", "C", "D", "Y0", "Y1", "Y2", "Y3", "R", "N")
}()

const (
	faultNone     = 0
	faultConflict = 1 // '!'
	faultPatch500 = 2 // '?'
	faultGet500   = 3 // '~'
)

// splitEvent parses "Sa!", "C?", "Xs~", "R" into the base event and the fault; ok = false for anything else
func splitEvent(s string) (base string, fault int, ok bool) {
	base = s
	if n := len(s); n > 0 {
		switch s[n-1] {
		case '!':
			base, fault = s[:n-1], faultConflict
		case '?':
			base, fault = s[:n-1], faultPatch500
		case '~':
			base, fault = s[:n-1], faultGet500
		}
	}
	if !slices.Contains(poolEvents, base) {
		return "", 0, false
	}
	switch base {
	case "R", "N", "Y0", "Y1", "Y2", "Y3":
		// these reconciles never write the NodePool in the scripts' world (Y: no injected fault, the conflicts are real): no modifier
		if fault != faultNone {
			return "", 0, false
		}
	case "Pa", "Pb", "C", "D":
		// the registrationhealth controller is handed the NodePool; it does not Get it
		if fault == faultGet500 {
			return "", 0, false
		}
	}
	return base, fault, true
}

type PoolIn struct {
	Steps []string `json:"steps"`
	// Full: every NodeClaim starts as the provisioner creates it (no finalizer, no status) and goes through the
	// launch step of the lifecycle controller first.  Otherwise the NodeClaim is created as that first reconcile
	// leaves it (finalizer, provider id, Launched, Registered=Unknown/NodeNotFound) and handed to the controller from
	// there — same registration / liveness code, fewer API writes (the fake client serialises all writes of all
	// workers on a global lock, so the exhaustive part uses this mode).
	Full bool `json:"full"`
}

// one observation = [condition, tracker status, what-if(success) status, what-if(failure) status]
// condition: 0 Unknown, 1 True, 2 False, 3 absent; status: nodepoolhealth.Status (0 Unknown, 1 Healthy, 2 Unhealthy)
type PoolOut struct {
	A [][]int `json:"a"` // pool a: index 0 = after the NodePool's first reconcile, then one entry per step
	B [][]int `json:"b"`
	// steps where the environment did not do what the event stands for (claim not registered / not deleted)
	Anomalies []string `json:"anomalies"`
}

// ---- fake API server ----

// only the kinds the controllers touch: the fake client rebuilds a REST mapper from its scheme on every Patch,
// which dominates the run time with the full client-go scheme
var poolScheme = func() *runtime.Scheme {
	s := runtime.NewScheme()
	cgv := schema.GroupVersion{Group: "", Version: "v1"}
	s.AddKnownTypes(cgv, &corev1.Node{}, &corev1.NodeList{})
	metav1.AddToGroupVersion(s, cgv)
	gv := schema.GroupVersion{Group: "karpenter.sh", Version: "v1"}
	s.AddKnownTypes(gv, &v1.NodePool{}, &v1.NodePoolList{}, &v1.NodeClaim{}, &v1.NodeClaimList{})
	metav1.AddToGroupVersion(s, gv)
	tgv := schema.GroupVersion{Group: v1alpha1.Group, Version: "v1alpha1"}
	s.AddKnownTypes(tgv, &v1alpha1.TestNodeClass{}, &v1alpha1.TestNodeClassList{})
	metav1.AddToGroupVersion(s, tgv)
	return s
}()

var poolTypeConverters = func() []managedfields.TypeConverter {
	cgs := runtime.NewScheme()
	if err := scheme.AddToScheme(cgs); err != nil {
		panic(err)
	}
	return []managedfields.TypeConverter{clientgoapplyconfigurations.NewTypeConverter(cgs), managedfields.NewDeducedTypeConverter()}
}()

// scripted cloud provider: Create succeeds with a provider id derived from the claim's name, or fails for the
// claims listed in failing (every attempt, as an instance type that is never available would)
type poolProvider struct {
	*fakecp.CloudProvider
	failing map[string]bool
}

func (p *poolProvider) Create(_ context.Context, nc *v1.NodeClaim) (*v1.NodeClaim, error) {
	if p.failing[nc.Name] {
		return nil, errors.New("injected create failure")
	}
	out := nc.DeepCopy()
	out.Status.ProviderID = "fake://" + nc.Name
	return out, nil
}

var poolT0 = time.Date(2026, 1, 1, 0, 0, 0, 0, time.UTC)

type poolEnv struct {
	ctx   context.Context
	clk   *clocktesting.FakeClock
	c     client.Client // the API server as the harness sees it (never fails)
	api   client.Client // the API server as the controllers see it (interceptor: one-shot NodePool faults)
	fault int           // armed fault (fault* constants); disarmed when it fires and at the end of the event
	fired int           // number of injected failures so far
	cp    *poolProvider
	st    *nodepoolhealth.State
	life  *lifecycle.Controller
	rh    *registrationhealth.Controller
	ready *readiness.Controller
	// snaps[k] = both NodePools as stored at the start of step k (what a lagging informer cache may still hold later);
	// taken only at the steps a later Y event of the script reaches back to (snapNeed)
	snaps    map[int]map[string]*v1.NodePool
	snapNeed map[int]bool
	// number of NodeClass objects created so far under the name "default" / next readiness to report
	classes  int
	notReady bool
	n        int
	full     bool
	anoms    []string
}

var poolNames = map[string]string{"a": "pool-a", "b": "pool-b"}

func poolUID(p string) types.UID { return types.UID("uid-pool-" + p) }

func nodeClassRef() *v1.NodeClassReference {
	return &v1.NodeClassReference{Group: v1alpha1.Group, Kind: "TestNodeClass", Name: "default"}
}

func newPoolEnv(full bool) (*poolEnv, error) {
	e := &poolEnv{
		ctx:  options.ToContext(context.Background(), test.Options()),
		clk:  clocktesting.NewFakeClock(poolT0),
		full: full,
	}
	nodeClass := &v1alpha1.TestNodeClass{ObjectMeta: metav1.ObjectMeta{Name: "default", UID: "uid-nodeclass", Generation: 1, CreationTimestamp: metav1.NewTime(poolT0)}}
	objs := []client.Object{nodeClass}
	for _, p := range []string{"a", "b"} {
		np := &v1.NodePool{ObjectMeta: metav1.ObjectMeta{Name: poolNames[p], UID: poolUID(p), Generation: 1, CreationTimestamp: metav1.NewTime(poolT0)}}
		np.Spec.Template.Spec.NodeClassRef = nodeClassRef()
		objs = append(objs, np)
	}
	e.c = fake.NewClientBuilder().
		WithScheme(poolScheme).
		WithTypeConverters(poolTypeConverters...).
		WithObjects(objs...).
		WithStatusSubresource(&v1.NodeClaim{}, &v1.NodePool{}).
		WithIndex(&corev1.Node{}, "spec.providerID", func(o client.Object) []string { return []string{o.(*corev1.Node).Spec.ProviderID} }).
		WithIndex(&v1.NodeClaim{}, "status.providerID", func(o client.Object) []string { return []string{o.(*v1.NodeClaim).Status.ProviderID} }).
		Build()
	e.api = interceptor.NewClient(e.c.(client.WithWatch), interceptor.Funcs{
		Get: func(ctx context.Context, c client.WithWatch, key client.ObjectKey, obj client.Object, opts ...client.GetOption) error {
			if _, ok := obj.(*v1.NodePool); ok && e.fault == faultGet500 {
				e.fault, e.fired = faultNone, e.fired+1
				return apierrors.NewInternalError(errors.New("injected: nodepool get"))
			}
			return c.Get(ctx, key, obj, opts...)
		},
		SubResourcePatch: func(ctx context.Context, c client.Client, sub string, obj client.Object, patch client.Patch, opts ...client.SubResourcePatchOption) error {
			if _, ok := obj.(*v1.NodePool); ok && sub == "status" && (e.fault == faultConflict || e.fault == faultPatch500) {
				f := e.fault
				e.fault, e.fired = faultNone, e.fired+1
				if f == faultConflict {
					return apierrors.NewConflict(schema.GroupResource{Group: "karpenter.sh", Resource: "nodepools"}, obj.GetName(), errors.New("the object has been modified; please apply your changes to the latest version and try again"))
				}
				return apierrors.NewInternalError(errors.New("injected: nodepool status patch"))
			}
			return c.SubResource(sub).Patch(ctx, obj, patch, opts...)
		},
	})
	e.cp = &poolProvider{CloudProvider: fakecp.NewCloudProvider(), failing: map[string]bool{}}
	e.boot()
	// a NodePool is reconciled by the registrationhealth controller as soon as it exists
	if err := e.reconcilePools(faultNone, "a", "b"); err != nil {
		return nil, err
	}
	return e, nil
}

// boot = process start: fresh in-memory state, fresh controllers
func (e *poolEnv) boot() {
	e.st = nodepoolhealth.NewState()
	e.life = lifecycle.NewController(e.clk, e.api, e.cp, test.NewEventRecorder(), e.st, nil)
	e.rh = registrationhealth.NewController(e.clk, e.api, e.cp, e.st)
	e.ready = readiness.NewController(e.clk, e.api, e.cp)
}

// reconcilePools hands the stored NodePools to the registrationhealth controller, as controller-runtime would: again
// after a requeue / an error (only an injected fault can cause one here)
func (e *poolEnv) reconcilePools(fault int, pools ...string) error {
	e.fault = fault
	defer func() { e.fault = faultNone }()
	for _, p := range pools {
		for try := 0; ; try++ {
			np := &v1.NodePool{}
			if err := e.c.Get(e.ctx, client.ObjectKey{Name: poolNames[p]}, np); err != nil {
				return fmt.Errorf("harness: get nodepool: %w", err)
			}
			fired := e.fired
			res, err := e.rh.Reconcile(e.ctx, np)
			if err != nil && e.fired == fired {
				return fmt.Errorf("registrationhealth reconcile: %w", err)
			}
			//nolint:staticcheck
			if !(err != nil || res.Requeue || e.fired > fired) {
				break
			}
			if try == 3 {
				return errors.New("registrationhealth reconcile: still asking for a retry after 4 passes")
			}
		}
	}
	return nil
}

// newClaim creates the NodeClaim the provisioner would create for the pool (label + controller owner reference)
func (e *poolEnv) newClaim(pool string, ownerUID types.UID, createFails bool) (*v1.NodeClaim, error) {
	e.n++
	nc := &v1.NodeClaim{
		ObjectMeta: metav1.ObjectMeta{
			Name: fmt.Sprintf("nc-%d", e.n), UID: types.UID(fmt.Sprintf("uid-nc-%d", e.n)), Generation: 1,
			CreationTimestamp: metav1.NewTime(e.clk.Now()),
			Labels:            map[string]string{v1.NodePoolLabelKey: poolNames[pool]},
			OwnerReferences:   []metav1.OwnerReference{{APIVersion: "karpenter.sh/v1", Kind: "NodePool", Name: poolNames[pool], UID: ownerUID, BlockOwnerDeletion: new(true)}},
		},
		Spec: v1.NodeClaimSpec{NodeClassRef: nodeClassRef(), Requirements: []v1.NodeSelectorRequirementWithMinValues{}},
	}
	if createFails {
		e.cp.failing[nc.Name] = true
	}
	if !e.full {
		// the NodeClaim as the first pass of the lifecycle controller leaves it
		nc.Finalizers = []string{v1.TerminationFinalizer}
		cs := nc.StatusConditions(status.WithClock(e.clk))
		if createFails {
			cs.SetUnknownWithReason(v1.ConditionTypeLaunched, "LaunchFailed", "launching nodeclaim, injected create failure")
		} else {
			nc.Status.ProviderID = "fake://" + nc.Name
			cs.SetTrue(v1.ConditionTypeLaunched)
		}
		cs.SetUnknownWithReason(v1.ConditionTypeRegistered, "NodeNotFound", "Node not registered with cluster")
	}
	if err := e.c.Create(e.ctx, nc); err != nil {
		return nil, fmt.Errorf("harness: create nodeclaim: %w", err)
	}
	return nc, nil
}

// reconcileClaim hands the stored NodeClaim to the lifecycle controller once
func (e *poolEnv) reconcileClaim(name string) (time.Duration, error) {
	nc := &v1.NodeClaim{}
	if err := e.c.Get(e.ctx, client.ObjectKey{Name: name}, nc); err != nil {
		return 0, fmt.Errorf("harness: get nodeclaim: %w", err)
	}
	res, err := e.life.Reconcile(e.ctx, nc)
	return res.RequeueAfter, err
}

// decide = the reconcile that is expected to settle the NodeClaim's fate, with the event's fault armed.  As
// controller-runtime does, the NodeClaim is handed to the controller again when the pass asked for an immediate requeue
// or returned an error (a NodeClaim that is gone or terminating is no longer this controller's business here:
// finalization does not touch the NodePool).  tolerate: the pass is expected to return an error anyway (the launch
// keeps failing).
func (e *poolEnv) decide(name string, fault int, tolerate bool) error {
	e.fault = fault
	defer func() { e.fault = faultNone }()
	for try := 0; ; try++ {
		nc := &v1.NodeClaim{}
		if err := e.c.Get(e.ctx, client.ObjectKey{Name: name}, nc); err != nil {
			if apierrors.IsNotFound(err) {
				return nil
			}
			return fmt.Errorf("harness: get nodeclaim: %w", err)
		}
		if try > 0 && !nc.DeletionTimestamp.IsZero() {
			return nil
		}
		fired := e.fired
		res, err := e.life.Reconcile(e.ctx, nc)
		if err != nil && e.fired == fired && !tolerate {
			return fmt.Errorf("lifecycle reconcile: %w", err)
		}
		//nolint:staticcheck
		if !(err != nil || res.Requeue || e.fired > fired) {
			return nil
		}
		if try == 3 {
			if tolerate {
				return nil
			}
			return errors.New("lifecycle reconcile: still asking for a retry after 4 passes")
		}
	}
}

func (e *poolEnv) claimState(name string) (registered bool, deleting bool) {
	nc := &v1.NodeClaim{}
	if err := e.c.Get(e.ctx, client.ObjectKey{Name: name}, nc); err != nil {
		return false, true
	}
	for _, c := range nc.Status.Conditions {
		if c.Type == v1.ConditionTypeRegistered && c.Status == metav1.ConditionTrue {
			registered = true
		}
	}
	return registered, !nc.DeletionTimestamp.IsZero()
}

func (e *poolEnv) createNode(nc *v1.NodeClaim) error {
	node := &corev1.Node{
		ObjectMeta: metav1.ObjectMeta{Name: "node-" + nc.Name, UID: types.UID("uid-node-" + nc.Name), CreationTimestamp: metav1.NewTime(e.clk.Now()), Labels: map[string]string{}},
		Spec:       corev1.NodeSpec{ProviderID: "fake://" + nc.Name, Taints: []corev1.Taint{v1.UnregisteredNoExecuteTaint}},
	}
	if err := e.c.Create(e.ctx, node); err != nil {
		return fmt.Errorf("harness: create node: %w", err)
	}
	return nil
}

// longAfter is longer than every timeout of the lifecycle controller
const longAfter = 6 * time.Hour

// success: launch, then the kubelet's Node shows up with the unregistered taint and the controller registers it.
// when: "S" the controller looks 40s after the launch; "T" only long after every timeout; "E" exactly when its own
// requeue for the registration timeout fires; "W" twice before the Node joins and twice more after registering it.
func (e *poolEnv) success(step int, pool string, owner types.UID, when string, fault int) error {
	nc, err := e.newClaim(pool, owner, false)
	if err != nil {
		return err
	}
	var after time.Duration
	if e.full || when == "E" || when == "W" {
		if after, err = e.reconcileClaim(nc.Name); err != nil {
			return fmt.Errorf("lifecycle reconcile (launch): %w", err)
		}
	}
	if when == "W" {
		e.clk.Step(20 * time.Second)
		if _, err := e.reconcileClaim(nc.Name); err != nil {
			return fmt.Errorf("lifecycle reconcile (waiting): %w", err)
		}
		if reg, del := e.claimState(nc.Name); reg || del {
			e.anoms = append(e.anoms, fmt.Sprintf("%d:early", step))
		}
	}
	e.clk.Step(40 * time.Second)
	if err := e.createNode(nc); err != nil {
		return err
	}
	switch when {
	case "T":
		e.clk.Step(longAfter)
	case "E":
		if after <= 40*time.Second {
			e.anoms = append(e.anoms, fmt.Sprintf("%d:no-requeue", step))
		} else {
			e.clk.Step(after - 40*time.Second)
		}
	}
	if err := e.decide(nc.Name, fault, false); err != nil {
		return fmt.Errorf("registration: %w", err)
	}
	if when == "W" {
		for i := 0; i < 2; i++ {
			e.clk.Step(5 * time.Second)
			if _, err := e.reconcileClaim(nc.Name); err != nil {
				return fmt.Errorf("lifecycle reconcile (registered): %w", err)
			}
		}
	}
	if reg, del := e.claimState(nc.Name); !reg || del {
		e.anoms = append(e.anoms, fmt.Sprintf("%d:not-registered", step))
	}
	return nil
}

// failure: launch (or a failing launch), then nothing until the controller's own timeout; the liveness step gives up
func (e *poolEnv) failure(step int, pool string, owner types.UID, launchFails bool, late bool, fault int) error {
	nc, err := e.newClaim(pool, owner, launchFails)
	if err != nil {
		return err
	}
	after, err := e.reconcileClaim(nc.Name)
	if err != nil && !launchFails {
		return fmt.Errorf("lifecycle reconcile (launch): %w", err)
	}
	if reg, del := e.claimState(nc.Name); reg || del {
		e.anoms = append(e.anoms, fmt.Sprintf("%d:early", step))
	}
	switch {
	case late:
		// nobody looks at the NodeClaim for a long time (longer than every timeout of the lifecycle controller)
		e.clk.Step(longAfter)
	case launchFails:
		// the reconcile returned the launch error: controller-runtime retries with back-off until the launch timeout
		e.clk.Step(lifecycle.LaunchTimeout)
	case after > 0:
		e.clk.Step(after) // the controller's own requeue for the registration timeout
	default:
		e.anoms = append(e.anoms, fmt.Sprintf("%d:no-requeue", step))
		e.clk.Step(time.Hour)
	}
	if err := e.decide(nc.Name, fault, launchFails); err != nil {
		return fmt.Errorf("liveness: %w", err)
	}
	if reg, del := e.claimState(nc.Name); reg || !del {
		e.anoms = append(e.anoms, fmt.Sprintf("%d:not-deleted", step))
	}
	return nil
}

func (e *poolEnv) bumpNodePool(pool string) error {
	np := &v1.NodePool{}
	if err := e.c.Get(e.ctx, client.ObjectKey{Name: poolNames[pool]}, np); err != nil {
		return err
	}
	np.Generation++
	np.Spec.Template.Labels = map[string]string{"edit": fmt.Sprint(np.Generation)}
	return e.c.Update(e.ctx, np)
}

func (e *poolEnv) bumpNodeClass() error {
	nc := &v1alpha1.TestNodeClass{}
	if err := e.c.Get(e.ctx, client.ObjectKey{Name: "default"}, nc); err != nil {
		return err
	}
	nc.Generation++
	return e.c.Update(e.ctx, nc)
}

// replaceNodeClass deletes the NodeClass, lets the registrationhealth controller see both NodePools while it is gone,
// and re-creates it under the same name: a fresh object (new UID, generation 1)
func (e *poolEnv) replaceNodeClass() error {
	nc := &v1alpha1.TestNodeClass{}
	if err := e.c.Get(e.ctx, client.ObjectKey{Name: "default"}, nc); err != nil {
		return err
	}
	if err := e.c.Delete(e.ctx, nc); err != nil {
		return err
	}
	if err := e.reconcilePools(faultNone, "a", "b"); err != nil {
		return fmt.Errorf("while the NodeClass is gone: %w", err)
	}
	e.classes++
	fresh := &v1alpha1.TestNodeClass{ObjectMeta: metav1.ObjectMeta{Name: "default", UID: types.UID(fmt.Sprintf("uid-nodeclass-%d", e.classes)), Generation: 1, CreationTimestamp: metav1.NewTime(e.clk.Now())}}
	return e.c.Create(e.ctx, fresh)
}

// snapshot remembers both NodePools as they are stored now
func (e *poolEnv) snapshot(step int) error {
	if !e.snapNeed[step] {
		return nil
	}
	m := map[string]*v1.NodePool{}
	for _, p := range []string{"a", "b"} {
		np := &v1.NodePool{}
		if err := e.c.Get(e.ctx, client.ObjectKey{Name: poolNames[p]}, np); err != nil {
			return fmt.Errorf("harness: get nodepool: %w", err)
		}
		m[p] = np
	}
	if e.snaps == nil {
		e.snaps = map[int]map[string]*v1.NodePool{}
	}
	e.snaps[step] = m
	return nil
}

// readinessWrites: the NodeClass's Ready condition flips, and nodepool.readiness (woken up by the NodeClass watch)
// reconciles both NodePools from the copy its cache held `lag` events ago; when it asks for a requeue (409 on its
// optimistic-lock patch) or fails it is handed the current object.  It must have written NodeClassReady in the end.
func (e *poolEnv) readinessWrites(step int, lag int) error {
	nc := &v1alpha1.TestNodeClass{}
	if err := e.c.Get(e.ctx, client.ObjectKey{Name: "default"}, nc); err != nil {
		return err
	}
	e.notReady = !e.notReady
	if e.notReady {
		nc.StatusConditions(status.WithClock(e.clk)).SetFalse(status.ConditionReady, "Broken", "the NodeClass cannot be resolved")
	} else {
		nc.StatusConditions(status.WithClock(e.clk)).SetTrue(status.ConditionReady)
	}
	if err := e.c.Update(e.ctx, nc); err != nil {
		return fmt.Errorf("harness: update nodeclass status: %w", err)
	}
	idx := max(step-lag, 0)
	if e.snaps[idx] == nil {
		return fmt.Errorf("harness: no snapshot of step %d", idx)
	}
	for _, p := range []string{"a", "b"} {
		// first the lagging copy; then - the cache catches up, which is an event on the NodePool - the current object,
		// again after every requeue / error
		np := e.snaps[idx][p].DeepCopy()
		for try := 0; ; try++ {
			res, err := e.ready.Reconcile(e.ctx, np)
			//nolint:staticcheck
			if try > 0 && err == nil && !res.Requeue {
				break
			}
			if try == 4 {
				return fmt.Errorf("nodepool.readiness: still asking for a retry after 5 passes (%v)", err)
			}
			np = &v1.NodePool{}
			if err := e.c.Get(e.ctx, client.ObjectKey{Name: poolNames[p]}, np); err != nil {
				return fmt.Errorf("harness: get nodepool: %w", err)
			}
		}
		cur := &v1.NodePool{}
		if err := e.c.Get(e.ctx, client.ObjectKey{Name: poolNames[p]}, cur); err != nil {
			return fmt.Errorf("harness: get nodepool: %w", err)
		}
		want := metav1.ConditionTrue
		if e.notReady {
			want = metav1.ConditionFalse
		}
		wrote := false
		for _, c := range cur.Status.Conditions {
			if c.Type == v1.ConditionTypeNodeClassReady && c.Status == want {
				wrote = true
			}
		}
		if !wrote {
			e.anoms = append(e.anoms, fmt.Sprintf("%d:readiness-not-written", step))
		}
	}
	return nil
}

func (e *poolEnv) observe(pool string) ([]int, error) {
	np := &v1.NodePool{}
	if err := e.c.Get(e.ctx, client.ObjectKey{Name: poolNames[pool]}, np); err != nil {
		return nil, fmt.Errorf("harness: get nodepool: %w", err)
	}
	cond := 3
	for _, c := range np.Status.Conditions {
		if c.Type == v1.ConditionTypeNodeRegistrationHealthy {
			switch c.Status {
			case metav1.ConditionTrue:
				cond = 1
			case metav1.ConditionFalse:
				cond = 2
			default:
				cond = 0
			}
		}
	}
	uid := poolUID(pool)
	return []int{cond, int(e.st.Status(uid)), int(e.st.DryRun(uid, true).Status()), int(e.st.DryRun(uid, false).Status())}, nil
}

func (e *poolEnv) step(i int, ev string) error {
	base, fault, ok := splitEvent(ev)
	if !ok {
		return fmt.Errorf("bad event %q", ev)
	}
	e.clk.Step(7 * time.Second)
	if err := e.snapshot(i); err != nil {
		return err
	}
	switch base {
	case "Sa", "Sb", "Ta", "Tb", "Ea", "Eb", "Wa", "Wb":
		p := base[1:]
		return e.success(i, p, poolUID(p), base[:1], fault)
	case "Fa", "Fb":
		p := base[1:]
		return e.failure(i, p, poolUID(p), false, false, fault)
	case "Ga", "Gb":
		p := base[1:]
		return e.failure(i, p, poolUID(p), false, true, fault)
	case "La", "Lb":
		p := base[1:]
		return e.failure(i, p, poolUID(p), true, false, fault)
	case "Za", "Zb":
		p := base[1:]
		return e.failure(i, p, poolUID(p), true, true, fault)
	case "Xs":
		return e.success(i, "a", "uid-pool-a-previous", "S", fault)
	case "Xf":
		return e.failure(i, "a", "uid-pool-a-previous", false, false, fault)
	case "Pa", "Pb":
		p := base[1:]
		if err := e.bumpNodePool(p); err != nil {
			return err
		}
		return e.reconcilePools(fault, p)
	case "C":
		if err := e.bumpNodeClass(); err != nil {
			return err
		}
		return e.reconcilePools(fault, "a", "b")
	case "D":
		if err := e.replaceNodeClass(); err != nil {
			return err
		}
		return e.reconcilePools(fault, "a", "b")
	case "Y0", "Y1", "Y2", "Y3":
		return e.readinessWrites(i, int(base[1]-'0'))
	case "R":
		e.boot()
		return e.reconcilePools(faultNone, "a", "b")
	case "N":
		return e.reconcilePools(faultNone, "a", "b")
	}
	return fmt.Errorf("bad event %q", ev)
}

func implPool(raw json.RawMessage) (any, error) {
	var in PoolIn
	if err := json.Unmarshal(raw, &in); err != nil {
		return nil, err
	}
	for _, ev := range in.Steps {
		if _, _, ok := splitEvent(ev); !ok {
			return nil, fmt.Errorf("bad event %q", ev)
		}
	}
	e, err := newPoolEnv(in.Full)
	if err != nil {
		return nil, err
	}
	e.snapNeed = map[int]bool{}
	for i, ev := range in.Steps {
		if len(ev) == 2 && ev[0] == 'Y' {
			e.snapNeed[max(i-int(ev[1]-'0'), 0)] = true
		}
	}
	out := PoolOut{A: [][]int{}, B: [][]int{}, Anomalies: []string{}}
	obs := func() error {
		a, err := e.observe("a")
		if err != nil {
			return err
		}
		b, err := e.observe("b")
		if err != nil {
			return err
		}
		out.A, out.B = append(out.A, a), append(out.B, b)
		return nil
	}
	if err := obs(); err != nil {
		return nil, err
	}
	for i, ev := range in.Steps {
		if err := e.step(i, ev); err != nil {
			return nil, fmt.Errorf("step %d (%s): %w", i, ev, err)
		}
		if err := obs(); err != nil {
			return nil, err
		}
	}
	out.Anomalies = append(out.Anomalies, e.anoms...)
	return out, nil
}

// ---- generator ----

var (
	poolOutcomeKinds = []string{"S", "T", "E", "W", "F", "G", "L", "Z"}
	poolFaultMarks   = []string{"!", "?", "~"}
)

func genPool(r *rand.Rand, t core.Tier) any {
	maxLen := 30
	if t == core.Thorough {
		maxLen = 60
	}
	n := 1 + r.IntN(maxLen)
	// per-case failure rate: from "almost always registers" (isolated failures in a healthy pool) to "almost never"
	pFail := []float64{0.08, 0.2, 0.35, 0.5, 0.65, 0.85}[r.IntN(6)]
	// per-case rate of the rare events
	pRare := []float64{0.0, 0.08, 0.2, 0.4}[r.IntN(4)]
	// how much of the traffic belongs to pool a
	pA := []float64{1.0, 0.85, 0.6}[r.IntN(3)]
	// per-case rate of odd timing: the controller looks at a NodeClaim late / at the edge of a timeout / repeatedly
	pOdd := []float64{0.0, 0.0, 0.1, 0.3}[r.IntN(4)]
	// per-case rate of API faults on the NodePool (one per event); failures only / successes too (a success that meets a
	// fault is the known finding C20-success-lost-on-nodepool-api-failure)
	pFault := []float64{0.0, 0.0, 0.1, 0.25, 0.5}[r.IntN(5)]
	faultOnSuccess := r.IntN(3) == 0
	// per-case rate of nodepool.readiness writing the NodePool's status from a copy that is 0..3 events old
	pReady := []float64{0.0, 0.0, 0.1, 0.25}[r.IntN(4)]
	steps := make([]string, 0, n)
	mark := func(ev string, marks []string) string {
		if r.Float64() < pFault {
			return ev + marks[r.IntN(len(marks))]
		}
		return ev
	}
	for i := 0; i < n; i++ {
		if r.Float64() < pReady {
			steps = append(steps, []string{"Y0", "Y1", "Y1", "Y2", "Y2", "Y3"}[r.IntN(6)])
			continue
		}
		if r.Float64() < pRare {
			ev := []string{"C", "C", "C", "D", "D", "Pa", "Pa", "Pb", "R", "R", "R", "N", "N", "Xs", "Xf"}[r.IntN(15)]
			switch ev {
			case "C", "D", "Pa", "Pb":
				ev = mark(ev, poolFaultMarks[:2])
			case "Xs", "Xf":
				ev = mark(ev, poolFaultMarks)
			}
			steps = append(steps, ev)
			continue
		}
		p := "a"
		if r.Float64() >= pA {
			p = "b"
		}
		odd := r.Float64() < pOdd
		switch {
		case r.Float64() >= pFail:
			k := "S"
			if odd {
				k = []string{"T", "T", "E", "W"}[r.IntN(4)]
			}
			if faultOnSuccess {
				steps = append(steps, mark(k+p, poolFaultMarks))
			} else {
				steps = append(steps, k+p)
			}
		case r.Float64() < 0.25:
			k := "L"
			if odd {
				k = "Z"
			}
			steps = append(steps, mark(k+p, poolFaultMarks))
		default:
			k := "F"
			if odd {
				k = "G"
			}
			steps = append(steps, mark(k+p, poolFaultMarks))
		}
	}
	return PoolIn{Steps: steps, Full: r.IntN(3) == 0}
}

// quick: every script of length 6 over {Sa, Fa}, of length 5 over {Sa, Fa, C} and over {Sa, Fa, R}, of length 3
// over {Sa, Fa, Pa, N, C, R}, of length 5 over {Sa, Fa, Fa!} (a failure whose NodePool patch conflicts), of length 4
// over {Sa, Fa, Ta, Ea} (registrations the controller sees late), every pair of pool-a events with every fault
// modifier, and every "F F x S S S" / "F S x S S S" with x any pool-a outcome with any modifier (does x occupy exactly
// one slot of the window?); thorough: every script of length 6 over {Sa, Fa, C, R}, of length 4 over
// {Sa, Fa, Pa, N, C, R}, of length 6 over {Sa, Fa, Fa!}, of length 5 over {Sa, Fa, Ta, Ea}, the pairs as in quick and
// every script of length 3 over {Sa, Sa!, Sa~, Fa, Fa!, Fa~, Ta, Ta!, Ea, La!, Za!, Pa!, C!, R}; in both tiers scripts
// with the NodeClass replaced (D) after 0..2 edits in every condition, and nodepool.readiness writing from a lagging
// copy (Y0..Y3) around a transition (see below).  All prefixes are checked too, since every step is observed.  (The fake client
// serialises the API writes of all workers on one global lock, which bounds what the quick tier can afford.)
func enumPool(t core.Tier) []any {
	var out []any
	seen := map[string]bool{}
	add := func(steps []string) {
		k := strings.Join(steps, " ")
		if !seen[k] {
			seen[k] = true
			out = append(out, PoolIn{Steps: append([]string{}, steps...)})
		}
	}
	var rec func(alpha []string, prefix []string, n int)
	rec = func(alpha []string, prefix []string, n int) {
		if len(prefix) == n {
			add(prefix)
			return
		}
		for _, a := range alpha {
			rec(alpha, append(prefix, a), n)
		}
	}
	// every pool-a event with every modifier it admits
	var all, outcomes []string
	for _, k := range poolOutcomeKinds {
		for _, m := range append([]string{""}, poolFaultMarks...) {
			outcomes = append(outcomes, k+"a"+m)
		}
	}
	all = append(all, outcomes...)
	all = append(all, "Pa", "Pa!", "Pa?", "C", "C!", "C?", "D", "D!", "D?", "Y0", "Y1", "Y2", "R", "N", "Xs", "Xs~", "Xf", "Xf!", "Xf~")
	if t == core.Thorough {
		rec([]string{"Sa", "Fa", "C", "R"}, nil, 6)
		rec([]string{"Sa", "Fa", "Pa", "N", "C", "R"}, nil, 4)
		rec([]string{"Sa", "Fa", "Fa!"}, nil, 6)
		rec([]string{"Sa", "Fa", "Ta", "Ea"}, nil, 5)
		rec(all, nil, 2)
		rec([]string{"Sa", "Fa", "C", "D"}, nil, 5)
		rec([]string{"Sa", "Fa", "Y1", "Y2"}, nil, 5)
		rec([]string{"Sa", "Fa", "Y0", "Y3", "C", "D!", "R"}, nil, 4)
		rec([]string{"Sa", "Sa!", "Sa~", "Fa", "Fa!", "Fa~", "Ta", "Ta!", "Ea", "La!", "Za!", "Pa!", "C!", "R"}, nil, 3)
	} else {
		rec([]string{"Sa", "Fa"}, nil, 6)
		rec([]string{"Sa", "Fa", "C"}, nil, 5)
		rec([]string{"Sa", "Fa", "R"}, nil, 5)
		rec([]string{"Sa", "Fa", "Pa", "N", "C", "R"}, nil, 3)
		rec([]string{"Sa", "Fa", "Fa!"}, nil, 5)
		rec([]string{"Sa", "Fa", "Ta", "Ea"}, nil, 4)
		rec(all, nil, 2)
		rec([]string{"Sa", "Fa", "C", "D"}, nil, 4)
		rec([]string{"Sa", "Fa", "Y1", "Y2"}, nil, 4)
	}
	// the NodeClass replaced after 0..2 edits, the pool being Unknown / True / False (does the window start afresh?), and
	// nodepool.readiness writing from a copy that predates the transition to False / back to True
	for _, pre := range [][]string{{}, {"C"}, {"C", "C"}} {
		for _, mid := range [][]string{{}, {"Sa"}, {"Fa", "Fa"}, {"Sa", "Fa", "Fa"}} {
			for _, d := range []string{"D", "D!", "D?"} {
				sc := append(append(append([]string{}, pre...), mid...), d)
				add(append(append([]string{}, sc...), "Fa", "Sa", "Sa"))
				add(append(append([]string{}, sc...), "R", "Sa", "Fa", "Fa"))
			}
		}
	}
	for _, y := range []string{"Y0", "Y1", "Y2", "Y3"} {
		add([]string{"Sa", "Fa", "Fa", y, "Sa", "Sa", y, "Fa"})
		add([]string{"Fa", "Fa", "Sa", "Sa", "Sa", y, "R", "Fa"})
		add([]string{"Fa", "Fa", "C", y, "Sa", y, "Sb", "Fb", "Fb", y})
	}
	for _, x := range outcomes {
		add([]string{"Fa", "Fa", x, "Sa", "Sa", "Sa"})
		add([]string{"Fa", "Sa", x, "Sa", "Sa", "Sa"})
	}
	return out
}

// poolReplay is a plain replay of pool a's events (labels and the non-triviality rule only — never used as an oracle):
// the circumstances the script reached.  It follows what the controllers do today, including the known finding (a
// registration that meets an API fault on the NodePool is not counted).
func poolCircumstances(steps []string) map[string]bool {
	seen := map[string]bool{}
	var window []bool
	cond := 0 // 0 Unknown 1 True 2 False
	fails := func(w []bool) int {
		n := 0
		for _, v := range w {
			if !v {
				n++
			}
		}
		return n
	}
	pushed := func(v bool) []bool {
		w := append(append([]bool{}, window...), v)
		if len(w) > nodepoolhealth.BufferSize {
			w = w[1:]
		}
		return w
	}
	push := func(v bool) {
		if len(window) == nodepoolhealth.BufferSize {
			seen["window-wrapped"] = true
		}
		window = pushed(v)
	}
	classGen := 1
	var conds []int // pool a's condition at the start of every step
	for _, s := range steps {
		base, fault, ok := splitEvent(s)
		if !ok {
			continue
		}
		if fault != faultNone {
			seen["fault:"+s[len(s)-1:]] = true
		}
		conds = append(conds, cond)
		if base == "C" {
			classGen++
		}
		if base == "D" {
			if classGen == 1 {
				seen["nodeclass-replaced-same-generation(no reset)"] = true
				continue
			}
			seen["nodeclass-replaced-lower-generation(reset)"] = true
			if cond == 2 {
				seen["nodeclass-replaced-lower-generation-while-False"] = true
			}
			classGen = 1
		}
		if len(base) == 2 && base[0] == 'Y' {
			idx := max(len(conds)-1-int(base[1]-'0'), 0)
			if conds[idx] != cond {
				seen["readiness-writes-from-copy-predating-a-transition"] = true
			} else {
				seen["readiness-writes-from-copy-with-current-condition"] = true
			}
		}
		switch base {
		case "Sa", "Ta", "Ea", "Wa":
			if base != "Sa" {
				seen["success-seen-late/repeatedly"] = true
			}
			wouldPatch := 2*fails(pushed(true)) < nodepoolhealth.BufferSize && cond != 1
			if fault == faultGet500 || (fault != faultNone && wouldPatch) {
				seen["fault-hits-success(known finding: not counted)"] = true
				continue
			}
			if cond == 1 {
				seen["success-while-True"] = true
			}
			if cond == 2 {
				seen["success-while-False"] = true
			}
			push(true)
			if 2*fails(window) < nodepoolhealth.BufferSize {
				if cond == 2 {
					seen["recovers-to-True"] = true
				}
				cond = 1
			}
		case "Fa", "Ga", "La", "Za":
			if base == "Ga" || base == "Za" {
				seen["failure-seen-late"] = true
			}
			wouldPatch := 2*fails(pushed(false)) >= nodepoolhealth.BufferSize && cond != 2
			if fault == faultGet500 || (fault != faultNone && wouldPatch) {
				seen["fault-hits-failure(retried)"] = true
				if wouldPatch && fault != faultGet500 {
					seen["patch-fault-on-the-failure-that-turns-False"] = true
				}
			}
			if cond == 1 {
				seen["failure-while-True"] = true
			}
			push(false)
			if 2*fails(window) >= nodepoolhealth.BufferSize {
				if cond == 1 {
					seen["True-to-False"] = true
				}
				cond = 2
			} else if cond == 1 {
				seen["isolated-failure-stays-True"] = true
			}
		case "C", "D", "Pa":
			if fault != faultNone {
				seen["fault-hits-reset(retried)"] = true
			}
			if cond == 0 && len(window) > 0 {
				seen["reset-while-Unknown-with-outcomes"] = true
			}
			if cond != 0 {
				seen["reset-from-True/False"] = true
			}
			window, cond = nil, 0
		case "R":
			if cond == 0 && len(window) > 0 {
				seen["restart-while-Unknown-with-outcomes"] = true
			}
			switch cond {
			case 1:
				window = []bool{true}
			case 2:
				window = []bool{false, false}
			default:
				window = nil
			}
		}
	}
	return seen
}

func poolOp() *core.Op {
	return &core.Op{
		Name: "c20.pool",
		Doc:  "event scripts (registrations and registration/launch timeouts that the controller sees in time, late, at the edge of the timeout or repeatedly; one-shot API faults on the NodePool Get / status patch followed by the retry; NodePool/NodeClass edits, the NodeClass deleted and re-created (generation back to 1), nodepool.readiness writing NodeClassReady from a NodePool copy that is 0..3 events old, restarts, resyncs, foreign claims; two NodePools) through the real nodeclaim lifecycle controller, the real nodepool.registrationhealth controller and the real nodepool.readiness controller on the fake client; persisted NodeRegistrationHealthy condition, tracker status and what-if verdicts after every event",
		N: func(t core.Tier) int {
			if t == core.Thorough {
				return 1000
			}
			return 400
		},
		Gen:            genPool,
		Enum:           enumPool,
		Impl:           implPool,
		ExhaustiveNote: "quick: every event script of length 6 over {Sa,Fa}, of length 5 over {Sa,Fa,C}, {Sa,Fa,R} and {Sa,Fa,Fa!}, of length 4 over {Sa,Fa,Ta,Ea}, of length 3 over {Sa,Fa,Pa,N,C,R}, of length 4 over {Sa,Fa,C,D} and {Sa,Fa,Y1,Y2}, every pair of pool-a events with every fault modifier, F F x S S S / F S x S S S for every pool-a outcome x with every modifier, C^0..2 + {-, S, FF, SFF} + D/D!/D? + {F S S, R S F F}, and three scripts per lag Y0..Y3 around a transition; thorough: length 5 over {Sa,Fa,C,D} and {Sa,Fa,Y1,Y2}, length 4 over {Sa,Fa,Y0,Y3,C,D!,R}, length 6 over {Sa,Fa,C,R} and {Sa,Fa,Fa!}, length 5 over {Sa,Fa,Ta,Ea}, length 4 over {Sa,Fa,Pa,N,C,R}, the pairs and the x-scripts as in quick, length 3 over {Sa,Sa!,Sa~,Fa,Fa!,Fa~,Ta,Ta!,Ea,La!,Za!,Pa!,C!,R}; every prefix is observed",
		Rule:           "random scripts (length 1..30 quick, 1..60 thorough; per-case failure rate 8%..85%, rare-event rate 0..40%, share of pool a 60..100%, odd-timing rate 0/0/10/30% (T,E,W,G,Z instead of S,F,L), fault rate 0/0/10/25/50% per event (! ? ~ uniformly; on successes too in 1/3 of the cases), readiness-writer rate 0/0/10/25% per event (Y0,Y1,Y1,Y2,Y2,Y3 uniformly), D = 2/15 of the rare events (C = 3/15)) + exhaustive short scripts; non-trivial = pool a's condition leaves Unknown at least once and at least one reset/replacement/readiness-write/restart/resync/foreign/late/faulted event occurs, or the window wraps",
		Nontrivial: func(raw json.RawMessage, _ any) bool {
			var in PoolIn
			json.Unmarshal(raw, &in)
			c := poolCircumstances(in.Steps)
			rare := false
			for _, s := range in.Steps {
				base, fault, _ := splitEvent(s)
				switch base {
				case "C", "D", "Y0", "Y1", "Y2", "Y3", "Pa", "R", "N", "Xs", "Xf", "Ta", "Ea", "Wa", "Ga", "Za":
					rare = true
				}
				if fault != faultNone {
					rare = true
				}
			}
			left := c["success-while-True"] || c["failure-while-True"] || c["success-while-False"] || c["reset-from-True/False"] || c["True-to-False"]
			return c["window-wrapped"] || (rare && left)
		},
		Labels: func(raw json.RawMessage, _ any) []string {
			var in PoolIn
			json.Unmarshal(raw, &in)
			l := []string{fmt.Sprintf("len<=%d", ((len(in.Steps)/10)+1)*10), fmt.Sprintf("full=%v", in.Full)}
			evs := map[string]bool{}
			for _, s := range in.Steps {
				if base, _, ok := splitEvent(s); ok {
					evs[base] = true
				}
			}
			for s := range evs {
				l = append(l, "ev:"+s)
			}
			for c := range poolCircumstances(in.Steps) {
				l = append(l, c)
			}
			return l
		},
		Signature: func(raw json.RawMessage, _ any) string { return "pool" },
		Shrink: func(raw json.RawMessage) []any {
			var in PoolIn
			json.Unmarshal(raw, &in)
			var out []any
			for _, c := range core.ShrinkList(in.Steps) {
				out = append(out, PoolIn{Steps: c, Full: in.Full})
			}
			// drop one fault modifier / replace an oddly timed event by the plain one
			for i, s := range in.Steps {
				base, fault, ok := splitEvent(s)
				if !ok {
					continue
				}
				if fault != faultNone {
					c := append([]string{}, in.Steps...)
					c[i] = base
					out = append(out, PoolIn{Steps: c, Full: in.Full})
				}
			}
			if in.Full {
				out = append(out, PoolIn{Steps: in.Steps})
			}
			return out
		},
	}
}
