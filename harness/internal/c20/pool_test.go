package c20

import (
	"encoding/json"
	"testing"
)

// the two ways of putting a NodeClaim in front of the lifecycle controller (PoolIn.Full) must be indistinguishable
// for everything c20.pool observes
func TestPoolFullAndPrelaunchedAgree(t *testing.T) {
	for _, steps := range [][]string{
		{"Sa", "Fa", "Sa", "Sa", "Sa", "Fa"},
		{"Fa", "C", "Fa", "C", "Sa", "Fa"},
		{"Fa", "Fa", "R", "Sa", "Sa", "Sa", "N", "Pa"},
		{"La", "Lb", "Xs", "Xf", "Pa", "N", "Sb", "Fb", "Fb", "Za", "Zb"},
		{"Fa", "Ta", "Ea", "Wa", "Ga", "Tb", "Eb", "Wb", "Gb"},
		{"Fa", "Sa", "Fa!", "Sa", "Sa", "Sa", "La?", "Za~", "Ga!", "Pa!", "C?", "Xs~", "Xf!"},
		{"Fa", "Fa", "Sa", "Sa", "Sa!", "Sa", "Ta~", "Wa?", "Ea!"},
		{"C", "Fa", "Fa", "D", "Sa", "Y1", "Fa", "Fa", "Y1", "Y3", "D", "C", "D!", "Y0", "R", "Sa", "Y2"},
	} {
		var prev string
		for _, full := range []bool{true, false} {
			raw, _ := json.Marshal(PoolIn{Steps: steps, Full: full})
			out, err := implPool(raw)
			if err != nil {
				t.Fatal(err)
			}
			b, _ := json.Marshal(out)
			if prev != "" && prev != string(b) {
				t.Errorf("%v: full and pre-launched runs differ:\n%s\n%s", steps, prev, b)
			}
			prev = string(b)
			if len(out.(PoolOut).Anomalies) != 0 {
				t.Errorf("%v full=%v: anomalies %v", steps, full, out.(PoolOut).Anomalies)
			}
		}
	}
}
