// Package c20: NodePool registration health (ring buffer + tracker) — real code vs Lean model.
package c20

import (
	"encoding/json"
	"fmt"
	"math/rand/v2"

	"k8s.io/apimachinery/pkg/types"

	"sigs.k8s.io/karpenter/pkg/state/nodepoolhealth"
	"sigs.k8s.io/karpenter/pkg/utils/ringbuffer"

	"verifharness/internal/core"
	"verifharness/internal/registry"
)

func init() { registry.Register("C20", Ops) }

// History ops: "u1"/"u0" record success/failure (State.Update), "reset" (SetStatus Unknown, what the
// registration-health controller does on a NodePool/NodeClass change), "setH"/"setU" (re-hydration after a
// restart), "restart" (a brand-new State: process restart), "dry1"/"dry0" (what-if evaluation).
type HistIn struct {
	Ops []string `json:"ops"`
}

type HistOut struct {
	// per op: status after the op; for dry ops the status of the what-if tracker
	Status []int `json:"status"`
}

func genHist(r *rand.Rand, t core.Tier) any {
	maxLen := 60
	if t == core.Thorough {
		maxLen = 400
	}
	n := 1 + r.IntN(maxLen)
	ops := make([]string, 0, n)
	// bias: mostly updates so that the window wraps; occasional resets/restarts
	pFail := 0.15 + 0.7*r.Float64()
	for i := 0; i < n; i++ {
		x := r.Float64()
		switch {
		case x < 0.55:
			if r.Float64() < pFail {
				ops = append(ops, "u0")
			} else {
				ops = append(ops, "u1")
			}
		case x < 0.85:
			if r.Float64() < 0.5 {
				ops = append(ops, "dry0")
			} else {
				ops = append(ops, "dry1")
			}
		case x < 0.89:
			ops = append(ops, "reset")
		case x < 0.92:
			ops = append(ops, "setH")
		case x < 0.95:
			ops = append(ops, "setU")
		case x < 0.97:
			ops = append(ops, "restart")
		default:
			ops = append(ops, "status")
		}
	}
	return HistIn{Ops: ops}
}

func implHist(raw json.RawMessage) (any, error) {
	var in HistIn
	if err := json.Unmarshal(raw, &in); err != nil {
		return nil, err
	}
	uid := types.UID("pool-a")
	s := nodepoolhealth.NewState()
	out := HistOut{Status: []int{}}
	for _, op := range in.Ops {
		switch op {
		case "u1":
			s.Update(uid, true)
			out.Status = append(out.Status, int(s.Status(uid)))
		case "u0":
			s.Update(uid, false)
			out.Status = append(out.Status, int(s.Status(uid)))
		case "reset":
			s.SetStatus(uid, nodepoolhealth.StatusUnknown)
			out.Status = append(out.Status, int(s.Status(uid)))
		case "setH":
			s.SetStatus(uid, nodepoolhealth.StatusHealthy)
			out.Status = append(out.Status, int(s.Status(uid)))
		case "setU":
			s.SetStatus(uid, nodepoolhealth.StatusUnhealthy)
			out.Status = append(out.Status, int(s.Status(uid)))
		case "restart":
			s = nodepoolhealth.NewState()
			out.Status = append(out.Status, int(s.Status(uid)))
		case "dry1":
			out.Status = append(out.Status, int(s.DryRun(uid, true).Status()))
		case "dry0":
			out.Status = append(out.Status, int(s.DryRun(uid, false).Status()))
		case "status":
			out.Status = append(out.Status, int(s.Status(uid)))
		default:
			return nil, fmt.Errorf("bad op %q", op)
		}
	}
	return out, nil
}

// wrapped: at least BufferSize+1 updates without an intervening reset
func wrapped(ops []string) bool {
	run := 0
	for _, op := range ops {
		switch op {
		case "u0", "u1":
			run++
			if run > nodepoolhealth.BufferSize {
				return true
			}
		case "reset", "setH", "setU", "restart":
			run = 0
		}
	}
	return false
}

type RingIn struct {
	Cap int   `json:"cap"`
	Ops []int `json:"ops"` // >=0: insert that value; -1: reset
}

type RingOut struct {
	Items [][]int `json:"items"` // Items() after every op (physical order)
	Len   []int   `json:"len"`
}

func genRing(r *rand.Rand, t core.Tier) any {
	c := 1 + r.IntN(6)
	n := r.IntN(40)
	if t == core.Thorough {
		n = r.IntN(200)
	}
	ops := make([]int, n)
	for i := range ops {
		if r.Float64() < 0.06 {
			ops[i] = -1
		} else {
			ops[i] = r.IntN(1000)
		}
	}
	return RingIn{Cap: c, Ops: ops}
}

func implRing(raw json.RawMessage) (any, error) {
	var in RingIn
	if err := json.Unmarshal(raw, &in); err != nil {
		return nil, err
	}
	b := ringbuffer.New[int](in.Cap)
	out := RingOut{Items: [][]int{}, Len: []int{}}
	for _, op := range in.Ops {
		if op < 0 {
			b.Reset()
		} else {
			b.Insert(op)
		}
		out.Items = append(out.Items, append([]int{}, b.Items()...))
		out.Len = append(out.Len, b.Len())
	}
	return out, nil
}

func Ops() []*core.Op {
	return []*core.Op{
		poolOp(),
		{
			Name: "c20.history",
			Doc:  "nodepoolhealth.State driven by update/reset/setStatus/restart/dryRun histories; status after every op",
			N: func(t core.Tier) int {
				if t == core.Thorough {
					return 60000
				}
				return 4000
			},
			Gen:  genHist,
			Impl: implHist,
			Rule: "random op histories (length 1..60 quick, 1..400 thorough); non-trivial = the 4-slot window wrapped at least once (>4 updates with no reset between); distinct = distinct op lists",
			Nontrivial: func(raw json.RawMessage, _ any) bool {
				var in HistIn
				json.Unmarshal(raw, &in)
				return wrapped(in.Ops)
			},
			Labels: func(raw json.RawMessage, _ any) []string {
				var in HistIn
				json.Unmarshal(raw, &in)
				l := []string{fmt.Sprintf("len<=%d", ((len(in.Ops)/50)+1)*50)}
				if wrapped(in.Ops) {
					l = append(l, "wrapped")
				}
				for _, o := range in.Ops {
					l = append(l, "op:"+o)
				}
				return l
			},
			Signature: func(raw json.RawMessage, _ any) string { return "history" },
			Shrink: func(raw json.RawMessage) []any {
				var in HistIn
				json.Unmarshal(raw, &in)
				var out []any
				for _, c := range core.ShrinkList(in.Ops) {
					out = append(out, HistIn{Ops: c})
				}
				return out
			},
		},
		{
			Name: "c20.ring",
			Doc:  "ringbuffer.RingBuffer[int] insert/reset sequences for capacities 1..6; Items() and Len() after every op",
			N: func(t core.Tier) int {
				if t == core.Thorough {
					return 40000
				}
				return 3000
			},
			Gen:  genRing,
			Impl: implRing,
			Rule: "random insert/reset sequences; non-trivial = more inserts than capacity (the buffer wraps)",
			Nontrivial: func(raw json.RawMessage, _ any) bool {
				var in RingIn
				json.Unmarshal(raw, &in)
				run := 0
				for _, o := range in.Ops {
					if o < 0 {
						run = 0
					} else {
						run++
						if run > in.Cap {
							return true
						}
					}
				}
				return false
			},
			Labels: func(raw json.RawMessage, _ any) []string {
				var in RingIn
				json.Unmarshal(raw, &in)
				return []string{fmt.Sprintf("cap=%d", in.Cap)}
			},
			Signature: func(raw json.RawMessage, _ any) string { return "ring" },
			Shrink: func(raw json.RawMessage) []any {
				var in RingIn
				json.Unmarshal(raw, &in)
				var out []any
				for _, c := range core.ShrinkList(in.Ops) {
					out = append(out, RingIn{Cap: in.Cap, Ops: c})
				}
				return out
			},
		},
	}
}
