// Package core is the correspondence engine shared by all properties.
//
// An Op ties one executable Lean definition (or relation) to the real Go code:
// kdiff generates inputs, runs the real code in-process (Impl), sends the same
// input together with the implementation's canonical output to the Lean driver,
// and compares. The driver also evaluates the property's independent
// specification on the implementation's output ("spec"), which is how a
// concrete failing input is found when the correspondence breaks.
package core

import (
	"bufio"
	"bytes"
	"crypto/sha256"
	"encoding/hex"
	"encoding/json"
	"fmt"
	"hash/fnv"
	"io"
	"math/rand/v2"
	"os"
	"os/exec"
	"path/filepath"
	"reflect"
	"runtime"
	"runtime/debug"
	"sort"
	"strings"
	"sync"
	"time"
)

type Tier int

const (
	Quick Tier = iota
	Thorough
)

func (t Tier) String() string {
	if t == Thorough {
		return "thorough"
	}
	return "quick"
}

// Op is one correspondence operation.
type Op struct {
	Name string // "<prop>.<name>", e.g. "c20.history"; the Lean driver dispatches on it
	Prop string // "C20"
	Doc  string
	// N is the number of random cases for the tier.
	N func(t Tier) int
	// Gen draws one structured input; everything random must come from r.
	Gen func(r *rand.Rand, t Tier) any
	// Enum, when set, enumerates a finite input space completely (run in addition to Gen).
	Enum func(t Tier) []any
	// Impl decodes the input and runs the REAL code; the result must be canonical
	// (sorted sets, error classes not messages, no floats/addresses/timestamps).
	Impl func(in json.RawMessage) (any, error)
	// Nontrivial tells whether a case is non-trivial by the op's stated Rule.
	Nontrivial func(in json.RawMessage, impl any) bool
	Rule       string
	// Labels returns histogram labels describing the input/branch (input distribution evidence).
	Labels func(in json.RawMessage, impl any) []string
	// Signature classifies a failing case for matching against known_findings.json.
	Signature func(in json.RawMessage, impl any) string
	// Shrink proposes smaller inputs (optional).
	Shrink func(in json.RawMessage) []any
	// Serial forces single-threaded Impl evaluation (real code with global state).
	Serial bool
	// ExhaustiveNote is set when Enum covers a finite space completely.
	ExhaustiveNote string
}

type Failure struct {
	Kind      string          `json:"kind"` // "spec" (property fails on impl), "disagree" (model != impl), "driver" (driver error)
	Op        string          `json:"op"`
	In        json.RawMessage `json:"in"`
	Impl      json.RawMessage `json:"impl"`
	Model     json.RawMessage `json:"model,omitempty"`
	Why       string          `json:"why,omitempty"`
	Signature string          `json:"signature,omitempty"`
	Source    string          `json:"source"` // corpus:<file> | enum:<i> | gen:<i>
	Shrunk    bool            `json:"shrunk,omitempty"`
}

type OpReport struct {
	Op                 string            `json:"op"`
	Doc                string            `json:"doc"`
	Evaluations        int               `json:"evaluations"`
	DistinctNontrivial int               `json:"distinct_nontrivial"`
	Distinct           int               `json:"distinct"`
	Rule               string            `json:"rule"`
	Histogram          map[string]int    `json:"histogram"`
	Samples            []json.RawMessage `json:"samples"`
	Failures           []Failure         `json:"failures"`
	SpecChecked        int               `json:"spec_checked"`
	ModelCompared      int               `json:"model_compared"`
	Exhaustive         string            `json:"exhaustive,omitempty"`
	WallS              float64           `json:"wall_s"`
	Panics             int               `json:"impl_panics"`
}

type Report struct {
	Prop string      `json:"prop"`
	Tier string      `json:"tier"`
	Seed uint64      `json:"seed"`
	Ops  []*OpReport `json:"ops"`
}

type Config struct {
	Tier      Tier
	Seed      uint64
	Driver    string // path to the kdriver executable
	CorpusDir string // /verif/corpus
	Scale     float64
	MaxFail   int
}

// ---------- driver process ----------

type Driver struct {
	cmd *exec.Cmd
	in  *bufio.Writer
	inC io.Closer
	out *bufio.Reader
	mu  sync.Mutex
}

func StartDriver(path string) (*Driver, error) {
	cmd := exec.Command(path)
	stdin, err := cmd.StdinPipe()
	if err != nil {
		return nil, err
	}
	stdout, err := cmd.StdoutPipe()
	if err != nil {
		return nil, err
	}
	cmd.Stderr = os.Stderr
	if err := cmd.Start(); err != nil {
		return nil, err
	}
	return &Driver{cmd: cmd, in: bufio.NewWriterSize(stdin, 1<<20), inC: stdin, out: bufio.NewReaderSize(stdout, 1<<20)}, nil
}

type DriverResp struct {
	Model   json.RawMessage `json:"model"`
	Allowed *bool           `json:"allowed"`
	Spec    *bool           `json:"spec"`
	Why     string          `json:"why"`
	Err     string          `json:"err"`
	Extra   json.RawMessage `json:"extra"`
}

type request struct {
	Op   string          `json:"op"`
	In   json.RawMessage `json:"in"`
	Impl json.RawMessage `json:"impl"`
}

// Ask sends one request and reads one response (synchronous).
func (d *Driver) Ask(op string, in, impl json.RawMessage) (*DriverResp, error) {
	d.mu.Lock()
	defer d.mu.Unlock()
	b, err := json.Marshal(request{Op: op, In: in, Impl: impl})
	if err != nil {
		return nil, err
	}
	if _, err := d.in.Write(b); err != nil {
		return nil, err
	}
	if err := d.in.WriteByte('\n'); err != nil {
		return nil, err
	}
	if err := d.in.Flush(); err != nil {
		return nil, err
	}
	line, err := d.out.ReadBytes('\n')
	if err != nil {
		return nil, fmt.Errorf("driver died: %w", err)
	}
	var r DriverResp
	if err := json.Unmarshal(line, &r); err != nil {
		return nil, fmt.Errorf("driver output %q: %w", string(line), err)
	}
	return &r, nil
}

// Batch pipes all requests through the driver concurrently with reading.
func (d *Driver) Batch(op string, ins, impls []json.RawMessage) ([]*DriverResp, error) {
	d.mu.Lock()
	defer d.mu.Unlock()
	errc := make(chan error, 1)
	go func() {
		for i := range ins {
			b, err := json.Marshal(request{Op: op, In: ins[i], Impl: impls[i]})
			if err != nil {
				errc <- err
				return
			}
			if _, err := d.in.Write(b); err != nil {
				errc <- err
				return
			}
			if err := d.in.WriteByte('\n'); err != nil {
				errc <- err
				return
			}
		}
		errc <- d.in.Flush()
	}()
	out := make([]*DriverResp, len(ins))
	for i := range ins {
		line, err := d.out.ReadBytes('\n')
		if err != nil {
			return nil, fmt.Errorf("driver died at case %d: %w", i, err)
		}
		var r DriverResp
		if err := json.Unmarshal(line, &r); err != nil {
			return nil, fmt.Errorf("driver output %q: %w", string(line), err)
		}
		out[i] = &r
	}
	if err := <-errc; err != nil {
		return nil, err
	}
	return out, nil
}

func (d *Driver) Close() {
	d.inC.Close()
	d.cmd.Wait()
}

// ---------- helpers ----------

// Canon marshals v and re-decodes it so that comparison is representation independent.
func Canon(v any) (json.RawMessage, any, error) {
	b, err := json.Marshal(v)
	if err != nil {
		return nil, nil, err
	}
	var x any
	dec := json.NewDecoder(bytes.NewReader(b))
	dec.UseNumber()
	if err := dec.Decode(&x); err != nil {
		return nil, nil, err
	}
	return b, x, nil
}

func decodeAny(b json.RawMessage) any {
	if len(b) == 0 {
		return nil
	}
	var x any
	dec := json.NewDecoder(bytes.NewReader(b))
	dec.UseNumber()
	if err := dec.Decode(&x); err != nil {
		return string(b)
	}
	return x
}

// JSONEqual compares two JSON documents structurally.
func JSONEqual(a, b json.RawMessage) bool {
	return reflect.DeepEqual(normNum(decodeAny(a)), normNum(decodeAny(b)))
}

func normNum(x any) any {
	switch v := x.(type) {
	case json.Number:
		return v.String()
	case []any:
		for i := range v {
			v[i] = normNum(v[i])
		}
		return v
	case map[string]any:
		for k := range v {
			v[k] = normNum(v[k])
		}
		return v
	}
	return x
}

func hashKey(b []byte) string {
	h := sha256.Sum256(b)
	return hex.EncodeToString(h[:8])
}

func opSeed(seed uint64, name string, i int) (uint64, uint64) {
	h := fnv.New64a()
	h.Write([]byte(name))
	return seed*0x9E3779B97F4A7C15 + uint64(i), h.Sum64() ^ (uint64(i) << 17)
}

// RNG returns the deterministic generator for case i of op name under seed.
func RNG(seed uint64, name string, i int) *rand.Rand {
	a, b := opSeed(seed, name, i)
	return rand.New(rand.NewPCG(a, b))
}

// SafeImpl runs op.Impl converting panics into a canonical {"panic": class} output.
func SafeImpl(op *Op, in json.RawMessage) (out any, panicked bool) {
	defer func() {
		if r := recover(); r != nil {
			msg := fmt.Sprint(r)
			cls := msg
			if i := strings.IndexAny(cls, "\n"); i >= 0 {
				cls = cls[:i]
			}
			if os.Getenv("VERIF_DEBUG_PANIC") != "" {
				fmt.Fprintf(os.Stderr, "impl panic: %s\n%s\n", msg, debug.Stack())
			}
			out = map[string]any{"panic": panicClass(cls)}
			panicked = true
		}
	}()
	o, err := op.Impl(in)
	if err != nil {
		return map[string]any{"harness_error": err.Error()}, false
	}
	return o, false
}

func panicClass(s string) string {
	switch {
	case strings.Contains(s, "nil pointer"):
		return "nil-deref"
	case strings.Contains(s, "index out of range"):
		return "index-out-of-range"
	case strings.Contains(s, "invalid argument to Int"):
		return "rand-intn-nonpositive"
	case strings.Contains(s, "divide by zero"):
		return "divide-by-zero"
	}
	if len(s) > 80 {
		s = s[:80]
	}
	return s
}

type caseT struct {
	in     json.RawMessage
	impl   json.RawMessage
	implV  any
	source string
	panic  bool
}

// loadCorpus returns the corpus inputs for the op: corpus/<op>/*.json, each {"in": ...}.
func loadCorpus(dir, op string) ([]caseT, error) {
	var out []caseT
	files, _ := filepath.Glob(filepath.Join(dir, op, "*.json"))
	sort.Strings(files)
	for _, f := range files {
		b, err := os.ReadFile(f)
		if err != nil {
			return nil, err
		}
		var c struct {
			In json.RawMessage `json:"in"`
		}
		if err := json.Unmarshal(b, &c); err != nil {
			return nil, fmt.Errorf("%s: %w", f, err)
		}
		if len(c.In) == 0 {
			return nil, fmt.Errorf("%s: no \"in\"", f)
		}
		out = append(out, caseT{in: c.In, source: "corpus:" + filepath.Base(f)})
	}
	return out, nil
}

// evalCase computes the verdict for one case through a driver.
func judge(op *Op, c *caseT, r *DriverResp) *Failure {
	mk := func(kind, why string) *Failure {
		f := &Failure{Kind: kind, Op: op.Name, In: c.in, Impl: c.impl, Model: r.Model, Why: why, Source: c.source}
		if op.Signature != nil {
			f.Signature = op.Signature(c.in, c.implV)
		}
		// the driver may classify the violation itself (extra.signature), e.g. when the class depends on which
		// element of the outcome failed
		if len(r.Extra) > 0 {
			var ex struct {
				Signature string `json:"signature"`
			}
			if json.Unmarshal(r.Extra, &ex) == nil && ex.Signature != "" {
				f.Signature = ex.Signature
			}
		}
		return f
	}
	if r.Err != "" {
		return mk("driver", r.Err)
	}
	// A property failure on the implementation is the strongest verdict: report it first.
	if r.Spec != nil && !*r.Spec {
		return mk("spec", r.Why)
	}
	if r.Allowed != nil && !*r.Allowed {
		return mk("disagree", "implementation output not allowed by the model relation: "+r.Why)
	}
	if len(r.Model) > 0 && string(r.Model) != "null" && !JSONEqual(r.Model, c.impl) {
		return mk("disagree", "model output differs from implementation output")
	}
	if r.Spec == nil && r.Allowed == nil && (len(r.Model) == 0 || string(r.Model) == "null") {
		return mk("driver", "driver returned no verdict")
	}
	return nil
}

// RunOp runs one op completely and returns its report.
func RunOp(cfg *Config, op *Op) (*OpReport, error) {
	start := time.Now()
	rep := &OpReport{Op: op.Name, Doc: op.Doc, Rule: op.Rule, Histogram: map[string]int{}, Exhaustive: op.ExhaustiveNote, Failures: []Failure{}, Samples: []json.RawMessage{}}
	cases, err := loadCorpus(cfg.CorpusDir, op.Name)
	if err != nil {
		return nil, err
	}
	if op.Enum != nil {
		for i, v := range op.Enum(cfg.Tier) {
			b, err := json.Marshal(v)
			if err != nil {
				return nil, err
			}
			cases = append(cases, caseT{in: b, source: fmt.Sprintf("enum:%d", i)})
		}
	}
	n := 0
	if op.N != nil && op.Gen != nil {
		n = int(float64(op.N(cfg.Tier)) * cfg.Scale)
	}
	base := len(cases)
	cases = append(cases, make([]caseT, n)...)
	workers := runtime.GOMAXPROCS(0)
	if op.Serial {
		workers = 1
	}
	// generation + implementation, in parallel chunks, deterministic per index
	var wg sync.WaitGroup
	var genErr error
	var genMu sync.Mutex
	chunk := (len(cases) + workers - 1) / workers
	if chunk == 0 {
		chunk = 1
	}
	for w := 0; w < workers; w++ {
		lo, hi := w*chunk, (w+1)*chunk
		if hi > len(cases) {
			hi = len(cases)
		}
		if lo >= hi {
			continue
		}
		wg.Add(1)
		go func(lo, hi int) {
			defer wg.Done()
			for i := lo; i < hi; i++ {
				c := &cases[i]
				if i >= base {
					gi := i - base
					v := op.Gen(RNG(cfg.Seed, op.Name, gi), cfg.Tier)
					b, err := json.Marshal(v)
					if err != nil {
						genMu.Lock()
						genErr = err
						genMu.Unlock()
						return
					}
					c.in = b
					c.source = fmt.Sprintf("gen:%d", gi)
				}
				out, p := SafeImpl(op, c.in)
				b, v, err := Canon(out)
				if err != nil {
					genMu.Lock()
					genErr = err
					genMu.Unlock()
					return
				}
				c.impl, c.implV, c.panic = b, v, p
			}
		}(lo, hi)
	}
	wg.Wait()
	if genErr != nil {
		return nil, genErr
	}
	// drivers: one per chunk of cases
	nd := workers
	if nd > 8 {
		nd = 8
	}
	if len(cases) < 2000 {
		nd = 1
	}
	resps := make([]*DriverResp, len(cases))
	dchunk := (len(cases) + nd - 1) / nd
	var derr error
	for w := 0; w < nd; w++ {
		lo, hi := w*dchunk, (w+1)*dchunk
		if hi > len(cases) {
			hi = len(cases)
		}
		if lo >= hi {
			continue
		}
		wg.Add(1)
		go func(lo, hi int) {
			defer wg.Done()
			d, err := StartDriver(cfg.Driver)
			if err != nil {
				genMu.Lock()
				derr = err
				genMu.Unlock()
				return
			}
			defer d.Close()
			ins := make([]json.RawMessage, hi-lo)
			impls := make([]json.RawMessage, hi-lo)
			for i := lo; i < hi; i++ {
				ins[i-lo], impls[i-lo] = cases[i].in, cases[i].impl
			}
			rs, err := d.Batch(op.Name, ins, impls)
			if err != nil {
				genMu.Lock()
				derr = err
				genMu.Unlock()
				return
			}
			copy(resps[lo:hi], rs)
		}(lo, hi)
	}
	wg.Wait()
	if derr != nil {
		return nil, derr
	}
	seen := map[string]bool{}
	seenNT := map[string]bool{}
	failCount := map[string]int{}
	perClass := cfg.MaxFail
	if perClass > 8 {
		perClass = 8
	}
	var single *Driver
	defer func() {
		if single != nil {
			single.Close()
		}
	}()
	for i := range cases {
		c := &cases[i]
		r := resps[i]
		rep.Evaluations++
		if c.panic {
			rep.Panics++
		}
		k := hashKey(c.in)
		if !seen[k] {
			seen[k] = true
		}
		nt := op.Nontrivial == nil || op.Nontrivial(c.in, c.implV)
		if nt && !seenNT[k] {
			seenNT[k] = true
		}
		if op.Labels != nil {
			for _, l := range op.Labels(c.in, c.implV) {
				rep.Histogram[l]++
			}
		}
		if r.Spec != nil {
			rep.SpecChecked++
		}
		if r.Allowed != nil || (len(r.Model) > 0 && string(r.Model) != "null") {
			rep.ModelCompared++
		}
		if len(rep.Samples) < 3 && nt && strings.HasPrefix(c.source, "gen:") {
			s, _ := json.Marshal(map[string]any{"op": op.Name, "source": c.source, "in": json.RawMessage(truncJSON(c.in)), "impl": json.RawMessage(truncJSON(c.impl))})
			rep.Samples = append(rep.Samples, s)
		}
		// the cap is per (kind, signature): a frequent (possibly known) class of failure must not crowd out a different one
		if f := judge(op, c, r); f != nil && failCount[f.Kind+"|"+f.Signature] < perClass && len(rep.Failures) < 20*cfg.MaxFail {
			failCount[f.Kind+"|"+f.Signature]++
			if op.Shrink != nil {
				if single == nil {
					single, err = StartDriver(cfg.Driver)
					if err != nil {
						return nil, err
					}
				}
				f = shrink(op, single, f)
			}
			rep.Failures = append(rep.Failures, *f)
		}
	}
	if len(rep.Samples) == 0 && len(cases) > 0 {
		c := cases[len(cases)-1]
		s, _ := json.Marshal(map[string]any{"op": op.Name, "source": c.source, "in": json.RawMessage(truncJSON(c.in)), "impl": json.RawMessage(truncJSON(c.impl))})
		rep.Samples = append(rep.Samples, s)
	}
	rep.Distinct = len(seen)
	rep.DistinctNontrivial = len(seenNT)
	rep.WallS = time.Since(start).Seconds()
	return rep, nil
}

func truncJSON(b json.RawMessage) json.RawMessage {
	if len(b) <= 4000 {
		return b
	}
	s, _ := json.Marshal(string(b[:4000]) + "...(truncated)")
	return s
}

// EvalOne runs impl + driver on one input and returns the failure (nil if the case passes).
func EvalOne(op *Op, d *Driver, in json.RawMessage, source string) (*Failure, *caseT, *DriverResp, error) {
	out, p := SafeImpl(op, in)
	b, v, err := Canon(out)
	if err != nil {
		return nil, nil, nil, err
	}
	c := &caseT{in: in, impl: b, implV: v, source: source, panic: p}
	r, err := d.Ask(op.Name, in, b)
	if err != nil {
		return nil, nil, nil, err
	}
	return judge(op, c, r), c, r, nil
}

func shrink(op *Op, d *Driver, f *Failure) *Failure {
	cur := f
	budget := 400
	for progress := true; progress && budget > 0; {
		progress = false
		for _, cand := range op.Shrink(cur.In) {
			budget--
			if budget <= 0 {
				break
			}
			b, err := json.Marshal(cand)
			if err != nil || len(b) >= len(cur.In) {
				continue
			}
			nf, _, _, err := EvalOne(op, d, b, cur.Source)
			if err != nil || nf == nil || nf.Kind != cur.Kind {
				continue
			}
			// keep the same class of failure (same signature) so that a shrunk witness
			// cannot drift into a known finding
			if nf.Signature != cur.Signature {
				continue
			}
			nf.Shrunk = true
			cur = nf
			progress = true
			break
		}
	}
	return cur
}

// ShrinkList is a helper producing candidates that drop one element / halves of a list.
func ShrinkList[T any](xs []T) [][]T {
	var out [][]T
	n := len(xs)
	if n == 0 {
		return nil
	}
	if n > 3 {
		out = append(out, append([]T{}, xs[:n/2]...), append([]T{}, xs[n/2:]...))
	}
	for i := 0; i < n && i < 40; i++ {
		c := append([]T{}, xs[:i]...)
		c = append(c, xs[i+1:]...)
		out = append(out, c)
	}
	return out
}
