package c17

import (
	"context"
	"encoding/json"
	"fmt"
	"math/rand/v2"
	"sort"
	"strings"
	"unique"

	resourcev1 "k8s.io/api/resource/v1"
	"k8s.io/apimachinery/pkg/api/resource"
	metav1 "k8s.io/apimachinery/pkg/apis/meta/v1"
	"k8s.io/apimachinery/pkg/util/sets"
	"k8s.io/utils/ptr"
	"sigs.k8s.io/controller-runtime/pkg/client"

	"sigs.k8s.io/karpenter/pkg/cloudprovider"
	"sigs.k8s.io/karpenter/pkg/scheduling"
	dra "sigs.k8s.io/karpenter/pkg/scheduling/dynamicresources"

	"verifharness/internal/core"
	"verifharness/internal/world"
)

// ---------------------------------------------------------------------------------------------
// c17.alloc — the real dynamicresources.Allocator (Allocate → Allocation.Commit → ReleaseInstanceType, as NodeClaim.Add
// drives it) on ResourceSlice / ResourceClaim populations; observed: ResourceClaimAllocationMetadata (what the scheduler
// publishes as Results.DRAClaimAllocationMetadata) and the allocation tracker's maps
// ---------------------------------------------------------------------------------------------

const (
	drvExcl   = "gpu.example.com"
	drvShared = "shared.example.com"
	drvTmpl   = "tmpl.example.com"
	drvPart   = "part.example.com"
	capDim    = "mem"
	ctrSet    = "cs"
	ctrName   = "slots"
)

// PartDev is an exclusive in-cluster device that consumes W units of the pool's shared counter (a partition of a
// partitionable device)
type PartDev struct {
	Name string `json:"name"`
	W    int64  `json:"w"`
}

type SharedDev struct {
	Name string `json:"name"`
	Cap  int64  `json:"cap"`
}

type AClaim struct {
	Name  string `json:"name"`
	Class string `json:"class"` // gpu (exclusive in-cluster) | tmpl (template devices of the instance type) | shared (multi-allocatable, consumes Cap) | part (exclusive, consumes shared counters)
	Count int64  `json:"count"`
	Cap   int64  `json:"cap"`
}

type AllocOp struct {
	Op     string   `json:"op"` // allocate | release
	NC     string   `json:"nc"`
	Claims []AClaim `json:"claims"`
	Drop   []string `json:"drop"` // allocate: instance types the scheduler prunes right after the commit (fit / offering filters)
	ITs    []string `json:"its"`  // release
}

type NCSpec struct {
	Name string   `json:"name"`
	ITs  []string `json:"its"`
}

type AllocIn struct {
	Excl     []string            `json:"excl"`
	Shared   []SharedDev         `json:"shared"`
	Prealloc []string            `json:"prealloc"`
	Parts    []PartDev           `json:"parts"` // counter-consuming devices of pool-c
	Slots    int64               `json:"slots"` // the shared counter of pool-c
	Tmpl     map[string][]string `json:"tmpl"`  // instance type -> template device names
	NCs      []NCSpec            `json:"ncs"`
	Ops      []AllocOp           `json:"ops"`
}

type MetaEntry struct {
	Claim    string `json:"claim"`
	NC       string `json:"nc"`
	IT       string `json:"it"`
	Dev      string `json:"dev"`
	Driver   string `json:"driver"`
	Template bool   `json:"template"`
	Consumed int64  `json:"consumed"` // consumed capacity (dimension mem) reported for a multi-allocatable device, 0 otherwise
}

type AllocStep struct {
	Result   string           `json:"result"`   // ok | err | void
	ITs      []string         `json:"its"`      // instance types the allocation succeeded for
	Meta     []MetaEntry      `json:"meta"`     // the whole ResourceClaimAllocationMetadata after the op
	Tracker  DraSnap          `json:"tracker"`  // the tracker's exclusive-device maps (Allocated left empty)
	Inflight map[string]int64 `json:"inflight"` // tracker.InflightConsumedCapacity[shared device][mem]
	Counter  *int64           `json:"counter"`  // tracker.RemainingCounters[pool-c][cs][slots], nil = not tracked
}

type AllocOut struct {
	Steps []AllocStep `json:"steps"`
	Err   string      `json:"err,omitempty"`
}

type allocNC struct {
	id  string
	its []string
	tm  map[string][]string
}

func (n *allocNC) ID() dra.NodeClaimID                   { return unique.Make(n.id) }
func (n *allocNC) NodeName() string                     { return "" }
func (n *allocNC) NodePoolID() dra.NodePoolID           { return unique.Make("pool") }
func (n *allocNC) Requirements() scheduling.Requirements { return scheduling.NewRequirements() }
func (n *allocNC) InstanceTypes() []dra.InstanceTypeID {
	out := []dra.InstanceTypeID{}
	for _, it := range n.its {
		out = append(out, unique.Make(it))
	}
	return out
}
func (n *allocNC) ResourceSlices() map[dra.InstanceTypeID][]dra.ResourceSlice {
	out := map[dra.InstanceTypeID][]dra.ResourceSlice{}
	for _, it := range n.its {
		names := n.tm[it]
		if len(names) == 0 {
			continue
		}
		devs := []cloudprovider.Device{}
		for _, d := range names {
			devs = append(devs, cloudprovider.Device{Name: unique.Make(d)})
		}
		out[unique.Make(it)] = []dra.ResourceSlice{dra.NewTemplateSlice(&cloudprovider.ResourceSliceTemplate{
			Driver: unique.Make(drvTmpl), Pool: cloudprovider.ResourcePool{Name: unique.Make("pool-t")}, Devices: devs})}
	}
	return out
}

func deviceClass(name, driver string) *resourcev1.DeviceClass {
	return &resourcev1.DeviceClass{ObjectMeta: metav1.ObjectMeta{Name: name, UID: "dc-" + "x"},
		Spec: resourcev1.DeviceClassSpec{Selectors: []resourcev1.DeviceSelector{{CEL: &resourcev1.CELDeviceSelector{Expression: fmt.Sprintf(`device.driver == %q`, driver)}}}}}
}

func toClaim(c AClaim) *resourcev1.ResourceClaim {
	req := resourcev1.DeviceRequest{Name: "req", Exactly: &resourcev1.ExactDeviceRequest{DeviceClassName: c.Class, Count: c.Count}}
	if c.Class == "shared" {
		req.Exactly.Capacity = &resourcev1.CapacityRequirements{Requests: map[resourcev1.QualifiedName]resource.Quantity{capDim: *resource.NewQuantity(c.Cap, resource.DecimalSI)}}
	}
	return &resourcev1.ResourceClaim{ObjectMeta: metav1.ObjectMeta{Name: c.Name, Namespace: "default", UID: "rc-x"},
		Spec: resourcev1.ResourceClaimSpec{Devices: resourcev1.DeviceClaim{Requests: []resourcev1.DeviceRequest{req}}}}
}

func implAlloc(raw json.RawMessage) (any, error) {
	var in AllocIn
	if err := json.Unmarshal(raw, &in); err != nil {
		return nil, err
	}
	ctx := context.Background()
	var objs []client.Object
	for _, dc := range []*resourcev1.DeviceClass{deviceClass("gpu", drvExcl), deviceClass("tmpl", drvTmpl), deviceClass("shared", drvShared), deviceClass("part", drvPart)} {
		objs = append(objs, dc)
	}
	kube := world.NewClient(objs...)
	var slices []dra.ResourceSlice
	if len(in.Excl) > 0 {
		s := &resourcev1.ResourceSlice{ObjectMeta: metav1.ObjectMeta{Name: "s-excl"}, Spec: resourcev1.ResourceSliceSpec{Driver: drvExcl,
			Pool: resourcev1.ResourcePool{Name: "pool-a", Generation: 1, ResourceSliceCount: 1}, AllNodes: ptr.To(true)}}
		for _, d := range in.Excl {
			s.Spec.Devices = append(s.Spec.Devices, resourcev1.Device{Name: d})
		}
		slices = append(slices, dra.NewAPIServerSlice(s))
	}
	if len(in.Shared) > 0 {
		s := &resourcev1.ResourceSlice{ObjectMeta: metav1.ObjectMeta{Name: "s-shared"}, Spec: resourcev1.ResourceSliceSpec{Driver: drvShared,
			Pool: resourcev1.ResourcePool{Name: "pool-b", Generation: 1, ResourceSliceCount: 1}, AllNodes: ptr.To(true)}}
		for _, d := range in.Shared {
			s.Spec.Devices = append(s.Spec.Devices, resourcev1.Device{Name: d.Name, AllowMultipleAllocations: ptr.To(true),
				Capacity: map[resourcev1.QualifiedName]resourcev1.DeviceCapacity{capDim: {Value: *resource.NewQuantity(d.Cap, resource.DecimalSI)}}})
		}
		slices = append(slices, dra.NewAPIServerSlice(s))
	}
	if len(in.Parts) > 0 {
		// a pool of two slices: one declares the shared counter, the other the devices that consume it
		cs := &resourcev1.ResourceSlice{ObjectMeta: metav1.ObjectMeta{Name: "s-part-counters"}, Spec: resourcev1.ResourceSliceSpec{Driver: drvPart,
			Pool: resourcev1.ResourcePool{Name: "pool-c", Generation: 1, ResourceSliceCount: 2}, AllNodes: ptr.To(true),
			SharedCounters: []resourcev1.CounterSet{{Name: ctrSet, Counters: map[string]resourcev1.Counter{ctrName: {Value: *resource.NewQuantity(in.Slots, resource.DecimalSI)}}}}}}
		ds := &resourcev1.ResourceSlice{ObjectMeta: metav1.ObjectMeta{Name: "s-part-devices"}, Spec: resourcev1.ResourceSliceSpec{Driver: drvPart,
			Pool: resourcev1.ResourcePool{Name: "pool-c", Generation: 1, ResourceSliceCount: 2}, AllNodes: ptr.To(true)}}
		for _, d := range in.Parts {
			ds.Spec.Devices = append(ds.Spec.Devices, resourcev1.Device{Name: d.Name, ConsumesCounters: []resourcev1.DeviceCounterConsumption{
				{CounterSet: ctrSet, Counters: map[string]resourcev1.Counter{ctrName: {Value: *resource.NewQuantity(d.W, resource.DecimalSI)}}}}})
		}
		slices = append(slices, dra.NewAPIServerSlice(cs), dra.NewAPIServerSlice(ds))
	}
	pre := sets.New[cloudprovider.DeviceID]()
	for _, p := range in.Prealloc {
		pre.Insert(cloudprovider.DeviceID{Driver: unique.Make(drvExcl), Pool: unique.Make("pool-a"), Device: unique.Make(p)})
	}
	al := dra.NewAllocator(slices, dra.AllocatedDeviceState{ExclusiveDevices: pre, ConsumedCapacity: map[cloudprovider.DeviceID]map[resourcev1.QualifiedName]resource.Quantity{}}, nil, kube, nil)
	ncs := map[string]*allocNC{}
	for _, n := range in.NCs {
		ncs[n.Name] = &allocNC{id: n.Name, its: append([]string{}, n.ITs...), tm: in.Tmpl}
	}
	out := AllocOut{Steps: []AllocStep{}}
	snapshot := func(st *AllocStep) {
		st.Meta = []MetaEntry{}
		for cid, meta := range al.ResourceClaimAllocationMetadata() {
			for it, devs := range meta.Devices {
				for _, d := range devs {
					e := MetaEntry{Claim: cid.Value().Name, NC: meta.NodeClaimID.Value(), IT: it.Value(), Dev: d.DeviceID.Device.Value(), Driver: d.DeviceID.Driver.Value(), Template: d.DeviceID.Template}
					if q, ok := d.ConsumedCapacity[capDim]; ok {
						e.Consumed = q.Value()
					}
					st.Meta = append(st.Meta, e)
				}
			}
		}
		sort.Slice(st.Meta, func(i, j int) bool {
			a, b := st.Meta[i], st.Meta[j]
			return fmt.Sprint(a.Claim, "|", a.NC, "|", a.IT, "|", a.Dev, "|", a.Template) < fmt.Sprint(b.Claim, "|", b.NC, "|", b.IT, "|", b.Dev, "|", b.Template)
		})
		at := al.VerifTracker()
		st.Tracker = draSnap(at, nil, nil, nil)
		st.Inflight = map[string]int64{}
		for id, dims := range at.InflightConsumedCapacity {
			if q, ok := dims[capDim]; ok {
				st.Inflight[id.Device.Value()] = q.Value()
			}
		}
		if sets_, ok := at.RemainingCounters[dra.PoolKey{Driver: unique.Make(drvPart), Pool: unique.Make("pool-c")}]; ok {
			if c, ok := sets_[ctrSet][ctrName]; ok {
				st.Counter = ptr.To(c.Value.Value())
			}
		}
	}
	for _, op := range in.Ops {
		st := AllocStep{ITs: []string{}}
		nc := ncs[op.NC]
		if nc == nil {
			return nil, fmt.Errorf("unknown nodeclaim %q", op.NC)
		}
		switch op.Op {
		case "allocate":
			if len(nc.its) == 0 {
				st.Result = "void"
				break
			}
			claims := []*resourcev1.ResourceClaim{}
			for _, c := range op.Claims {
				claims = append(claims, toClaim(c))
			}
			res, err := al.Allocate(ctx, nc, claims)
			if err != nil {
				st.Result = "err"
				break
			}
			st.Result = "ok"
			okITs := sets.New[string]()
			for _, it := range res.InstanceTypes {
				st.ITs = append(st.ITs, it.Value())
				okITs.Insert(it.Value())
			}
			sort.Strings(st.ITs)
			// what NodeClaim.Add does: commit, then release the instance types that were simulated but pruned
			if res.Allocation != nil {
				res.Allocation.Commit(ctx)
			}
			drop := sets.New(op.Drop...)
			var keep []string
			var pruned []dra.InstanceTypeID
			for _, it := range nc.its {
				switch {
				case okITs.Has(it) && !drop.Has(it):
					keep = append(keep, it)
				case okITs.Has(it):
					pruned = append(pruned, unique.Make(it))
				}
			}
			if len(keep) == 0 && len(st.ITs) > 0 {
				// the scheduler never prunes every instance type of a successful placement: keep the first
				keep = []string{st.ITs[0]}
				pruned = nil
				for _, it := range st.ITs[1:] {
					pruned = append(pruned, unique.Make(it))
				}
			}
			if len(pruned) > 0 && res.Allocation != nil {
				al.ReleaseInstanceType(ctx, unique.Make(nc.id), pruned...)
			}
			nc.its = keep
		case "release":
			// every listed instance type is released, whether or not the NodeClaim still lists it (an instance type whose
			// allocation failed for a later pod is dropped from the claim by CanAdd's filter without a release)
			ids := []dra.InstanceTypeID{}
			rel := sets.New(op.ITs...)
			for _, it := range op.ITs {
				ids = append(ids, unique.Make(it))
			}
			var keep []string
			for _, it := range nc.its {
				if !rel.Has(it) {
					keep = append(keep, it)
				}
			}
			al.ReleaseInstanceType(ctx, unique.Make(nc.id), ids...)
			nc.its = keep
			st.Result = "ok"
		default:
			return nil, fmt.Errorf("bad op %q", op.Op)
		}
		snapshot(&st)
		out.Steps = append(out.Steps, st)
	}
	return out, nil
}

func genAlloc(r *rand.Rand, t core.Tier) any {
	in := AllocIn{Excl: []string{}, Shared: []SharedDev{}, Prealloc: []string{}, Parts: []PartDev{}, Tmpl: map[string][]string{}, NCs: []NCSpec{}, Ops: []AllocOp{}}
	for i := 0; i < 1+r.IntN(5); i++ {
		in.Excl = append(in.Excl, fmt.Sprintf("gpu-%d", i))
		if r.IntN(7) == 0 {
			in.Prealloc = append(in.Prealloc, fmt.Sprintf("gpu-%d", i))
		}
	}
	for i := 0; i < r.IntN(3); i++ {
		in.Shared = append(in.Shared, SharedDev{Name: fmt.Sprintf("mig-%d", i), Cap: int64(2 + r.IntN(7))})
	}
	if r.IntN(3) == 0 {
		for i := 0; i < 2+r.IntN(3); i++ {
			in.Parts = append(in.Parts, PartDev{Name: fmt.Sprintf("part-%d", i), W: int64(1 + r.IntN(3))})
		}
		in.Slots = int64(2 + r.IntN(5))
	}
	its := []string{"it-x", "it-y", "it-z"}[:1+r.IntN(3)]
	for _, it := range its {
		if r.IntN(2) == 0 {
			for j := 0; j < 1+r.IntN(2); j++ {
				in.Tmpl[it] = append(in.Tmpl[it], fmt.Sprintf("tdev-%d", j))
			}
		}
	}
	ncNames := []string{"nc-a", "nc-b", "nc-c"}[:1+r.IntN(3)]
	for _, n := range ncNames {
		k := 1 + r.IntN(len(its))
		perm := r.Perm(len(its))
		sel := []string{}
		for _, ix := range perm[:k] {
			sel = append(sel, its[ix])
		}
		sort.Strings(sel)
		in.NCs = append(in.NCs, NCSpec{Name: n, ITs: sel})
	}
	maxOps := 10
	if t == core.Thorough {
		maxOps = 24
	}
	nOps := 1 + r.IntN(maxOps)
	claimSeq := 0
	var issued []AClaim
	for i := 0; i < nOps; i++ {
		nc := pick(r, ncNames)
		if r.IntN(100) < 75 {
			op := AllocOp{Op: "allocate", NC: nc}
			for k := 0; k < 1+r.IntN(2); k++ {
				if len(issued) > 0 && r.IntN(8) == 0 {
					// a claim shared with an earlier pod (never the same claim twice in one pod)
					c := pick(r, issued)
					dup := false
					for _, x := range op.Claims {
						dup = dup || x.Name == c.Name
					}
					if !dup {
						op.Claims = append(op.Claims, c)
					}
					continue
				}
				c := AClaim{Name: fmt.Sprintf("rc-%d", claimSeq), Count: 1}
				claimSeq++
				switch x := r.IntN(10); {
				case len(in.Parts) > 0 && x < 4:
					c.Class = "part"
				case x < 6 || (len(in.Shared) == 0 && len(in.Tmpl) == 0):
					c.Class = "gpu"
					c.Count = int64(1 + r.IntN(2))
				case x < 8 && len(in.Shared) > 0:
					c.Class = "shared"
					c.Cap = int64(1 + r.IntN(4))
				case len(in.Tmpl) > 0:
					c.Class = "tmpl"
				default:
					c.Class = "gpu"
				}
				op.Claims = append(op.Claims, c)
			}
			if len(op.Claims) == 0 {
				continue
			}
			for _, c := range op.Claims {
				known := false
				for _, x := range issued {
					known = known || x.Name == c.Name
				}
				if !known {
					issued = append(issued, c)
				}
			}
			if r.IntN(4) == 0 {
				op.Drop = []string{pick(r, its)}
			}
			in.Ops = append(in.Ops, op)
		} else {
			in.Ops = append(in.Ops, AllocOp{Op: "release", NC: nc, ITs: []string{pick(r, its)}})
		}
	}
	return in
}

func opAlloc() *core.Op {
	return &core.Op{
		Name: "c17.alloc",
		Doc:  "the real dynamicresources.Allocator on the fake client (DeviceClasses with CEL selectors): in-cluster ResourceSlices with 1..5 exclusive devices (some already allocated in the cluster) and 0..2 multi-allocatable devices with consumable capacity, per-instance-type template devices, 1..3 NodeClaims superposed over 1..3 instance types; sequences of Allocate → Allocation.Commit → ReleaseInstanceType(pruned types) exactly as NodeClaim.Add drives them, plus later releases, with fresh and re-used ResourceClaims; observed after every op: ResourceClaimAllocationMetadata (= Results.DRAClaimAllocationMetadata) and the tracker's maps (hook VerifTracker); the devices the allocator chose are replayed through the Lean tracker model (they must all be free by IsAllocated) and the metadata is judged by the exclusivity / capacity specification",
		N:    func(t core.Tier) int { return map[core.Tier]int{core.Quick: 3000, core.Thorough: 10000}[t] },
		Gen:  genAlloc,
		Impl: implAlloc,
		Rule: "non-trivial = at some point two ResourceClaims of different NodeClaims were allocated, or an allocation failed for lack of free devices / capacity",
		Nontrivial: func(raw json.RawMessage, impl any) bool {
			m, _ := impl.(map[string]any)
			steps, _ := m["steps"].([]any)
			for _, s := range steps {
				sm, _ := s.(map[string]any)
				if fmt.Sprint(sm["result"]) == "err" {
					return true
				}
				meta, _ := sm["meta"].([]any)
				ncs := map[string]bool{}
				for _, e := range meta {
					em, _ := e.(map[string]any)
					ncs[fmt.Sprint(em["nc"])] = true
				}
				if len(ncs) > 1 {
					return true
				}
			}
			return false
		},
		Labels: func(raw json.RawMessage, impl any) []string {
			var in AllocIn
			json.Unmarshal(raw, &in)
			m, _ := impl.(map[string]any)
			steps, _ := m["steps"].([]any)
			l := []string{}
			seen := map[string]bool{}
			add := func(k string) {
				if !seen[k] {
					seen[k] = true
					l = append(l, k)
				}
			}
			for i, s := range steps {
				sm, _ := s.(map[string]any)
				add(in.Ops[i].Op + ":" + fmt.Sprint(sm["result"]))
				meta, _ := sm["meta"].([]any)
				for _, e := range meta {
					em, _ := e.(map[string]any)
					switch {
					case em["template"] == true:
						add("template-device-allocated")
					case strings.HasPrefix(fmt.Sprint(em["dev"]), "mig-"):
						add("shared-device-allocated")
					case strings.HasPrefix(fmt.Sprint(em["dev"]), "part-"):
						add("counter-device-allocated")
					default:
						add("exclusive-device-allocated")
					}
				}
			}
			return l
		},
		Signature: func(raw json.RawMessage, impl any) string { return "alloc" },
		Shrink: func(raw json.RawMessage) []any {
			var in AllocIn
			json.Unmarshal(raw, &in)
			var out []any
			for _, c := range core.ShrinkList(in.Ops) {
				d := in
				d.Ops = c
				out = append(out, d)
			}
			return out
		},
	}
}
