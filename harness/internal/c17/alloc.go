package c17

import (
	"context"
	"encoding/json"
	"fmt"
	"math/rand/v2"
	"sort"
	"strings"
	"unique"

	corev1 "k8s.io/api/core/v1"
	resourcev1 "k8s.io/api/resource/v1"
	"k8s.io/apimachinery/pkg/api/resource"
	metav1 "k8s.io/apimachinery/pkg/apis/meta/v1"
	"k8s.io/apimachinery/pkg/util/sets"
	"k8s.io/utils/ptr"
	"sigs.k8s.io/controller-runtime/pkg/client"

	"sigs.k8s.io/karpenter/pkg/cloudprovider"
	"sigs.k8s.io/karpenter/pkg/scheduling"
	dra "sigs.k8s.io/karpenter/pkg/scheduling/dynamicresources"

	"verifharness/internal/core"
	"verifharness/internal/world"
)

// ---------------------------------------------------------------------------------------------
// c17.alloc — the real dynamicresources.Allocator (Allocate → Allocation.Commit → ReleaseInstanceType, as NodeClaim.Add
// drives it) on ResourceSlice / ResourceClaim populations; observed: ResourceClaimAllocationMetadata (what the scheduler
// publishes as Results.DRAClaimAllocationMetadata) and the allocation tracker's maps
// ---------------------------------------------------------------------------------------------

const (
	drvExcl   = "gpu.example.com"
	drvShared = "shared.example.com"
	drvTmpl   = "tmpl.example.com"
	drvPart   = "part.example.com"
	drvTPart  = "tpart.example.com"
	capDim    = "mem"
	capDim2   = "bw"
	ctrSet    = "cs"
	ctrName   = "slots"
)

// PartDev is an exclusive in-cluster device that consumes W units of the pool's shared counter (a partition of a
// partitionable device); Pre = the partition is already allocated in the cluster (AllocatedDeviceState.ExclusiveDevices)
type PartDev struct {
	Name string `json:"name"`
	W    int64  `json:"w"`
	Pre  bool   `json:"pre,omitempty"`
}

// PartSlice is one device slice of a partitionable pool. Access says from where its devices can be used:
// "all" (spec.allNodes), "node:<name>" (spec.nodeName, what node-local drivers publish), "zone:<z>" (spec.nodeSelector on
// the well-known zone label), "rack:<r>" (spec.nodeSelector on the custom label example.com/rack)
type PartSlice struct {
	Access string    `json:"access"`
	Parts  []PartDev `json:"parts"`
}

// PartPool is a pool of counter-consuming devices: one slice that declares the shared counter (published with the
// access of the first device slice, as a driver would) and the device slices
type PartPool struct {
	Name   string      `json:"name"`
	Slots  int64       `json:"slots"`
	Slices []PartSlice `json:"slices"`
}

// TPartPool is the partitionable device an instance type is expected to come with (cloud-provider ResourceSlice
// templates of pool-tp: one template declares the shared counter, one the partitions that consume it); every
// (NodeClaim, instance type) has its own copy of that budget
type TPartPool struct {
	Slots int64     `json:"slots"`
	Parts []PartDev `json:"parts"`
}

// CapPolicy is the requestPolicy of one capacity dimension of a multi-allocatable device (resource.k8s.io/v1
// CapacityRequestPolicy): Def = default (0 = unset: a request without an entry for the dimension consumes the whole
// capacity), Values = validValues (ascending), Range = a validRange with Min, Max (0 = unset) and Step (0 = unset)
type CapPolicy struct {
	Def    int64   `json:"def,omitempty"`
	Values []int64 `json:"values,omitempty"`
	Range  bool    `json:"range,omitempty"`
	Min    int64   `json:"min,omitempty"`
	Max    int64   `json:"max,omitempty"`
	Step   int64   `json:"step,omitempty"`
}

func (p CapPolicy) isZero() bool { return p.Def == 0 && len(p.Values) == 0 && !p.Range }

// SharedDim is a further capacity dimension of a multi-allocatable device
type SharedDim struct {
	Cap int64 `json:"cap"`
	Pre int64 `json:"pre,omitempty"`
	CapPolicy
}

// SharedDev is a multi-allocatable device with the capacity dimension mem (Cap, its request policy inline) and
// optionally a second dimension bw; Pre = capacity already consumed by allocations in the cluster
// (AllocatedDeviceState.ConsumedCapacity)
type SharedDev struct {
	Name string `json:"name"`
	Cap  int64  `json:"cap"`
	Pre  int64  `json:"pre,omitempty"`
	CapPolicy
	Bw *SharedDim `json:"bw,omitempty"`
}

func qty(v int64) resource.Quantity { return *resource.NewQuantity(v, resource.DecimalSI) }

func deviceCapacity(cap int64, p CapPolicy) resourcev1.DeviceCapacity {
	dc := resourcev1.DeviceCapacity{Value: qty(cap)}
	if p.isZero() {
		return dc
	}
	dc.RequestPolicy = &resourcev1.CapacityRequestPolicy{}
	if p.Def != 0 {
		dc.RequestPolicy.Default = ptr.To(qty(p.Def))
	}
	for _, v := range p.Values {
		dc.RequestPolicy.ValidValues = append(dc.RequestPolicy.ValidValues, qty(v))
	}
	if p.Range {
		dc.RequestPolicy.ValidRange = &resourcev1.CapacityRequestPolicyRange{Min: ptr.To(qty(p.Min))}
		if p.Max != 0 {
			dc.RequestPolicy.ValidRange.Max = ptr.To(qty(p.Max))
		}
		if p.Step != 0 {
			dc.RequestPolicy.ValidRange.Step = ptr.To(qty(p.Step))
		}
	}
	return dc
}

// sharedDevice is the ResourceSlice device of a SharedDev
func sharedDevice(d SharedDev) resourcev1.Device {
	dev := resourcev1.Device{Name: d.Name, AllowMultipleAllocations: ptr.To(true),
		Capacity: map[resourcev1.QualifiedName]resourcev1.DeviceCapacity{capDim: deviceCapacity(d.Cap, d.CapPolicy)}}
	if d.Bw != nil {
		dev.Capacity[capDim2] = deviceCapacity(d.Bw.Cap, d.Bw.CapPolicy)
	}
	return dev
}

// sharedPreConsumed: what allocations in the cluster already consume of the device, per dimension
func sharedPreConsumed(d SharedDev) map[resourcev1.QualifiedName]resource.Quantity {
	m := map[resourcev1.QualifiedName]resource.Quantity{}
	if d.Pre > 0 {
		m[capDim] = qty(d.Pre)
	}
	if d.Bw != nil && d.Bw.Pre > 0 {
		m[capDim2] = qty(d.Bw.Pre)
	}
	return m
}

// AClaim: for class shared, Cap / Bw are the capacity requests for the dimensions mem / bw; 0 = the request has no entry
// for that dimension (both 0: spec.devices.requests[].exactly.capacity is left unset) — the dimension is then consumed
// at its requestPolicy.default, or in full
type AClaim struct {
	Name  string `json:"name"`
	Class string `json:"class"` // gpu (exclusive in-cluster) | tmpl (template devices of the instance type) | shared (multi-allocatable, consumes Cap) | part (exclusive, consumes shared counters) | tpart (template partition, consumes the template counter of its instance type)
	Count int64  `json:"count"`
	Cap   int64  `json:"cap"`
	Bw    int64  `json:"bw,omitempty"`
}

type AllocOp struct {
	Op     string   `json:"op"` // allocate | release
	NC     string   `json:"nc"`
	Claims []AClaim `json:"claims"`
	Drop   []string `json:"drop"` // allocate: instance types the scheduler prunes right after the commit (fit / offering filters)
	ITs    []string `json:"its"`  // release
}

// NCSpec: Node == "" is an in-flight NodeClaim (a superposition of instance types, requirements narrowed by Zone / Rack
// when set); Node != "" is an existing initialized node of that name (one instance type, its labels as requirements, no
// template devices) — what ExistingNode.CanAdd hands to the allocator
type NCSpec struct {
	Name string   `json:"name"`
	ITs  []string `json:"its"`
	Node string   `json:"node,omitempty"`
	Zone string   `json:"zone,omitempty"`
	Rack string   `json:"rack,omitempty"`
}

type AllocIn struct {
	Excl     []string            `json:"excl"`
	Shared   []SharedDev         `json:"shared"`
	Prealloc []string            `json:"prealloc"`
	Parts    []PartDev           `json:"parts"` // counter-consuming devices of pool-c (one cluster-wide slice)
	Slots    int64               `json:"slots"` // the shared counter of pool-c
	PPools   []PartPool          `json:"ppools,omitempty"` // further partitionable pools: node-local, zonal, rack-local, split over slices
	TParts   map[string]TPartPool `json:"tparts,omitempty"` // instance type -> its template partitionable device
	Tmpl     map[string][]string `json:"tmpl"`  // instance type -> template device names
	NCs      []NCSpec            `json:"ncs"`
	Ops      []AllocOp           `json:"ops"`
}

type MetaEntry struct {
	Claim    string `json:"claim"`
	NC       string `json:"nc"`
	IT       string `json:"it"`
	Dev      string `json:"dev"`
	Pool     string `json:"pool"`
	Driver   string `json:"driver"`
	Template bool   `json:"template"`
	Consumed int64  `json:"consumed"` // consumed capacity (dimension mem) reported for a multi-allocatable device, 0 otherwise
	ConsumedBw int64 `json:"consumedBw,omitempty"` // likewise for the dimension bw
}

func metaEntry(claim string, nc, it string, d dra.DeviceAllocationResult) MetaEntry {
	e := MetaEntry{Claim: claim, NC: nc, IT: it, Dev: d.DeviceID.Device.Value(), Pool: d.DeviceID.Pool.Value(), Driver: d.DeviceID.Driver.Value(), Template: d.DeviceID.Template}
	if q, ok := d.ConsumedCapacity[capDim]; ok {
		e.Consumed = q.Value()
	}
	if q, ok := d.ConsumedCapacity[capDim2]; ok {
		e.ConsumedBw = q.Value()
	}
	return e
}

type AllocStep struct {
	Result   string           `json:"result"`   // ok | err | void
	ITs      []string         `json:"its"`      // instance types the allocation succeeded for
	Meta     []MetaEntry      `json:"meta"`     // the whole ResourceClaimAllocationMetadata after the op
	Tracker  DraSnap          `json:"tracker"`  // the tracker's exclusive-device maps (Allocated left empty)
	Inflight map[string]int64 `json:"inflight"` // tracker.InflightConsumedCapacity[shared device][mem]
	InflightBw map[string]int64 `json:"inflightBw,omitempty"` // tracker.InflightConsumedCapacity[shared device][bw]
	Counters map[string]int64 `json:"counters"` // tracker.RemainingCounters[pool][cs][slots] of every partitionable pool it tracks
}

type AllocOut struct {
	Steps []AllocStep `json:"steps"`
	Err   string      `json:"err,omitempty"`
}

type allocNC struct {
	id   string
	node string // name of the existing node, "" for an in-flight NodeClaim
	reqs scheduling.Requirements
	its  []string
	tm   map[string][]string
	tp   map[string]TPartPool
}

func (n *allocNC) ID() dra.NodeClaimID                   { return unique.Make(n.id) }
func (n *allocNC) NodeName() string                     { return n.node }
func (n *allocNC) NodePoolID() dra.NodePoolID           { return unique.Make("pool") }
func (n *allocNC) Requirements() scheduling.Requirements { return n.reqs }
func (n *allocNC) InstanceTypes() []dra.InstanceTypeID {
	out := []dra.InstanceTypeID{}
	for _, it := range n.its {
		out = append(out, unique.Make(it))
	}
	return out
}
func (n *allocNC) ResourceSlices() map[dra.InstanceTypeID][]dra.ResourceSlice {
	out := map[dra.InstanceTypeID][]dra.ResourceSlice{}
	if n.node != "" {
		// an initialized node: its devices are published in the cluster
		return out
	}
	for _, it := range n.its {
		out[unique.Make(it)] = append(templateSlices(n.tm[it]), templatePartSlices(n.tp[it])...)
		if len(out[unique.Make(it)]) == 0 {
			delete(out, unique.Make(it))
		}
	}
	return out
}

func templateSlices(names []string) []dra.ResourceSlice {
	if len(names) == 0 {
		return nil
	}
	devs := []cloudprovider.Device{}
	for _, d := range names {
		devs = append(devs, cloudprovider.Device{Name: unique.Make(d)})
	}
	return []dra.ResourceSlice{dra.NewTemplateSlice(&cloudprovider.ResourceSliceTemplate{
		Driver: unique.Make(drvTmpl), Pool: cloudprovider.ResourcePool{Name: unique.Make("pool-t")}, Devices: devs})}
}

func templatePartTemplates(tp TPartPool) []*cloudprovider.ResourceSliceTemplate {
	if len(tp.Parts) == 0 {
		return nil
	}
	devs := []cloudprovider.Device{}
	for _, d := range tp.Parts {
		devs = append(devs, cloudprovider.Device{Name: unique.Make(d.Name), ConsumesCounters: []resourcev1.DeviceCounterConsumption{
			{CounterSet: ctrSet, Counters: map[string]resourcev1.Counter{ctrName: {Value: *resource.NewQuantity(d.W, resource.DecimalSI)}}}}})
	}
	pool := cloudprovider.ResourcePool{Name: unique.Make("pool-tp")}
	return []*cloudprovider.ResourceSliceTemplate{
		{Driver: unique.Make(drvTPart), Pool: pool, SharedCounters: []resourcev1.CounterSet{{Name: ctrSet, Counters: map[string]resourcev1.Counter{ctrName: {Value: *resource.NewQuantity(tp.Slots, resource.DecimalSI)}}}}},
		{Driver: unique.Make(drvTPart), Pool: pool, Devices: devs},
	}
}

func templatePartSlices(tp TPartPool) []dra.ResourceSlice {
	var out []dra.ResourceSlice
	for _, t := range templatePartTemplates(tp) {
		out = append(out, dra.NewTemplateSlice(t))
	}
	return out
}

const rackLabel = "example.com/rack"

func newAllocNC(n NCSpec, tm map[string][]string, tp map[string]TPartPool) *allocNC {
	nc := &allocNC{id: n.Name, node: n.Node, its: append([]string{}, n.ITs...), tm: tm, tp: tp}
	if n.Node != "" {
		// ExistingNode.requirements: the node's labels plus its hostname
		labels := map[string]string{corev1.LabelHostname: n.Node}
		if len(n.ITs) > 0 {
			labels[corev1.LabelInstanceTypeStable] = n.ITs[0]
			nc.its = nc.its[:1]
		}
		if n.Zone != "" {
			labels[corev1.LabelTopologyZone] = n.Zone
		}
		if n.Rack != "" {
			labels[rackLabel] = n.Rack
		}
		nc.reqs = scheduling.NewLabelRequirements(labels)
		return nc
	}
	nc.reqs = scheduling.NewRequirements()
	if n.Zone != "" {
		nc.reqs.Add(scheduling.NewRequirement(corev1.LabelTopologyZone, corev1.NodeSelectorOpIn, n.Zone))
	}
	if n.Rack != "" {
		nc.reqs.Add(scheduling.NewRequirement(rackLabel, corev1.NodeSelectorOpIn, n.Rack))
	}
	return nc
}

// setAccess publishes a slice as cluster-wide, node-local, zonal or rack-local
func setAccess(spec *resourcev1.ResourceSliceSpec, access string) error {
	kind, val, _ := strings.Cut(access, ":")
	sel := func(key string) *corev1.NodeSelector {
		return &corev1.NodeSelector{NodeSelectorTerms: []corev1.NodeSelectorTerm{{MatchExpressions: []corev1.NodeSelectorRequirement{
			{Key: key, Operator: corev1.NodeSelectorOpIn, Values: []string{val}}}}}}
	}
	switch {
	case access == "all" || access == "":
		spec.AllNodes = ptr.To(true)
	case kind == "node" && val != "":
		spec.NodeName = ptr.To(val)
	case kind == "zone" && val != "":
		spec.NodeSelector = sel(corev1.LabelTopologyZone)
	case kind == "rack" && val != "":
		spec.NodeSelector = sel(rackLabel)
	default:
		return fmt.Errorf("bad slice access %q", access)
	}
	return nil
}

// partPools: the legacy single pool-c (cluster-wide) followed by the explicit pools
func (in *AllocIn) partPools() []PartPool {
	var out []PartPool
	if len(in.Parts) > 0 {
		out = append(out, PartPool{Name: "pool-c", Slots: in.Slots, Slices: []PartSlice{{Access: "all", Parts: in.Parts}}})
	}
	return append(out, in.PPools...)
}

func deviceClass(name, driver string) *resourcev1.DeviceClass {
	return &resourcev1.DeviceClass{ObjectMeta: metav1.ObjectMeta{Name: name, UID: "dc-" + "x"},
		Spec: resourcev1.DeviceClassSpec{Selectors: []resourcev1.DeviceSelector{{CEL: &resourcev1.CELDeviceSelector{Expression: fmt.Sprintf(`device.driver == %q`, driver)}}}}}
}

func toClaim(c AClaim) *resourcev1.ResourceClaim {
	req := resourcev1.DeviceRequest{Name: "req", Exactly: &resourcev1.ExactDeviceRequest{DeviceClassName: c.Class, Count: c.Count}}
	if c.Class == "shared" && (c.Cap != 0 || c.Bw != 0) {
		req.Exactly.Capacity = &resourcev1.CapacityRequirements{Requests: map[resourcev1.QualifiedName]resource.Quantity{}}
		if c.Cap != 0 {
			req.Exactly.Capacity.Requests[capDim] = qty(c.Cap)
		}
		if c.Bw != 0 {
			req.Exactly.Capacity.Requests[capDim2] = qty(c.Bw)
		}
	}
	return &resourcev1.ResourceClaim{ObjectMeta: metav1.ObjectMeta{Name: c.Name, Namespace: "default", UID: "rc-x"},
		Spec: resourcev1.ResourceClaimSpec{Devices: resourcev1.DeviceClaim{Requests: []resourcev1.DeviceRequest{req}}}}
}

func implAlloc(raw json.RawMessage) (any, error) {
	var in AllocIn
	if err := json.Unmarshal(raw, &in); err != nil {
		return nil, err
	}
	ctx := context.Background()
	var objs []client.Object
	for _, dc := range []*resourcev1.DeviceClass{deviceClass("gpu", drvExcl), deviceClass("tmpl", drvTmpl), deviceClass("shared", drvShared), deviceClass("part", drvPart), deviceClass("tpart", drvTPart)} {
		objs = append(objs, dc)
	}
	kube := world.NewClient(objs...)
	var slices []dra.ResourceSlice
	if len(in.Excl) > 0 {
		s := &resourcev1.ResourceSlice{ObjectMeta: metav1.ObjectMeta{Name: "s-excl"}, Spec: resourcev1.ResourceSliceSpec{Driver: drvExcl,
			Pool: resourcev1.ResourcePool{Name: "pool-a", Generation: 1, ResourceSliceCount: 1}, AllNodes: ptr.To(true)}}
		for _, d := range in.Excl {
			s.Spec.Devices = append(s.Spec.Devices, resourcev1.Device{Name: d})
		}
		slices = append(slices, dra.NewAPIServerSlice(s))
	}
	if len(in.Shared) > 0 {
		s := &resourcev1.ResourceSlice{ObjectMeta: metav1.ObjectMeta{Name: "s-shared"}, Spec: resourcev1.ResourceSliceSpec{Driver: drvShared,
			Pool: resourcev1.ResourcePool{Name: "pool-b", Generation: 1, ResourceSliceCount: 1}, AllNodes: ptr.To(true)}}
		for _, d := range in.Shared {
			s.Spec.Devices = append(s.Spec.Devices, sharedDevice(d))
		}
		slices = append(slices, dra.NewAPIServerSlice(s))
	}
	pre := sets.New[cloudprovider.DeviceID]()
	for _, p := range in.Prealloc {
		pre.Insert(cloudprovider.DeviceID{Driver: unique.Make(drvExcl), Pool: unique.Make("pool-a"), Device: unique.Make(p)})
	}
	// device names are global in the protocol (the specification looks a device up by its name)
	devNames := sets.New[string](in.Excl...)
	for _, d := range in.Shared {
		devNames.Insert(d.Name)
	}
	for _, tp := range in.TParts {
		for _, d := range tp.Parts {
			devNames.Insert(d.Name) // the same template device may be listed for several instance types
		}
	}
	poolNames := sets.New("pool-a", "pool-b", "pool-t", "pool-tp")
	pools := in.partPools()
	for _, pp := range pools {
		if poolNames.Has(pp.Name) {
			return AllocOut{Err: "duplicate pool name " + pp.Name}, nil
		}
		poolNames.Insert(pp.Name)
		// one slice declares the shared counter, the others the devices that consume it
		n := int64(1 + len(pp.Slices))
		cs := &resourcev1.ResourceSlice{ObjectMeta: metav1.ObjectMeta{Name: "s-" + pp.Name + "-counters"}, Spec: resourcev1.ResourceSliceSpec{Driver: drvPart,
			Pool:           resourcev1.ResourcePool{Name: pp.Name, Generation: 1, ResourceSliceCount: n},
			SharedCounters: []resourcev1.CounterSet{{Name: ctrSet, Counters: map[string]resourcev1.Counter{ctrName: {Value: *resource.NewQuantity(pp.Slots, resource.DecimalSI)}}}}}}
		access := "all"
		if len(pp.Slices) > 0 {
			access = pp.Slices[0].Access
		}
		if err := setAccess(&cs.Spec, access); err != nil {
			return AllocOut{Err: err.Error()}, nil
		}
		slices = append(slices, dra.NewAPIServerSlice(cs))
		for i, sl := range pp.Slices {
			ds := &resourcev1.ResourceSlice{ObjectMeta: metav1.ObjectMeta{Name: fmt.Sprintf("s-%s-devices-%d", pp.Name, i)}, Spec: resourcev1.ResourceSliceSpec{Driver: drvPart,
				Pool: resourcev1.ResourcePool{Name: pp.Name, Generation: 1, ResourceSliceCount: n}}}
			if err := setAccess(&ds.Spec, sl.Access); err != nil {
				return AllocOut{Err: err.Error()}, nil
			}
			for _, d := range sl.Parts {
				if devNames.Has(d.Name) {
					return AllocOut{Err: "duplicate device name " + d.Name}, nil
				}
				devNames.Insert(d.Name)
				ds.Spec.Devices = append(ds.Spec.Devices, resourcev1.Device{Name: d.Name, ConsumesCounters: []resourcev1.DeviceCounterConsumption{
					{CounterSet: ctrSet, Counters: map[string]resourcev1.Counter{ctrName: {Value: *resource.NewQuantity(d.W, resource.DecimalSI)}}}}})
				if d.Pre {
					pre.Insert(cloudprovider.DeviceID{Driver: unique.Make(drvPart), Pool: unique.Make(pp.Name), Device: unique.Make(d.Name)})
				}
			}
			slices = append(slices, dra.NewAPIServerSlice(ds))
		}
	}
	consumed := map[cloudprovider.DeviceID]map[resourcev1.QualifiedName]resource.Quantity{}
	for _, d := range in.Shared {
		if pc := sharedPreConsumed(d); len(pc) > 0 {
			consumed[cloudprovider.DeviceID{Driver: unique.Make(drvShared), Pool: unique.Make("pool-b"), Device: unique.Make(d.Name)}] = pc
		}
	}
	al := dra.NewAllocator(slices, dra.AllocatedDeviceState{ExclusiveDevices: pre, ConsumedCapacity: consumed}, nil, kube, nil)
	ncs := map[string]*allocNC{}
	for _, n := range in.NCs {
		ncs[n.Name] = newAllocNC(n, in.Tmpl, in.TParts)
	}
	out := AllocOut{Steps: []AllocStep{}}
	snapshot := func(st *AllocStep) {
		st.Meta = []MetaEntry{}
		for cid, meta := range al.ResourceClaimAllocationMetadata() {
			for it, devs := range meta.Devices {
				for _, d := range devs {
					st.Meta = append(st.Meta, metaEntry(cid.Value().Name, meta.NodeClaimID.Value(), it.Value(), d))
				}
			}
		}
		sort.Slice(st.Meta, func(i, j int) bool {
			a, b := st.Meta[i], st.Meta[j]
			return fmt.Sprint(a.Claim, "|", a.NC, "|", a.IT, "|", a.Dev, "|", a.Template) < fmt.Sprint(b.Claim, "|", b.NC, "|", b.IT, "|", b.Dev, "|", b.Template)
		})
		at := al.VerifTracker()
		st.Tracker = draSnap(at, nil, nil, nil)
		st.Inflight = map[string]int64{}
		for id, dims := range at.InflightConsumedCapacity {
			if q, ok := dims[capDim]; ok {
				st.Inflight[id.Device.Value()] = q.Value()
			}
			if q, ok := dims[capDim2]; ok {
				if st.InflightBw == nil {
					st.InflightBw = map[string]int64{}
				}
				st.InflightBw[id.Device.Value()] = q.Value()
			}
		}
		st.Counters = map[string]int64{}
		for _, pp := range pools {
			if sets_, ok := at.RemainingCounters[dra.PoolKey{Driver: unique.Make(drvPart), Pool: unique.Make(pp.Name)}]; ok {
				if c, ok := sets_[ctrSet][ctrName]; ok {
					st.Counters[pp.Name] = c.Value.Value()
				}
			}
		}
	}
	for _, op := range in.Ops {
		st := AllocStep{ITs: []string{}}
		nc := ncs[op.NC]
		if nc == nil {
			return nil, fmt.Errorf("unknown nodeclaim %q", op.NC)
		}
		switch op.Op {
		case "allocate":
			if len(nc.its) == 0 {
				st.Result = "void"
				break
			}
			claims := []*resourcev1.ResourceClaim{}
			for _, c := range op.Claims {
				claims = append(claims, toClaim(c))
			}
			res, err := al.Allocate(ctx, nc, claims)
			if err != nil {
				st.Result = "err"
				break
			}
			if nc.node == "" {
				// NodeClaim.tryVolumeAlternative: the topology the allocated devices contribute must fit the claim and narrows it
				// (an existing node's requirements are its labels and stay as they are)
				if nc.reqs.Compatible(res.Requirements, scheduling.AllowUndefinedWellKnownLabels) != nil {
					st.Result = "err"
					break
				}
				merged := scheduling.NewRequirements(nc.reqs.Values()...)
				merged.Add(res.Requirements.Values()...)
				nc.reqs = merged
			}
			st.Result = "ok"
			okITs := sets.New[string]()
			for _, it := range res.InstanceTypes {
				st.ITs = append(st.ITs, it.Value())
				okITs.Insert(it.Value())
			}
			sort.Strings(st.ITs)
			// what NodeClaim.Add does: commit, then release the instance types that were simulated but pruned
			if res.Allocation != nil {
				res.Allocation.Commit(ctx)
			}
			drop := sets.New(op.Drop...)
			var keep []string
			var pruned []dra.InstanceTypeID
			for _, it := range nc.its {
				switch {
				case okITs.Has(it) && !drop.Has(it):
					keep = append(keep, it)
				case okITs.Has(it):
					pruned = append(pruned, unique.Make(it))
				}
			}
			if len(keep) == 0 && len(st.ITs) > 0 {
				// the scheduler never prunes every instance type of a successful placement: keep the first
				keep = []string{st.ITs[0]}
				pruned = nil
				for _, it := range st.ITs[1:] {
					pruned = append(pruned, unique.Make(it))
				}
			}
			if len(pruned) > 0 && res.Allocation != nil {
				al.ReleaseInstanceType(ctx, unique.Make(nc.id), pruned...)
			}
			nc.its = keep
		case "release":
			// every listed instance type is released, whether or not the NodeClaim still lists it (an instance type whose
			// allocation failed for a later pod is dropped from the claim by CanAdd's filter without a release)
			ids := []dra.InstanceTypeID{}
			rel := sets.New(op.ITs...)
			for _, it := range op.ITs {
				ids = append(ids, unique.Make(it))
			}
			var keep []string
			for _, it := range nc.its {
				if !rel.Has(it) {
					keep = append(keep, it)
				}
			}
			al.ReleaseInstanceType(ctx, unique.Make(nc.id), ids...)
			nc.its = keep
			st.Result = "ok"
		default:
			return nil, fmt.Errorf("bad op %q", op.Op)
		}
		snapshot(&st)
		out.Steps = append(out.Steps, st)
	}
	return out, nil
}

// slotsFor picks the shared counter of a pool whose preallocated partitions already consume used units: often exactly
// exhausted or one partition short of it (the boundary), otherwise anything from used upwards — never less than used
// (the cluster state is consistent)
func slotsFor(r *rand.Rand, used int64, parts []PartDev) int64 {
	switch r.IntN(4) {
	case 0:
		if used > 0 {
			return used
		}
	case 1:
		return used + pick(r, parts).W - int64(r.IntN(2))
	}
	return max(used, int64(2+r.IntN(5))) + int64(r.IntN(2))
}

// sharedLabels: the distribution of multi-allocatable devices and of the claims against them (claims = the claims of the
// input, granted = names of the claims that hold a share of a multi-allocatable device in the end / at some point)
func sharedLabels(add func(string), shared []SharedDev, claims []AClaim, granted map[string]bool) {
	polKind := func(p CapPolicy) string {
		switch {
		case p.Range && p.Step != 0 && p.Min%p.Step != 0 && p.Max != 0:
			return "range+step+max,min-off-the-multiples-of-step"
		case p.Range && p.Step != 0 && p.Min%p.Step != 0:
			return "range+step,min-off-the-multiples-of-step"
		case p.Range && p.Step != 0 && p.Max != 0:
			return "range+step+max"
		case p.Range && p.Step != 0:
			return "range+step"
		case p.Range && p.Max != 0:
			return "range+max"
		case p.Range:
			return "range"
		case len(p.Values) > 0:
			return "valid-values"
		case p.Def != 0:
			return "default-only"
		}
		return "none"
	}
	for _, d := range shared {
		add("shared-device-policy:" + polKind(d.CapPolicy))
		if d.Bw != nil {
			add("shared-device-second-dimension-policy:" + polKind(d.Bw.CapPolicy))
		}
	}
	for _, c := range claims {
		if c.Class != "shared" {
			continue
		}
		k := "shared-claim:"
		switch {
		case c.Cap == 0 && c.Bw == 0:
			k += "no-capacity-request"
		case c.Cap == 0:
			k += "second-dimension-only"
		case c.Bw == 0:
			k += "first-dimension-only"
		default:
			k += "both-dimensions"
		}
		if c.Count > 1 {
			add("shared-claim-count-2")
		}
		if granted[c.Name] {
			k += ":granted"
		} else {
			k += ":not-granted"
		}
		add(k)
	}
}

// genCapPolicy: an API-valid request policy for a dimension of capacity cap (≥ 2): none (a request without an entry
// consumes the whole capacity), a default only, validValues with the default among them, or a validRange (step 1..3; min a
// multiple of step or - half of the cases - any value 0..step+1, so that the grid min + n*step does not pass through the
// multiples of step; max and default on that grid, all within the capacity)
func genCapPolicy(r *rand.Rand, cap int64) CapPolicy {
	switch r.IntN(7) {
	case 0, 1:
		return CapPolicy{}
	case 2, 3:
		return CapPolicy{Def: 1 + r.Int64N(cap)}
	case 4:
		var vals []int64
		for v := int64(1); v <= cap; v++ {
			if r.IntN(3) == 0 {
				vals = append(vals, v)
			}
		}
		if len(vals) == 0 {
			vals = []int64{1 + r.Int64N(cap)}
		}
		return CapPolicy{Values: vals, Def: pick(r, vals)}
	default:
		step := int64(1 + r.IntN(3))
		p := CapPolicy{Range: true, Min: step * r.Int64N(2)}
		if r.IntN(2) == 0 {
			// the grid min + n*step need not pass through 0: any min, in particular one that is not a multiple of step
			// (then a request that is a multiple of step is NOT a grid point)
			p.Min = r.Int64N(step + 2)
		}
		if p.Min+step > cap {
			step, p.Min = 1, 1
		}
		n := (cap - p.Min) / step // grid points above min
		top := p.Min + step*n
		if r.IntN(2) == 0 {
			p.Max = p.Min + step*(1+r.Int64N(n)) // ≥ min+step, ≤ cap
			top = p.Max
		}
		if r.IntN(2) == 0 {
			p.Step = step
		}
		p.Def = p.Min + step*r.Int64N((top-p.Min)/step+1)
		if p.Def == 0 {
			p.Def = p.Min + step
		}
		return p
	}
}

// genSharedDev: a multi-allocatable device of 2..maxCap units of mem, in a third of the cases partly (up to fully)
// consumed in the cluster already; mostly with a request policy; sometimes with a second dimension bw
func genSharedDev(r *rand.Rand, name string, maxCap int) SharedDev {
	d := SharedDev{Name: name, Cap: int64(2 + r.IntN(maxCap-1))}
	if r.IntN(3) == 0 {
		d.Pre = int64(1 + r.IntN(int(d.Cap)))
	}
	if r.IntN(3) != 0 {
		d.CapPolicy = genCapPolicy(r, d.Cap)
	}
	if r.IntN(4) == 0 {
		bw := &SharedDim{Cap: int64(2 + r.IntN(5))}
		if r.IntN(4) == 0 {
			bw.Pre = int64(1 + r.IntN(int(bw.Cap)))
		}
		if r.IntN(4) != 0 {
			bw.CapPolicy = genCapPolicy(r, bw.Cap)
		}
		d.Bw = bw
	}
	return d
}

// genSharedClaim fills the capacity requests of a claim for a multi-allocatable device: in a third of the cases none at
// all (the claim then consumes every dimension at its default, or in full), otherwise 1..4 of mem (sometimes more than
// any device has); bw is requested now and then — also when no device has that dimension
func genSharedClaim(r *rand.Rand, c *AClaim, shared []SharedDev) {
	c.Class = "shared"
	if r.IntN(3) != 0 {
		c.Cap = int64(1 + r.IntN(4))
		if r.IntN(10) == 0 {
			c.Cap = int64(5 + r.IntN(5))
		}
	}
	hasBw := false
	for _, d := range shared {
		hasBw = hasBw || d.Bw != nil
	}
	if (hasBw && r.IntN(3) == 0) || r.IntN(25) == 0 {
		c.Bw = int64(1 + r.IntN(3))
	}
	if len(shared) > 1 && r.IntN(10) == 0 {
		c.Count = 2
	}
}

func genAlloc(r *rand.Rand, t core.Tier) any {
	in := AllocIn{Excl: []string{}, Shared: []SharedDev{}, Prealloc: []string{}, Parts: []PartDev{}, Tmpl: map[string][]string{}, NCs: []NCSpec{}, Ops: []AllocOp{}}
	for i := 0; i < 1+r.IntN(5); i++ {
		in.Excl = append(in.Excl, fmt.Sprintf("gpu-%d", i))
		if r.IntN(7) == 0 {
			in.Prealloc = append(in.Prealloc, fmt.Sprintf("gpu-%d", i))
		}
	}
	for i := 0; i < r.IntN(3); i++ {
		// part of the capacity (sometimes all of it) is consumed by allocations in the cluster
		in.Shared = append(in.Shared, genSharedDev(r, fmt.Sprintf("mig-%d", i), 8))
	}
	partPre := func(parts []PartDev) int64 {
		var used int64
		for _, d := range parts {
			if d.Pre {
				used += d.W
			}
		}
		return used
	}
	if r.IntN(3) == 0 {
		for i := 0; i < 2+r.IntN(3); i++ {
			in.Parts = append(in.Parts, PartDev{Name: fmt.Sprintf("part-%d", i), W: int64(1 + r.IntN(3)), Pre: r.IntN(4) == 0})
		}
		in.Slots = slotsFor(r, partPre(in.Parts), in.Parts)
	}
	// further partitionable pools, published the way real drivers do: node-local (spec.nodeName), zonal or rack-local
	// (node selectors), cluster-wide, or split over two zonal slices that draw on one counter
	nodes := []string{}      // existing nodes that own a node-local pool
	nodeZone := map[string]string{}
	nodeRack := map[string]string{}
	racks := []string{"r1", "r2"}
	if r.IntN(2) == 0 {
		for i := 0; i < 1+r.IntN(2); i++ {
			pp := PartPool{Name: fmt.Sprintf("pool-p%d", i)}
			mk := func(n int, off int) []PartDev {
				ds := []PartDev{}
				for j := 0; j < n; j++ {
					ds = append(ds, PartDev{Name: fmt.Sprintf("p%d-%d", i, off+j), W: int64(1 + r.IntN(3)), Pre: r.IntN(3) == 0})
				}
				return ds
			}
			switch x := r.IntN(10); {
			case x < 5:
				node := fmt.Sprintf("node-%d", i)
				nodes = append(nodes, node)
				nodeZone[node] = pick(r, c17Zones[:2])
				if r.IntN(2) == 0 {
					nodeRack[node] = pick(r, racks)
				}
				pp.Slices = []PartSlice{{Access: "node:" + node, Parts: mk(2+r.IntN(3), 0)}}
				if r.IntN(4) == 0 {
					pp.Slices = append(pp.Slices, PartSlice{Access: "node:" + node, Parts: mk(1+r.IntN(2), 10)})
				}
			case x < 6:
				pp.Slices = []PartSlice{{Access: "all", Parts: mk(2+r.IntN(3), 0)}}
			case x < 7:
				pp.Slices = []PartSlice{{Access: "zone:" + pick(r, c17Zones[:2]), Parts: mk(2+r.IntN(3), 0)}}
			case x < 9:
				pp.Slices = []PartSlice{{Access: "rack:" + pick(r, racks), Parts: mk(2+r.IntN(3), 0)}}
			default:
				pp.Slices = []PartSlice{{Access: "zone:z1", Parts: mk(1+r.IntN(2), 0)}, {Access: "zone:z2", Parts: mk(1+r.IntN(2), 10)}}
			}
			var all []PartDev
			for _, sl := range pp.Slices {
				all = append(all, sl.Parts...)
			}
			pp.Slots = slotsFor(r, partPre(all), all)
			in.PPools = append(in.PPools, pp)
		}
	}
	its := []string{"it-x", "it-y", "it-z"}[:1+r.IntN(3)]
	for _, it := range its {
		if r.IntN(2) == 0 {
			for j := 0; j < 1+r.IntN(2); j++ {
				in.Tmpl[it] = append(in.Tmpl[it], fmt.Sprintf("tdev-%d", j))
			}
		}
	}
	if r.IntN(3) == 0 {
		// instance types that come with a partitionable device of their own (template partitions, template counter)
		in.TParts = map[string]TPartPool{}
		for _, it := range its {
			if r.IntN(3) == 0 {
				continue
			}
			tp := TPartPool{Slots: int64(2 + r.IntN(4))}
			for j := 0; j < 2+r.IntN(2); j++ {
				tp.Parts = append(tp.Parts, PartDev{Name: fmt.Sprintf("tp-%d", j), W: int64(1 + r.IntN(3))})
			}
			in.TParts[it] = tp
		}
	}
	ncNames := []string{"nc-a", "nc-b", "nc-c"}[:1+r.IntN(3)]
	for _, n := range ncNames {
		k := 1 + r.IntN(len(its))
		perm := r.Perm(len(its))
		sel := []string{}
		for _, ix := range perm[:k] {
			sel = append(sel, its[ix])
		}
		sort.Strings(sel)
		nc := NCSpec{Name: n, ITs: sel}
		if len(in.PPools) > 0 {
			// in-flight claims already narrowed to a zone / carrying the rack label of their NodePool
			if r.IntN(3) == 0 {
				nc.Zone = pick(r, c17Zones[:2])
			}
			if r.IntN(2) == 0 {
				nc.Rack = pick(r, racks)
			}
		}
		in.NCs = append(in.NCs, nc)
	}
	// the existing nodes: those that own a node-local pool, sometimes one more that owns nothing
	if len(in.PPools) > 0 && r.IntN(4) == 0 {
		nodes = append(nodes, "node-9")
		nodeZone["node-9"] = pick(r, c17Zones[:2])
		nodeRack["node-9"] = pick(r, racks)
	}
	existing := []string{}
	for _, node := range nodes {
		if r.IntN(8) == 0 {
			continue // the owner of the pool is not a scheduling target in this pass
		}
		n := "en-" + node
		ncNames = append(ncNames, n)
		existing = append(existing, n)
		in.NCs = append(in.NCs, NCSpec{Name: n, ITs: []string{pick(r, its)}, Node: node, Zone: nodeZone[node], Rack: nodeRack[node]})
	}
	maxOps := 10
	if t == core.Thorough {
		maxOps = 24
	}
	nOps := 1 + r.IntN(maxOps)
	claimSeq := 0
	var issued []AClaim
	hasParts := len(in.Parts) > 0 || len(in.PPools) > 0
	for i := 0; i < nOps; i++ {
		nc := pick(r, ncNames)
		if len(existing) > 0 && r.IntN(3) == 0 {
			nc = pick(r, existing) // favour the existing nodes
		}
		if r.IntN(100) < 75 || strings.HasPrefix(nc, "en-") { // the scheduler never prunes the instance type of an existing node
			op := AllocOp{Op: "allocate", NC: nc}
			for k := 0; k < 1+r.IntN(2); k++ {
				if len(issued) > 0 && r.IntN(8) == 0 {
					// a claim shared with an earlier pod (never the same claim twice in one pod)
					c := pick(r, issued)
					dup := false
					for _, x := range op.Claims {
						dup = dup || x.Name == c.Name
					}
					if !dup {
						op.Claims = append(op.Claims, c)
					}
					continue
				}
				c := AClaim{Name: fmt.Sprintf("rc-%d", claimSeq), Count: 1}
				claimSeq++
				switch x := r.IntN(10); {
				case len(in.TParts) > 0 && r.IntN(3) == 0:
					c.Class = "tpart"
					if r.IntN(6) == 0 {
						c.Count = 2
					}
				case hasParts && (x < 4 || (len(in.PPools) > 0 && x < 6)):
					c.Class = "part"
					if r.IntN(6) == 0 {
						c.Count = 2
					}
				case x < 6 || (len(in.Shared) == 0 && len(in.Tmpl) == 0):
					c.Class = "gpu"
					c.Count = int64(1 + r.IntN(2))
				case x < 8 && len(in.Shared) > 0:
					genSharedClaim(r, &c, in.Shared)
				case len(in.Tmpl) > 0:
					c.Class = "tmpl"
				default:
					c.Class = "gpu"
				}
				op.Claims = append(op.Claims, c)
			}
			if len(op.Claims) == 0 {
				continue
			}
			for _, c := range op.Claims {
				known := false
				for _, x := range issued {
					known = known || x.Name == c.Name
				}
				if !known {
					issued = append(issued, c)
				}
			}
			if r.IntN(4) == 0 {
				op.Drop = []string{pick(r, its)}
			}
			in.Ops = append(in.Ops, op)
		} else {
			in.Ops = append(in.Ops, AllocOp{Op: "release", NC: nc, ITs: []string{pick(r, its)}})
		}
	}
	return in
}

func opAlloc() *core.Op {
	return &core.Op{
		Name: "c17.alloc",
		Doc:  "the real dynamicresources.Allocator on the fake client (DeviceClasses with CEL selectors): in-cluster ResourceSlices with 1..5 exclusive devices (some already allocated in the cluster), 0..2 multi-allocatable devices with consumable capacity (part of it, up to all, already consumed in the cluster), 0..3 pools of counter-consuming partitions published cluster-wide, node-local (spec.nodeName), zonal / rack-local (node selectors on a well-known and on a custom label) or split over two zonal slices, some partitions already allocated in the cluster (counter budgets at and around exhaustion); per-instance-type template devices; 1..3 in-flight NodeClaims superposed over 1..3 instance types (some narrowed to a zone / rack) plus the existing initialized nodes that own the node-local pools; sequences of Allocate → Allocation.Commit → ReleaseInstanceType(pruned types) exactly as NodeClaim.Add drives them, plus later releases, with fresh and re-used ResourceClaims; observed after every op: ResourceClaimAllocationMetadata (= Results.DRAClaimAllocationMetadata) and the tracker's maps (hook VerifTracker); the devices the allocator chose are replayed through the Lean tracker model (they must all be free by IsAllocated) and the metadata is judged by the exclusivity / capacity specification",
		N:    func(t core.Tier) int { return map[core.Tier]int{core.Quick: 3000, core.Thorough: 10000}[t] },
		Gen:  genAlloc,
		Impl: implAlloc,
		Rule: "non-trivial = at some point two ResourceClaims of different NodeClaims were allocated, or an allocation failed for lack of free devices / capacity / counter budget, or a partition was allocated from a pool some of whose partitions are already allocated in the cluster",
		Nontrivial: func(raw json.RawMessage, impl any) bool {
			var in AllocIn
			json.Unmarshal(raw, &in)
			prePools := map[string]bool{}
			for _, pp := range in.partPools() {
				for _, sl := range pp.Slices {
					for _, d := range sl.Parts {
						prePools[pp.Name] = prePools[pp.Name] || d.Pre
					}
				}
			}
			m, _ := impl.(map[string]any)
			steps, _ := m["steps"].([]any)
			for _, s := range steps {
				sm, _ := s.(map[string]any)
				if fmt.Sprint(sm["result"]) == "err" {
					return true
				}
				meta, _ := sm["meta"].([]any)
				ncs := map[string]bool{}
				for _, e := range meta {
					em, _ := e.(map[string]any)
					ncs[fmt.Sprint(em["nc"])] = true
					if prePools[fmt.Sprint(em["pool"])] {
						return true
					}
				}
				if len(ncs) > 1 {
					return true
				}
			}
			return false
		},
		Labels: func(raw json.RawMessage, impl any) []string {
			var in AllocIn
			json.Unmarshal(raw, &in)
			m, _ := impl.(map[string]any)
			steps, _ := m["steps"].([]any)
			l := []string{}
			seen := map[string]bool{}
			add := func(k string) {
				if !seen[k] {
					seen[k] = true
					l = append(l, k)
				}
			}
			if e, _ := m["err"].(string); e != "" {
				add("harness-rejected-input")
			}
			// the population
			poolKind := map[string]string{}  // pool -> access kind(s) of its device slices
			prePool := map[string]bool{}     // pool has partitions that are already allocated in the cluster
			fullPool := map[string]bool{}    // … and they exhaust the shared counter
			for _, pp := range in.partPools() {
				kinds := []string{}
				var used int64
				for _, sl := range pp.Slices {
					k, _, _ := strings.Cut(sl.Access, ":")
					if k == "" {
						k = "all"
					}
					if len(kinds) == 0 || kinds[len(kinds)-1] != k {
						kinds = append(kinds, k)
					}
					for _, d := range sl.Parts {
						if d.Pre {
							used += d.W
						}
					}
				}
				kind := strings.Join(kinds, "+")
				if len(pp.Slices) > 1 {
					kind += "/split"
				}
				poolKind[pp.Name] = kind
				add("counter-pool:" + kind)
				if used > 0 {
					prePool[pp.Name] = true
					add("counter-pool-with-preallocated-partitions:" + kind)
					if used >= pp.Slots {
						fullPool[pp.Name] = true
						add("counter-exhausted-by-preallocated-partitions:" + kind)
					}
				}
			}
			for _, d := range in.Shared {
				if d.Pre > 0 {
					add("shared-device-with-preallocated-capacity")
					if d.Pre >= d.Cap {
						add("shared-device-exhausted-by-preallocated-capacity")
					}
				}
			}
			existing := map[string]bool{}
			for _, n := range in.NCs {
				if n.Node != "" {
					existing[n.Name] = true
					add("existing-node")
				} else if n.Zone != "" || n.Rack != "" {
					add("in-flight-claim-with-zone-or-rack")
				}
			}
			{
				var claims []AClaim
				known := map[string]bool{}
				for _, op := range in.Ops {
					for _, c := range op.Claims {
						if !known[c.Name] {
							known[c.Name] = true
							claims = append(claims, c)
						}
					}
				}
				granted := map[string]bool{}
				for _, s := range steps {
					sm, _ := s.(map[string]any)
					meta, _ := sm["meta"].([]any)
					for _, e := range meta {
						em, _ := e.(map[string]any)
						if fmt.Sprint(em["driver"]) == drvShared {
							granted[fmt.Sprint(em["claim"])] = true
						}
					}
				}
				sharedLabels(add, in.Shared, claims, granted)
			}
			for i, s := range steps {
				if i >= len(in.Ops) {
					break
				}
				sm, _ := s.(map[string]any)
				who := ""
				if existing[in.Ops[i].NC] {
					who = "@existing-node"
				}
				add(in.Ops[i].Op + who + ":" + fmt.Sprint(sm["result"]))
				if fmt.Sprint(sm["result"]) == "err" {
					for _, c := range in.Ops[i].Claims {
						if c.Class == "part" {
							add("partition-claim-refused" + who)
						}
						if c.Class == "tpart" {
							add("template-partition-claim-refused" + who)
						}
					}
				}
				meta, _ := sm["meta"].([]any)
				for _, e := range meta {
					em, _ := e.(map[string]any)
					switch {
					case fmt.Sprint(em["driver"]) == drvTPart:
						add("template-counter-device-allocated")
					case em["template"] == true:
						add("template-device-allocated")
					case fmt.Sprint(em["driver"]) == drvShared:
						add("shared-device-allocated")
					case fmt.Sprint(em["driver"]) == drvPart:
						pool := fmt.Sprint(em["pool"])
						add("counter-device-allocated:" + poolKind[pool])
						if prePool[pool] {
							add("counter-device-allocated-beside-preallocated:" + poolKind[pool])
						}
					default:
						add("exclusive-device-allocated")
					}
				}
			}
			return l
		},
		Signature: func(raw json.RawMessage, impl any) string { return "alloc" },
		Shrink: func(raw json.RawMessage) []any {
			var in AllocIn
			json.Unmarshal(raw, &in)
			var out []any
			for _, c := range core.ShrinkList(in.Ops) {
				d := in
				d.Ops = c
				out = append(out, d)
			}
			// the population: pools, template partitions, NodeClaims no remaining op refers to
			for _, c := range core.ShrinkList(in.PPools) {
				d := in
				d.PPools = c
				out = append(out, d)
			}
			if len(in.TParts) > 0 {
				d := in
				d.TParts = nil
				out = append(out, d)
			}
			if len(in.Parts) > 0 {
				d := in
				d.Parts, d.Slots = []PartDev{}, 0
				out = append(out, d)
			}
			used := map[string]bool{}
			for _, op := range in.Ops {
				used[op.NC] = true
			}
			var keep []NCSpec
			for _, n := range in.NCs {
				if used[n.Name] {
					keep = append(keep, n)
				}
			}
			if len(keep) < len(in.NCs) {
				d := in
				d.NCs = keep
				out = append(out, d)
			}
			return out
		},
	}
}
