package c17

import (
	"encoding/json"
	"fmt"
	"math/rand/v2"
	"sort"
	"strings"
	"sync"

	"sigs.k8s.io/karpenter/pkg/cloudprovider"
	provsched "sigs.k8s.io/karpenter/pkg/controllers/provisioning/scheduling"

	"verifharness/internal/core"
	"verifharness/internal/world"
)

// ---------------------------------------------------------------------------------------------
// c17.pass — whole real scheduling passes (Provisioner.Schedule, strict reserved-offering mode) on catalogs whose
// reserved offerings are shared across NodePools; the end state is judged by the Lean specification
// ---------------------------------------------------------------------------------------------

type PassIn struct {
	world.Scenario
	RidKey string `json:"ridKey"`
}

type PassClaim struct {
	world.ClaimOut
	Host     string   `json:"host"`
	Reserved []string `json:"reserved"` // ids of the claim's reservedOfferings
	Held     []string `json:"held"`     // ids the reservation manager records for the claim's hostname
}

type PassOut struct {
	Existing []world.ExistingOut `json:"existing"`
	Claims   []PassClaim         `json:"claims"`
	Errors   map[string]string   `json:"errors"`
	Capacity map[string]int      `json:"capacity"` // the manager's remaining capacity per reservation id at the end of the pass
	Orphans  map[string][]string `json:"orphans"`  // hostnames holding reservations that are not among the result's NodeClaims
	Err      string              `json:"err,omitempty"`
}

var maxITMu sync.RWMutex // scheduling.MaxInstanceTypes is a package variable of the real code

func implPass(raw json.RawMessage) (any, error) {
	var in PassIn
	if err := json.Unmarshal(raw, &in); err != nil {
		return nil, err
	}
	s := in.Scenario
	if s.MaxInstanceTypes > 0 {
		maxITMu.Lock()
		defer maxITMu.Unlock()
		old := provsched.MaxInstanceTypes
		provsched.MaxInstanceTypes = s.MaxInstanceTypes
		defer func() { provsched.MaxInstanceTypes = old }()
	} else {
		maxITMu.RLock()
		defer maxITMu.RUnlock()
	}
	w, err := world.Build(&s)
	if err != nil {
		return nil, err
	}
	res, err := w.Schedule()
	if err != nil {
		return PassOut{Err: err.Error()}, nil
	}
	base := world.Extract(res)
	out := PassOut{Existing: base.Existing, Claims: []PassClaim{}, Errors: base.Errors, Capacity: map[string]int{}, Orphans: map[string][]string{}}
	hosts := map[string]bool{}
	var holders map[string][]string
	for _, nc := range res.NewNodeClaims {
		v := nc.VerifReservations()
		pc := PassClaim{ClaimOut: world.ExtractClaim(nc), Host: v.Hostname, Reserved: v.Reserved, Held: v.Holders[v.Hostname]}
		if pc.Held == nil {
			pc.Held = []string{}
		}
		hosts[v.Hostname] = true
		out.Capacity, holders = v.Capacity, v.Holders
		out.Claims = append(out.Claims, pc)
	}
	for h, ids := range holders {
		if !hosts[h] && len(ids) > 0 {
			out.Orphans[h] = ids
		}
	}
	sort.Slice(out.Claims, func(i, j int) bool {
		return strings.Join(out.Claims[i].Pods, ",") < strings.Join(out.Claims[j].Pods, ",")
	})
	return out, nil
}

// genPlainPass: the focused generator — shared scarce reservations, weighted pools, small selector-carrying pods, no
// daemonsets / limits / inter-pod constraints (the strict-deferral rules are decidable on these)
func genPlainPass(r *rand.Rand, t core.Tier) *world.Scenario {
	its := genCatalog(r)
	pools := genC17Pools(r, its, true)
	s := &world.Scenario{ITs: its, Pools: pools, Nodes: []world.Node{}, DaemonSets: []world.DaemonSet{}, Parallelism: pick(r, []int{1, 1, 2, 8}),
		ReservedCapacity: r.IntN(15) != 0, BestEffortMinVal: r.IntN(4) == 0, IgnorePrefs: r.IntN(5) == 0}
	n := 1 + r.IntN(10)
	if t == core.Thorough {
		n = 1 + r.IntN(16)
	}
	prefs := r.IntN(5) < 2
	for i := 0; i < n; i++ {
		p := genC17Pod(r, fmt.Sprintf("pod-%d", i), its, pools)
		if prefs && r.IntN(2) == 0 {
			if r.IntN(3) == 0 {
				p = withOrTerms(r, p)
			} else {
				p = withPreference(r, p)
			}
		}
		s.Pods = append(s.Pods, p)
	}
	if r.IntN(2) == 0 {
		// replicas of one spec: they pack onto the same claims and compete for the same reservations
		b := s.Pods[0]
		for i := 0; i < 1+r.IntN(5); i++ {
			c := b
			c.Name = fmt.Sprintf("rep-%d", i)
			s.Pods = append(s.Pods, c)
		}
	}
	if r.IntN(10) == 0 {
		s.MaxInstanceTypes = 1 + r.IntN(2)
	}
	if r.IntN(100) < 35 {
		decorateZonalVolumes(r, s)
	}
	return s
}

// decorateZonalVolumes: pods of the focused generator mount PersistentVolumeClaims whose volume topology pins them to a zone
// (bound PersistentVolume with zonal node affinity, or an unbound claim of a WaitForFirstConsumer StorageClass with
// allowedTopologies) - the pod then carries volume requirements (Scheduler.volumeReqsByPod, the non-nil alternative of
// NodeClaim.CanAdd).  Most volumes sit in one zone of the scenario, preferably one with a reserved offering, so that the pods
// compete for the same scarce reservation.  Mostly one volume with one topology term; sometimes a second volume (same or
// other zone), a volume without topology, or a volume with two OR-ed terms (several alternatives).
func decorateZonalVolumes(r *rand.Rand, s *world.Scenario) {
	zoneKey := "topology.kubernetes.io/zone"
	var rz []string
	for _, it := range s.ITs {
		for _, o := range it.Offerings {
			if o.ReservationID != "" {
				rz = append(rz, o.Zone)
			}
		}
	}
	home := pick(r, c17Zones)
	if len(rz) > 0 && r.IntN(5) != 0 {
		home = pick(r, rz)
	}
	zone := func() string {
		if r.IntN(4) == 0 {
			return pick(r, c17Zones)
		}
		return home
	}
	term := func(z ...string) []world.KExpr { return []world.KExpr{{Key: zoneKey, Op: "In", Values: z}} }
	s.StorageClasses = []world.StorageClass{{Name: "sc-any"}}
	for _, z := range c17Zones {
		s.StorageClasses = append(s.StorageClasses, world.StorageClass{Name: "sc-" + z, Topologies: [][]world.KExpr{term(z)}})
	}
	other := pick(r, c17Zones)
	s.StorageClasses = append(s.StorageClasses, world.StorageClass{Name: "sc-two", Topologies: [][]world.KExpr{term(home), term(other)}})
	pPod := 0.4 + 0.6*r.Float64()
	n := 0
	pods := append([]world.Pod(nil), s.Pods...)
	for i := range pods {
		p := &pods[i]
		if r.Float64() > pPod {
			continue
		}
		k := 1
		if r.IntN(6) == 0 {
			k = 2
		}
		p.Volumes = nil
		for j := 0; j < k; j++ {
			n++
			claim := world.PVC{Name: fmt.Sprintf("claim-%d", n)}
			switch x := r.IntN(20); {
			case x < 8:
				pv := world.PV{Name: fmt.Sprintf("pv-%d", n), Terms: [][]world.KExpr{term(zone())}}
				claim.VolumeName = pv.Name
				s.PVs = append(s.PVs, pv)
			case x < 15:
				claim.StorageClass = "sc-" + zone()
			case x < 16:
				claim.StorageClass = "sc-any"
			case x < 17:
				pv := world.PV{Name: fmt.Sprintf("pv-%d", n), Terms: [][]world.KExpr{term(home, other)}}
				claim.VolumeName = pv.Name
				s.PVs = append(s.PVs, pv)
			case x < 18:
				pv := world.PV{Name: fmt.Sprintf("pv-%d", n), Terms: [][]world.KExpr{term(zone()), term(pick(r, c17Zones))}}
				claim.VolumeName = pv.Name
				s.PVs = append(s.PVs, pv)
			default:
				claim.StorageClass = "sc-two"
			}
			s.PVCs = append(s.PVCs, claim)
			p.Volumes = append(p.Volumes, world.Volume{Name: fmt.Sprintf("vol-%d", j), Claim: claim.Name})
		}
	}
	s.Pods = pods
}

var generalOpts = world.GenOpts{InterPod: 0.2, NodeAffinity: 0.4, Existing: 0.4, Reserved: true, Limits: 0.15, MaxPods: 10, Volumes: 0.2}

func genPass(r *rand.Rand, t core.Tier) any {
	var s *world.Scenario
	if r.IntN(100) < 65 {
		s = genPlainPass(r, t)
	} else {
		// the shared whole-cluster generator with reserved offerings: existing nodes, daemonsets, limits, inter-pod constraints …
		s = world.GenScenario(r, generalOpts)
		// scarcer reservations than the shared generator draws
		if r.IntN(2) == 0 {
			for i := range s.ITs {
				for j := range s.ITs[i].Offerings {
					if s.ITs[i].Offerings[j].ReservationID != "" {
						s.ITs[i].Offerings[j].ReservationN = 1
					}
				}
			}
		}
	}
	return PassIn{Scenario: *s, RidKey: cloudprovider.ReservationIDLabel}
}

func opPass() *core.Op {
	return &core.Op{
		Name: "c17.pass",
		Doc:  "whole real Provisioner.Schedule passes (strict reserved-offering mode, real Scheduler/NodeClaim/ReservationManager, fake client + fake cloud provider) on catalogs whose scarce reserved offerings are shared across instance types, zones and weighted NodePools; batches of selector-carrying pods and replicas (plus the shared whole-cluster generator with existing nodes, daemonsets, limits, inter-pod constraints); observed: requirements / instance types / pods of every NodeClaim, pod error classes, and via the read-only hook NodeClaim.VerifReservations the manager's final ledger and each claim's reservedOfferings; judged by Karp.Spec.Reserved.passOK",
		N:    func(t core.Tier) int { return map[core.Tier]int{core.Quick: 5000, core.Thorough: 14000}[t] },
		Gen:  genPass,
		Impl: implPass,
		Rule: "non-trivial = at least one NodeClaim of the result holds a reservation or a pod was deferred with a reserved-offering error",
		Nontrivial: func(raw json.RawMessage, impl any) bool {
			m, _ := impl.(map[string]any)
			cs, _ := m["claims"].([]any)
			for _, c := range cs {
				cm, _ := c.(map[string]any)
				if h, _ := cm["held"].([]any); len(h) > 0 {
					return true
				}
			}
			er, _ := m["errors"].(map[string]any)
			for _, e := range er {
				if fmt.Sprint(e) == "reserved-offering" {
					return true
				}
			}
			return false
		},
		Labels: func(raw json.RawMessage, impl any) []string {
			var in PassIn
			json.Unmarshal(raw, &in)
			m, _ := impl.(map[string]any)
			cs, _ := m["claims"].([]any)
			pinned, multi := 0, 0
			for _, c := range cs {
				cm, _ := c.(map[string]any)
				if h, _ := cm["held"].([]any); len(h) > 0 {
					pinned++
					if len(h) > 1 {
						multi++
					}
				}
			}
			deferred := 0
			er, _ := m["errors"].(map[string]any)
			for _, e := range er {
				if fmt.Sprint(e) == "reserved-offering" {
					deferred++
				}
			}
			exhausted := 0
			capm, _ := m["capacity"].(map[string]any)
			for _, v := range capm {
				if fmt.Sprint(v) == "0" {
					exhausted++
				}
			}
			l := []string{fmt.Sprintf("gate=%v", in.ReservedCapacity), fmt.Sprintf("claims=%d", min(len(cs), 5)), fmt.Sprintf("pinned=%d", min(pinned, 4)),
				fmt.Sprintf("deferred=%d", min(deferred, 3)), fmt.Sprintf("exhausted-reservations=%d", min(exhausted, 3)), fmt.Sprintf("pools=%d", len(in.Pools))}
			if multi > 0 {
				l = append(l, "claim-holding-several-reservations")
			}
			if o, _ := m["orphans"].(map[string]any); len(o) > 0 {
				l = append(l, "orphan-holders")
			}
			if len(in.DaemonSets) == 0 && len(in.Nodes) == 0 {
				l = append(l, "focused-generator")
			}
			if len(in.PVCs) > 0 {
				l = append(l, "pods-with-volume-topology")
				vols := map[string]bool{}
				for _, p := range in.Pods {
					if len(p.Volumes) > 0 {
						vols[p.Name] = true
					}
				}
				volDeferred, volAlone := false, false
				for pn, e := range er {
					if fmt.Sprint(e) == "reserved-offering" && vols[pn] {
						volDeferred = true
					}
				}
				for _, c := range cs {
					cm, _ := c.(map[string]any)
					ps, _ := cm["pods"].([]any)
					h, _ := cm["held"].([]any)
					if len(ps) > 0 && len(h) > 0 {
						for _, pn := range ps {
							if vols[fmt.Sprint(pn)] {
								volAlone = true
							}
						}
					}
				}
				if volDeferred {
					l = append(l, "pod-with-volume-deferred-for-reserved-capacity")
				}
				if volAlone {
					l = append(l, "pod-with-volume-on-a-claim-holding-a-reservation")
				}
			}
			if e, _ := m["err"].(string); e != "" {
				l = append(l, "schedule-error")
			}
			return l
		},
		Signature: func(raw json.RawMessage, impl any) string { return "pass" },
		Shrink: func(raw json.RawMessage) []any {
			var in PassIn
			json.Unmarshal(raw, &in)
			var out []any
			for _, c := range core.ShrinkList(in.Pods) {
				d := in
				d.Pods = c
				out = append(out, d)
			}
			if len(in.Pools) > 1 {
				for _, c := range core.ShrinkList(in.Pools) {
					d := in
					d.Pools = c
					out = append(out, d)
				}
			}
			return out
		},
	}
}
