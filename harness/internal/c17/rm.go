package c17

import (
	"encoding/json"
	"fmt"
	"math/rand/v2"
	"sort"
	"strings"

	corev1 "k8s.io/api/core/v1"

	v1 "sigs.k8s.io/karpenter/pkg/apis/v1"
	"sigs.k8s.io/karpenter/pkg/cloudprovider"
	_ "sigs.k8s.io/karpenter/pkg/cloudprovider/fake" // registers cloudprovider.ReservationIDLabel
	provsched "sigs.k8s.io/karpenter/pkg/controllers/provisioning/scheduling"
	"sigs.k8s.io/karpenter/pkg/scheduling"

	"verifharness/internal/core"
)

// ---------------------------------------------------------------------------------------------
// c17.rm — the real ReservationManager driven by op sequences
// ---------------------------------------------------------------------------------------------

type RMOff struct {
	Pool  string `json:"pool"`
	IT    string `json:"it"`
	CT    string `json:"ct"` // reserved | on-demand | spot
	ID    string `json:"id"` // reservation id (reserved offerings only)
	Cap   int    `json:"cap"`
	Avail bool   `json:"avail"`
}

type RMOp struct {
	Op   string   `json:"op"` // can | reserve | guarded | release | has | remaining
	Host string   `json:"host"`
	IDs  []string `json:"ids"`
}

type RMIn struct {
	Offerings []RMOff `json:"offerings"`
	Ops       []RMOp  `json:"ops"`
}

type RMSnap struct {
	Remaining map[string]int      `json:"remaining"`
	Holders   map[string][]string `json:"holders"` // reservation id -> sorted hostnames
}

type RMOut struct {
	Obs   []string `json:"obs"`   // per op: true|false|n:<int>|ok|granted:<ids>|panic:<class>
	Snaps []RMSnap `json:"snaps"` // after every op that did not panic
}

func mkOffering(zone, ct, rid string, capN int, avail bool) *cloudprovider.Offering {
	reqs := scheduling.NewRequirements(
		scheduling.NewRequirement(corev1.LabelTopologyZone, corev1.NodeSelectorOpIn, zone),
		scheduling.NewRequirement(v1.CapacityTypeLabelKey, corev1.NodeSelectorOpIn, ct),
	)
	if ct == v1.CapacityTypeReserved {
		reqs.Add(scheduling.NewRequirement(cloudprovider.ReservationIDLabel, corev1.NodeSelectorOpIn, rid))
	} else {
		reqs.Add(scheduling.NewRequirement(cloudprovider.ReservationIDLabel, corev1.NodeSelectorOpDoesNotExist))
	}
	return &cloudprovider.Offering{Requirements: reqs, Price: 1, Available: avail, ReservationCapacity: capN}
}

func probe(id string) *cloudprovider.Offering { return mkOffering("z1", v1.CapacityTypeReserved, id, 0, true) }

func panicClassRM(r any) string {
	s := fmt.Sprint(r)
	switch {
	case strings.Contains(s, "non-existent offering"):
		return "nonExistent"
	case strings.Contains(s, "over-reserve"):
		return "overReserve"
	}
	return "other:" + s
}

func rmUniverse(in *RMIn) (ids, hosts []string) {
	is, hs := map[string]bool{}, map[string]bool{}
	for _, o := range in.Offerings {
		if o.CT == v1.CapacityTypeReserved {
			is[o.ID] = true
		} else {
			is[""] = true // what a non-reserved offering's ReservationID() reads as: must stay unknown to the manager
		}
	}
	for _, op := range in.Ops {
		if op.Host != "" {
			hs[op.Host] = true
		}
		for _, id := range op.IDs {
			is[id] = true
		}
	}
	for k := range is {
		ids = append(ids, k)
	}
	for k := range hs {
		hosts = append(hosts, k)
	}
	sort.Strings(ids)
	sort.Strings(hosts)
	return
}

func rmSnap(rm *provsched.ReservationManager, ids, hosts []string) RMSnap {
	s := RMSnap{Remaining: map[string]int{}, Holders: map[string][]string{}}
	for _, id := range ids {
		o := probe(id)
		s.Remaining[id] = rm.RemainingCapacity(o)
		hs := []string{}
		for _, h := range hosts {
			if rm.HasReservation(h, o) {
				hs = append(hs, h)
			}
		}
		s.Holders[id] = hs
	}
	return s
}

func implRM(raw json.RawMessage) (any, error) {
	var in RMIn
	if err := json.Unmarshal(raw, &in); err != nil {
		return nil, err
	}
	// catalog: pool -> instance types -> offerings, as the provisioner hands it to NewScheduler
	byPool := map[string]map[string]*cloudprovider.InstanceType{}
	for _, o := range in.Offerings {
		if byPool[o.Pool] == nil {
			byPool[o.Pool] = map[string]*cloudprovider.InstanceType{}
		}
		it := byPool[o.Pool][o.IT]
		if it == nil {
			it = &cloudprovider.InstanceType{Name: o.IT}
			byPool[o.Pool][o.IT] = it
		}
		it.Offerings = append(it.Offerings, mkOffering("z1", o.CT, o.ID, o.Cap, o.Avail))
	}
	catalog := map[string][]*cloudprovider.InstanceType{}
	for p, its := range byPool {
		for _, it := range its {
			catalog[p] = append(catalog[p], it)
		}
	}
	rm := provsched.NewReservationManager(catalog)
	ids, hosts := rmUniverse(&in)
	out := RMOut{Obs: []string{}, Snaps: []RMSnap{}}
	for _, op := range in.Ops {
		var obs string
		func() {
			defer func() {
				if r := recover(); r != nil {
					obs = "panic:" + panicClassRM(r)
				}
			}()
			ofs := []*cloudprovider.Offering{}
			for _, id := range op.IDs {
				ofs = append(ofs, probe(id))
			}
			switch op.Op {
			case "can":
				obs = fmt.Sprint(rm.CanReserve(op.Host, ofs[0]))
			case "reserve":
				rm.Reserve(op.Host, ofs...)
				obs = "ok"
			case "guarded":
				// what offeringsToReserve + Add do: ask for every offering, reserve exactly those granted
				var granted []*cloudprovider.Offering
				gids := []string{}
				for i, o := range ofs {
					if rm.CanReserve(op.Host, o) {
						granted = append(granted, o)
						gids = append(gids, op.IDs[i])
					}
				}
				rm.Reserve(op.Host, granted...)
				obs = "granted:" + strings.Join(gids, ",")
			case "release":
				rm.Release(op.Host, ofs...)
				obs = "ok"
			case "has":
				obs = fmt.Sprint(rm.HasReservation(op.Host, ofs[0]))
			case "remaining":
				obs = fmt.Sprintf("n:%d", rm.RemainingCapacity(ofs[0]))
			default:
				obs = "bad-op"
			}
		}()
		out.Obs = append(out.Obs, obs)
		if strings.HasPrefix(obs, "panic:") {
			break // the manager's state after a panic is never used again
		}
		out.Snaps = append(out.Snaps, rmSnap(rm, ids, hosts))
	}
	return out, nil
}

var rmIDs = []string{"r-0", "r-1", "r-2", "r-3"}
var rmHosts = []string{"h0", "h1", "h2", "h3", "h4"}

func genRM(r *rand.Rand, t core.Tier) any {
	in := RMIn{Offerings: []RMOff{}, Ops: []RMOp{}}
	nIDs := 1 + r.IntN(len(rmIDs))
	pools := []string{"pool-a", "pool-b", "pool-c"}[:1+r.IntN(3)]
	for i := 0; i < nIDs; i++ {
		id := rmIDs[i]
		c := r.IntN(4) // 0..3, includes a reservation with no capacity
		// the same reservation seen through several pools / instance types, sometimes with a stale (different) capacity
		n := 1 + r.IntN(3)
		for k := 0; k < n; k++ {
			ck := c
			if r.IntN(4) == 0 {
				ck = c + r.IntN(3)
			}
			in.Offerings = append(in.Offerings, RMOff{Pool: pick(r, pools), IT: fmt.Sprintf("it-%d", r.IntN(3)), CT: v1.CapacityTypeReserved, ID: id, Cap: ck, Avail: r.IntN(8) != 0})
		}
	}
	// non-reserved offerings carry a ReservationCapacity that must be ignored
	for k := r.IntN(3); k > 0; k-- {
		in.Offerings = append(in.Offerings, RMOff{Pool: pick(r, pools), IT: fmt.Sprintf("it-%d", r.IntN(3)), CT: pick(r, []string{"on-demand", "spot"}), Cap: 1 + r.IntN(3), Avail: true})
	}
	r.Shuffle(len(in.Offerings), func(i, j int) { in.Offerings[i], in.Offerings[j] = in.Offerings[j], in.Offerings[i] })
	maxOps := 40
	if t == core.Thorough {
		maxOps = 150
	}
	nOps := 1 + r.IntN(maxOps)
	known := rmIDs[:nIDs]
	pickID := func() string {
		switch r.IntN(150) {
		case 0:
			return "r-unknown"
		case 1:
			return "" // the "id" of non-reserved offerings
		}
		return pick(r, known)
	}
	pickIDs := func() []string {
		n := 1 + r.IntN(3)
		out := []string{}
		for i := 0; i < n; i++ {
			out = append(out, pickID())
		}
		if r.IntN(5) == 0 && len(out) > 0 {
			out = append(out, out[0]) // duplicate: two offerings of one reservation
		}
		return out
	}
	hosts := rmHosts[:1+r.IntN(len(rmHosts))]
	for len(in.Ops) < nOps {
		h := pick(r, hosts)
		switch x := r.IntN(100); {
		case x < 35:
			// the protocol of offeringsToReserve/Add: ask, then reserve exactly what was granted
			in.Ops = append(in.Ops, RMOp{Op: "guarded", Host: h, IDs: pickIDs()})
		case x < 37:
			in.Ops = append(in.Ops, RMOp{Op: "reserve", Host: h, IDs: pickIDs()})
		case x < 70:
			in.Ops = append(in.Ops, RMOp{Op: "release", Host: h, IDs: pickIDs()})
		case x < 80:
			in.Ops = append(in.Ops, RMOp{Op: "has", Host: h, IDs: []string{pickID()}})
		case x < 90:
			in.Ops = append(in.Ops, RMOp{Op: "remaining", IDs: []string{pickID()}})
		default:
			in.Ops = append(in.Ops, RMOp{Op: "can", Host: h, IDs: []string{pickID()}})
		}
	}
	return in
}

func pick[T any](r *rand.Rand, xs []T) T { return xs[r.IntN(len(xs))] }

func opRM() *core.Op {
	return &core.Op{
		Name: "c17.rm",
		Doc:  "the real scheduling.ReservationManager (NewReservationManager over a pool→instance-type→offering catalog with shared / stale-capacity reservations, then CanReserve/Reserve/Release/HasReservation/RemainingCapacity sequences incl. unguarded reserves and unknown ids); observation of every op and the full holders/remaining snapshot after it; model = Karp.Reservation.runOps, spec = the holder ledger",
		N:    func(t core.Tier) int { return map[core.Tier]int{core.Quick: 5000, core.Thorough: 20000}[t] },
		Gen:  genRM,
		Impl: implRM,
		Rule: "non-trivial = some reservation was exhausted (remaining 0 with at least one holder) at some point of the sequence",
		Nontrivial: func(raw json.RawMessage, impl any) bool {
			m, _ := impl.(map[string]any)
			snaps, _ := m["snaps"].([]any)
			for _, s := range snaps {
				sm, _ := s.(map[string]any)
				rem, _ := sm["remaining"].(map[string]any)
				hol, _ := sm["holders"].(map[string]any)
				for id, v := range rem {
					hs, _ := hol[id].([]any)
					if fmt.Sprint(v) == "0" && len(hs) > 0 {
						return true
					}
				}
			}
			return false
		},
		Labels: func(raw json.RawMessage, impl any) []string {
			var in RMIn
			json.Unmarshal(raw, &in)
			m, _ := impl.(map[string]any)
			obs, _ := m["obs"].([]any)
			l := []string{fmt.Sprintf("ops<=%d", ((len(in.Ops)/25)+1)*25)}
			seen := map[string]bool{}
			for i, o := range obs {
				s := fmt.Sprint(o)
				k := in.Ops[i].Op + ":" + s
				if strings.HasPrefix(s, "n:") || strings.HasPrefix(s, "granted:") {
					k = in.Ops[i].Op
				}
				if !seen[k] {
					seen[k] = true
					l = append(l, k)
				}
			}
			return l
		},
		Signature: func(raw json.RawMessage, impl any) string { return "rm" },
		Shrink: func(raw json.RawMessage) []any {
			var in RMIn
			json.Unmarshal(raw, &in)
			var out []any
			for _, c := range core.ShrinkList(in.Ops) {
				out = append(out, RMIn{Offerings: in.Offerings, Ops: c})
			}
			for _, c := range core.ShrinkList(in.Offerings) {
				out = append(out, RMIn{Offerings: c, Ops: in.Ops})
			}
			return out
		},
	}
}
