// Package c17: correspondence ops for C17 (stub, not yet built).
package c17

import (
	"verifharness/internal/core"
	"verifharness/internal/registry"
)

func init() { registry.Register("C17", Ops) }

func Ops() []*core.Op { return nil }
