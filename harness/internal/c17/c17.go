// Package c17: scarce capacity is never over-committed in a scheduling pass — capacity reservations
// (ReservationManager, NodeClaim.offeringsToReserve/Add/FinalizeScheduling, whole real passes) and the DRA
// allocation tracker, real code vs the Lean model and judged by the Lean specification.
package c17

import (
	"verifharness/internal/core"
	"verifharness/internal/registry"
)

func init() { registry.Register("C17", Ops) }

func Ops() []*core.Op {
	return []*core.Op{opRM(), opClaims(), opPass(), opDRA(), opAlloc(), opDraPass()}
}
