package c17

import (
	"encoding/json"
	"fmt"
	"math/rand/v2"
	"sort"

	corev1 "k8s.io/api/core/v1"

	v1 "sigs.k8s.io/karpenter/pkg/apis/v1"
	"sigs.k8s.io/karpenter/pkg/cloudprovider"
	provsched "sigs.k8s.io/karpenter/pkg/controllers/provisioning/scheduling"
	"sigs.k8s.io/karpenter/pkg/operator/options"
	"sigs.k8s.io/karpenter/pkg/scheduling"
	"sigs.k8s.io/karpenter/pkg/utils/resources"

	"verifharness/internal/core"
	rg "verifharness/internal/reqgen"
	"verifharness/internal/world"
)

// ---------------------------------------------------------------------------------------------
// c17.claims — the real NodeClaim.CanAdd / Add / FinalizeScheduling sharing one real ReservationManager, driven as a
// scripted bin-packing (which pod goes to which in-flight claim / opens a claim of which NodePool)
// ---------------------------------------------------------------------------------------------

type CStep struct {
	Pod   int `json:"pod"`   // index into Pods
	Claim int `json:"claim"` // >= 0: the claim opened by that earlier step number (if it was opened); < 0: open a new claim of pool -1-Claim
}

type ClaimsIn struct {
	ITs    []world.IT       `json:"its"`
	Pools  []world.NodePool `json:"pools"`
	Pods   []world.Pod      `json:"pods"`
	Steps  []CStep          `json:"steps"`
	Strict bool             `json:"strict"`
	Gate   bool             `json:"gate"`
	RidKey string           `json:"ridKey"` // cloudprovider.ReservationIDLabel as registered by the cloud provider
}

type CStepOut struct {
	Claim     int                 `json:"claim"`     // claim number the step addressed (number = order of opening); -1 = target never opened
	New       bool                `json:"new"`       // the step tried to open a new claim
	Base      string              `json:"base"`      // ok | fail : CanAdd with the ReservedCapacity gate off (requirements, fit, offerings only)
	Compat    []string            `json:"compat"`    // reservation ids of the compatible available reserved offerings of the surviving instance types (iteration order)
	Result    string              `json:"result"`    // ok | reserved | fail : the real CanAdd
	Ofs       []string            `json:"ofs"`       // reservation ids of the offerings CanAdd returned for reservation
	Held      map[string][]string `json:"held"`      // after the step: claim number -> sorted reservation ids the manager records for its hostname
	Remaining map[string]int      `json:"remaining"` // after the step: reservation id -> RemainingCapacity
}

type CFinal struct {
	Pool    string   `json:"pool"`
	Pods    []string `json:"pods"`
	ITs     []string `json:"instanceTypes"`
	PreCT   *rg.Snap `json:"preCT"` // capacity-type requirement before FinalizeScheduling (nil = undefined)
	PreRID  *rg.Snap `json:"preRID"`
	PostCT  *rg.Snap `json:"postCT"`
	PostRID *rg.Snap `json:"postRID"`
	HasHost bool     `json:"hostnameLeft"` // the placeholder hostname requirement is still present after finalization
}

type ClaimsOut struct {
	Steps  []CStepOut `json:"steps"`
	Finals []CFinal   `json:"finals"`
	Err    string     `json:"err,omitempty"`
}

func snapPtr(r scheduling.Requirements, key string) *rg.Snap {
	if !r.Has(key) {
		return nil
	}
	s := rg.SnapOf(r.Get(key))
	return &s
}

func reservationIDs(its []world.IT) []string {
	seen := map[string]bool{}
	var ids []string
	for _, it := range its {
		for _, o := range it.Offerings {
			if o.CapacityType == v1.CapacityTypeReserved && !seen[o.ReservationID] {
				seen[o.ReservationID] = true
				ids = append(ids, o.ReservationID)
			}
		}
	}
	sort.Strings(ids)
	return ids
}

func implClaims(raw json.RawMessage) (any, error) {
	var in ClaimsIn
	if err := json.Unmarshal(raw, &in); err != nil {
		return nil, err
	}
	scn := &world.Scenario{ITs: in.ITs, Pools: in.Pools, Pods: in.Pods, Nodes: []world.Node{}, DaemonSets: []world.DaemonSet{}, Parallelism: 1, ReservedCapacity: in.Gate}
	w, err := world.Build(scn)
	if err != nil {
		return nil, err
	}
	ctx := w.Ctx
	off := *options.FromContext(ctx)
	off.FeatureGates.ReservedCapacity = false
	ctxOff := options.ToContext(ctx, &off)

	var nodePools []*v1.NodePool
	itsByPool := map[string][]*cloudprovider.InstanceType{}
	for _, np := range in.Pools {
		nodePools = append(nodePools, world.BuildNodePool(np))
		itsByPool[np.Name] = w.CP.InstanceTypes
	}
	podList := &corev1.PodList{}
	if err := w.Client.List(ctx, podList); err != nil {
		return nil, err
	}
	podByName := map[string]*corev1.Pod{}
	var pods []*corev1.Pod
	for i := range podList.Items {
		podByName[podList.Items[i].Name] = &podList.Items[i]
		pods = append(pods, &podList.Items[i])
	}
	topology, err := provsched.NewTopology(ctx, w.Client, w.Cluster, nil, nodePools, itsByPool, pods)
	if err != nil {
		return ClaimsOut{Err: "topology: " + err.Error()}, nil
	}
	rm := provsched.NewReservationManager(itsByPool)
	mode := provsched.ReservedOfferingModeFallback
	if in.Strict {
		mode = provsched.ReservedOfferingModeStrict
	}
	templates := make([]*provsched.NodeClaimTemplate, len(nodePools))
	for i, np := range nodePools {
		templates[i] = provsched.NewNodeClaimTemplate(np)
		templates[i].InstanceTypeOptions = w.CP.InstanceTypes
	}
	groups := func() []provsched.DaemonOverheadGroup {
		return []provsched.DaemonOverheadGroup{{InstanceTypes: w.CP.InstanceTypes, HostPortUsage: scheduling.NewHostPortUsage()}}
	}
	ids := reservationIDs(in.ITs)

	type openClaim struct {
		nc   *provsched.NodeClaim
		host string
	}
	var claims []openClaim
	openedBy := map[int]int{} // step number -> claim number
	hostOf := func(nc *provsched.NodeClaim) string {
		vs := nc.Requirements.Get(corev1.LabelHostname).Values()
		if len(vs) != 1 {
			return ""
		}
		return vs[0]
	}
	snapshot := func(so *CStepOut) {
		so.Held, so.Remaining = map[string][]string{}, map[string]int{}
		for _, id := range ids {
			so.Remaining[id] = rm.RemainingCapacity(probe(id))
		}
		for k, c := range claims {
			hs := []string{}
			for _, id := range ids {
				if rm.HasReservation(c.host, probe(id)) {
					hs = append(hs, id)
				}
			}
			so.Held[fmt.Sprint(k)] = hs
		}
	}
	out := ClaimsOut{Steps: []CStepOut{}, Finals: []CFinal{}}
	for si, st := range in.Steps {
		so := CStepOut{Claim: -1, Compat: []string{}, Ofs: []string{}}
		if st.Pod < 0 || st.Pod >= len(in.Pods) {
			return nil, fmt.Errorf("step %d: bad pod index", si)
		}
		pod := podByName[in.Pods[st.Pod].Name]
		pd := &provsched.PodData{Requests: resources.RequestsForPods(pod), Requirements: scheduling.NewPodRequirements(pod), StrictRequirements: scheduling.NewPodRequirements(pod)}
		var nc *provsched.NodeClaim
		if st.Claim >= 0 {
			k, ok := openedBy[st.Claim]
			if !ok {
				// the addressed step opened nothing: the step is void
				so.Base, so.Result = "void", "void"
				snapshot(&so)
				out.Steps = append(out.Steps, so)
				continue
			}
			nc, so.Claim = claims[k].nc, k
		} else {
			pi := -1 - st.Claim
			if pi >= len(templates) {
				return nil, fmt.Errorf("step %d: bad pool index", si)
			}
			nc = provsched.NewNodeClaim(templates[pi], topology, groups(), w.CP.InstanceTypes, rm, mode)
			so.New, so.Claim = true, len(claims)
		}
		// the part of CanAdd that has nothing to do with reservations: run it with the feature gate off
		reqsB, itsB, ofsB, _, errB := nc.CanAdd(ctxOff, pod, pd, false, nil)
		if errB != nil {
			so.Base = "fail"
		} else {
			so.Base = "ok"
			if len(ofsB) != 0 {
				so.Base = "ok-with-offerings" // gate off must never reserve
			}
			for _, it := range itsB {
				for _, o := range it.Offerings {
					if o.CapacityType() == v1.CapacityTypeReserved && o.Available && reqsB.IsCompatible(o.Requirements, scheduling.AllowUndefinedWellKnownLabels) {
						so.Compat = append(so.Compat, o.ReservationID())
					}
				}
			}
		}
		reqs, its, ofs, _, err := nc.CanAdd(ctx, pod, pd, false, nil)
		switch {
		case err == nil:
			so.Result = "ok"
			for _, o := range ofs {
				so.Ofs = append(so.Ofs, o.ReservationID())
			}
			host := hostOf(nc)
			nc.Add(ctx, pod, pd, reqs, its, ofs, nil, nil)
			if so.New {
				claims = append(claims, openClaim{nc: nc, host: host})
				openedBy[si] = len(claims) - 1
			}
		case provsched.IsReservedOfferingError(err):
			so.Result = "reserved"
		default:
			so.Result = "fail"
		}
		if so.Result != "ok" && so.New {
			so.Claim = -1
		}
		snapshot(&so)
		out.Steps = append(out.Steps, so)
	}
	for _, c := range claims {
		f := CFinal{Pool: c.nc.NodePoolName, PreCT: snapPtr(c.nc.Requirements, v1.CapacityTypeLabelKey), PreRID: snapPtr(c.nc.Requirements, cloudprovider.ReservationIDLabel)}
		c.nc.FinalizeScheduling()
		f.PostCT, f.PostRID = snapPtr(c.nc.Requirements, v1.CapacityTypeLabelKey), snapPtr(c.nc.Requirements, cloudprovider.ReservationIDLabel)
		f.HasHost = c.nc.Requirements.Has(corev1.LabelHostname)
		for _, p := range c.nc.Pods {
			f.Pods = append(f.Pods, p.Name)
		}
		for _, it := range c.nc.InstanceTypeOptions {
			f.ITs = append(f.ITs, it.Name)
		}
		sort.Strings(f.ITs)
		out.Finals = append(out.Finals, f)
	}
	return out, nil
}

var c17Zones = []string{"z1", "z2", "z3"}
var c17RIDs = []string{"r-0", "r-1", "r-2"}

// genCatalog: small instance types whose reserved offerings share a few reservations across instance types and zones
func genCatalog(r *rand.Rand) []world.IT {
	n := 2 + r.IntN(3)
	caps := map[string]int{}
	for _, id := range c17RIDs {
		caps[id] = r.IntN(3) // 0..2
		if r.IntN(6) == 0 {
			caps[id] = 3
		}
	}
	var its []world.IT
	for i := 0; i < n; i++ {
		cpu := pick(r, []int64{2000, 4000, 4000, 8000})
		it := world.IT{Name: fmt.Sprintf("it-%d", i), CPU: cpu, Mem: cpu * 2, Pods: int64(pick(r, []int{2, 3, 5, 10})), Arch: "amd64", OS: []string{"linux"}, Overhead: 100}
		base := cpu / 1000 * 40
		for _, z := range c17Zones {
			for _, ct := range []string{"spot", "on-demand"} {
				if r.IntN(3) == 0 {
					continue
				}
				p := base + int64(r.IntN(20))
				if ct == "spot" {
					p = p * 6 / 10
				}
				it.Offerings = append(it.Offerings, world.Offering{Zone: z, CapacityType: ct, Price: p, Available: r.IntN(8) != 0})
			}
			if r.IntN(2) == 0 {
				id := pick(r, c17RIDs)
				c := caps[id]
				if r.IntN(10) == 0 {
					c++ // a stale (larger) capacity seen through another instance type: the manager keeps the least
				}
				it.Offerings = append(it.Offerings, world.Offering{Zone: z, CapacityType: "reserved", Price: base / 10, Available: c > 0 && r.IntN(10) != 0, ReservationID: id, ReservationN: c})
				if r.IntN(6) == 0 { // a second reservation in the same zone
					id2 := pick(r, c17RIDs)
					if id2 != id {
						it.Offerings = append(it.Offerings, world.Offering{Zone: z, CapacityType: "reserved", Price: base / 10, Available: caps[id2] > 0, ReservationID: id2, ReservationN: caps[id2]})
					}
				}
			}
		}
		if len(it.Offerings) == 0 {
			it.Offerings = append(it.Offerings, world.Offering{Zone: "z1", CapacityType: "on-demand", Price: base, Available: true})
		}
		its = append(its, it)
	}
	return its
}

func genC17Pools(r *rand.Rand, its []world.IT, weights bool) []world.NodePool {
	n := 1 + r.IntN(3)
	var pools []world.NodePool
	for i := 0; i < n; i++ {
		np := world.NodePool{Name: fmt.Sprintf("pool-%d", i), Labels: map[string]string{}}
		if weights {
			np.Weight = int32((n - i) * 10) // distinct weights: pool-0 first
			if r.IntN(4) == 0 {
				np.Weight = int32(10 * (1 + r.IntN(3)))
			}
		}
		if r.IntN(3) == 0 {
			np.Labels["team"] = pick(r, []string{"red", "blue"})
		}
		if r.IntN(3) == 0 {
			k := 1 + r.IntN(2)
			perm := r.Perm(len(c17Zones))
			zs := []string{}
			for j := 0; j < k; j++ {
				zs = append(zs, c17Zones[perm[j]])
			}
			np.Reqs = append(np.Reqs, world.MinExpr{Key: "topology.kubernetes.io/zone", Op: "In", Values: zs})
		}
		switch r.IntN(6) {
		case 0:
			np.Reqs = append(np.Reqs, world.MinExpr{Key: "karpenter.sh/capacity-type", Op: "In", Values: []string{"on-demand", "reserved"}})
		case 1:
			np.Reqs = append(np.Reqs, world.MinExpr{Key: "karpenter.sh/capacity-type", Op: "In", Values: []string{"reserved"}})
		case 2:
			np.Reqs = append(np.Reqs, world.MinExpr{Key: "karpenter.sh/capacity-type", Op: "In", Values: []string{pick(r, []string{"on-demand", "spot"})}})
		}
		if r.IntN(5) == 0 {
			vals := []string{}
			for _, it := range its {
				if r.IntN(2) == 0 {
					vals = append(vals, it.Name)
				}
			}
			if len(vals) == 0 {
				vals = []string{its[0].Name}
			}
			np.Reqs = append(np.Reqs, world.MinExpr{Key: "node.kubernetes.io/instance-type", Op: pick(r, []string{"In", "NotIn"}), Values: vals})
		}
		pools = append(pools, np)
	}
	return pools
}

// genC17Pod: small pods whose node selectors narrow zone / capacity type / instance type / reservation
func genC17Pod(r *rand.Rand, name string, its []world.IT, pools []world.NodePool) world.Pod {
	p := world.Pod{Name: name, Labels: map[string]string{"app": "a"}, CPU: int64(100 * (1 + r.IntN(15))), Mem: 64}
	if r.IntN(12) == 0 {
		p.CPU = 3000
	}
	sel := map[string]string{}
	switch r.IntN(10) {
	case 0, 1, 2:
		sel["topology.kubernetes.io/zone"] = pick(r, c17Zones)
	case 3:
		sel["karpenter.sh/capacity-type"] = pick(r, []string{"reserved", "reserved", "on-demand", "spot"})
	case 4:
		sel["node.kubernetes.io/instance-type"] = pick(r, its).Name
	case 5:
		sel[cloudprovider.ReservationIDLabel] = pick(r, c17RIDs)
	case 6:
		sel["team"] = pick(r, []string{"red", "blue"})
	}
	if len(sel) > 0 {
		p.NodeSelector = sel
	}
	if r.IntN(6) == 0 {
		var e world.KExpr
		switch r.IntN(4) {
		case 0:
			e = world.KExpr{Key: "topology.kubernetes.io/zone", Op: "NotIn", Values: []string{pick(r, c17Zones)}}
		case 1:
			e = world.KExpr{Key: "karpenter.sh/capacity-type", Op: "NotIn", Values: []string{pick(r, []string{"spot", "on-demand", "reserved"})}}
		case 2:
			e = world.KExpr{Key: cloudprovider.ReservationIDLabel, Op: pick(r, []string{"In", "NotIn"}), Values: []string{pick(r, c17RIDs), pick(r, c17RIDs)}}
		default:
			e = world.KExpr{Key: "topology.kubernetes.io/zone", Op: "In", Values: []string{pick(r, c17Zones), pick(r, c17Zones)}}
		}
		p.Required = [][]world.KExpr{{e}}
	}
	world.FixExprs(&p)
	return p
}

// withPreference: a pod without required terms gets one preferred node-affinity term (zone / capacity type / reservation)
func withPreference(r *rand.Rand, p world.Pod) world.Pod {
	if len(p.Required) != 0 {
		return p
	}
	var e world.KExpr
	switch r.IntN(4) {
	case 0, 1:
		e = world.KExpr{Key: "topology.kubernetes.io/zone", Op: "In", Values: []string{pick(r, c17Zones)}}
	case 2:
		e = world.KExpr{Key: "karpenter.sh/capacity-type", Op: "In", Values: []string{"reserved"}}
	default:
		e = world.KExpr{Key: cloudprovider.ReservationIDLabel, Op: "In", Values: []string{pick(r, c17RIDs)}}
	}
	p.Preferred = []world.Preferred{{Weight: int32(1 + r.IntN(100)), Exprs: []world.KExpr{e}}}
	world.FixExprs(&p)
	return p
}

// withOrTerms: a pod without node-affinity gets two OR-ed required terms, the first steering towards reserved capacity
func withOrTerms(r *rand.Rand, p world.Pod) world.Pod {
	if len(p.Required) != 0 || len(p.Preferred) != 0 {
		return p
	}
	var first, second world.KExpr
	switch r.IntN(3) {
	case 0:
		z := r.Perm(len(c17Zones))
		first = world.KExpr{Key: "topology.kubernetes.io/zone", Op: "In", Values: []string{c17Zones[z[0]]}}
		second = world.KExpr{Key: "topology.kubernetes.io/zone", Op: "In", Values: []string{c17Zones[z[1]]}}
	case 1:
		first = world.KExpr{Key: "karpenter.sh/capacity-type", Op: "In", Values: []string{"reserved"}}
		second = world.KExpr{Key: "karpenter.sh/capacity-type", Op: "In", Values: []string{pick(r, []string{"on-demand", "spot"})}}
	default:
		first = world.KExpr{Key: cloudprovider.ReservationIDLabel, Op: "In", Values: []string{pick(r, c17RIDs)}}
		second = world.KExpr{Key: "karpenter.sh/capacity-type", Op: "NotIn", Values: []string{"reserved"}}
	}
	p.Required = [][]world.KExpr{{first}, {second}}
	world.FixExprs(&p)
	return p
}

func genClaims(r *rand.Rand, t core.Tier) any {
	its := genCatalog(r)
	pools := genC17Pools(r, its, false)
	in := ClaimsIn{ITs: its, Pools: pools, Pods: []world.Pod{}, Steps: []CStep{}, Strict: r.IntN(4) != 0, Gate: r.IntN(12) != 0, RidKey: cloudprovider.ReservationIDLabel}
	n := 2 + r.IntN(10)
	if t == core.Thorough {
		n = 2 + r.IntN(18)
	}
	var openSteps []int
	for i := 0; i < n; i++ {
		in.Pods = append(in.Pods, genC17Pod(r, fmt.Sprintf("pod-%d", i), its, pools))
		st := CStep{Pod: i}
		if len(openSteps) > 0 && r.IntN(100) < 55 {
			st.Claim = pick(r, openSteps)
		} else {
			st.Claim = -1 - r.IntN(len(pools))
			openSteps = append(openSteps, i)
		}
		in.Steps = append(in.Steps, st)
	}
	return in
}

func opClaims() *core.Op {
	return &core.Op{
		Name: "c17.claims",
		Doc:  "the real NodeClaim.CanAdd / Add / FinalizeScheduling of several in-flight NodeClaims of 1..3 NodePools sharing one real ReservationManager, driven as a scripted bin-packing (strict and fallback mode, feature gate on/off; catalogs whose reserved offerings share reservations across instance types, zones and pools; pods whose selectors narrow zone / capacity type / instance type / reservation id so that reservations are released and re-acquired); per step: CanAdd verdict, offerings to reserve, who holds what, remaining capacity; at the end the capacity-type / reservation-id requirements before and after finalization. Model = Karp.Reservation.round/finalize fed with the non-reservation part of CanAdd as a parameter; spec = ledger + strictness + pinning on the real observations",
		N:    func(t core.Tier) int { return map[core.Tier]int{core.Quick: 4000, core.Thorough: 12000}[t] },
		Gen:  genClaims,
		Impl: implClaims,
		Rule: "non-trivial = some step released a held reservation (a claim's holdings shrank) or was refused with a reserved-offering error",
		Nontrivial: func(raw json.RawMessage, impl any) bool {
			m, _ := impl.(map[string]any)
			steps, _ := m["steps"].([]any)
			prev := map[string]int{}
			for _, s := range steps {
				sm, _ := s.(map[string]any)
				if fmt.Sprint(sm["result"]) == "reserved" {
					return true
				}
				held, _ := sm["held"].(map[string]any)
				for k, v := range held {
					l, _ := v.([]any)
					if len(l) < prev[k] {
						return true
					}
					prev[k] = len(l)
				}
			}
			return false
		},
		Labels: func(raw json.RawMessage, impl any) []string {
			var in ClaimsIn
			json.Unmarshal(raw, &in)
			m, _ := impl.(map[string]any)
			l := []string{fmt.Sprintf("strict=%v", in.Strict), fmt.Sprintf("gate=%v", in.Gate)}
			steps, _ := m["steps"].([]any)
			seen := map[string]bool{}
			prev := map[string]int{}
			for _, s := range steps {
				sm, _ := s.(map[string]any)
				k := fmt.Sprintf("step:%v/%v", sm["base"], sm["result"])
				if c, _ := sm["compat"].([]any); len(c) > 0 {
					k += "+compat"
				}
				if o, _ := sm["ofs"].([]any); len(o) > 0 {
					k += "+ofs"
				}
				if !seen[k] {
					seen[k] = true
					l = append(l, k)
				}
				held, _ := sm["held"].(map[string]any)
				for c, v := range held {
					hl, _ := v.([]any)
					if len(hl) < prev[c] && !seen["released"] {
						seen["released"] = true
						l = append(l, "released")
					}
					prev[c] = len(hl)
				}
			}
			fin, _ := m["finals"].([]any)
			for _, f := range fin {
				fm, _ := f.(map[string]any)
				k := "final:unpinned"
				if fm["postRID"] != nil {
					k = "final:pinned"
				}
				if !seen[k] {
					seen[k] = true
					l = append(l, k)
				}
			}
			if e, _ := m["err"].(string); e != "" {
				l = append(l, "harness-err")
			}
			return l
		},
		Signature: func(raw json.RawMessage, impl any) string { return "claims" },
		Shrink: func(raw json.RawMessage) []any {
			var in ClaimsIn
			json.Unmarshal(raw, &in)
			var out []any
			// drop trailing steps only (step numbers are referenced by later steps)
			for k := len(in.Steps) - 1; k >= 1; k-- {
				c := in
				c.Steps = append([]CStep{}, in.Steps[:k]...)
				out = append(out, c)
				if len(out) > 12 {
					break
				}
			}
			return out
		},
	}
}
