package c17

import (
	"context"
	"encoding/json"
	"fmt"
	"math/rand/v2"
	"sort"
	"strings"
	"unique"

	resourcev1 "k8s.io/api/resource/v1"
	"k8s.io/apimachinery/pkg/api/resource"
	"k8s.io/apimachinery/pkg/util/sets"

	"sigs.k8s.io/karpenter/pkg/cloudprovider"
	"sigs.k8s.io/karpenter/pkg/scheduling"
	dra "sigs.k8s.io/karpenter/pkg/scheduling/dynamicresources"

	"verifharness/internal/core"
)

// ---------------------------------------------------------------------------------------------
// c17.dra — the real dynamicresources.AllocationTracker (Commit / ReleaseInstanceTypes / IsAllocated) driven by op
// sequences; Commit's argument type is unexported, so the verif hook dra.VerifCommit builds it
// ---------------------------------------------------------------------------------------------

type DraDev struct {
	Name     string `json:"name"`
	Template bool   `json:"template"`
}

type DraAlloc struct {
	IT   string   `json:"it"`
	Devs []DraDev `json:"devs"`
}

type DraOp struct {
	Op    string     `json:"op"` // commit | guarded | release
	NC    string     `json:"nc"`
	Alloc []DraAlloc `json:"alloc"`
	ITs   []string   `json:"its"`
}

type DraIn struct {
	Prealloc []string `json:"prealloc"`
	Ops      []DraOp  `json:"ops"`
}

type DraSnap struct {
	Inflight  []string `json:"inflight"`  // "device|nodeclaim|instancetype" from InflightClusterAllocations
	ByNC      []string `json:"byNC"`      // "nodeclaim|instancetype|device" from InflightClusterAllocationsByNodeClaim
	Template  []string `json:"template"`  // "nodeclaim|instancetype|device" from InflightTemplateAllocations
	Allocated []string `json:"allocated"` // "device[*]|nodeclaim|instancetype" for which IsAllocated answers true (whole universe); * = template
}

type DraOut struct {
	Obs   []string  `json:"obs"` // ok | granted:<it/dev,…> | panic:<class>
	Snaps []DraSnap `json:"snaps"`
}

type draNC struct{ id string }

func (n draNC) ID() dra.NodeClaimID                                      { return unique.Make(n.id) }
func (n draNC) NodeName() string                                        { return "" }
func (n draNC) NodePoolID() dra.NodePoolID                              { return unique.Make("pool") }
func (n draNC) Requirements() scheduling.Requirements                   { return scheduling.NewRequirements() }
func (n draNC) InstanceTypes() []dra.InstanceTypeID                     { return nil }
func (n draNC) ResourceSlices() map[dra.InstanceTypeID][]dra.ResourceSlice { return nil }

func devID(d DraDev) dra.DeviceID {
	return dra.DeviceID{DeviceID: cloudprovider.DeviceID{Driver: unique.Make("drv"), Pool: unique.Make("pool"), Device: unique.Make(d.Name)}, Template: d.Template}
}

func draPanicClass(r any) string {
	s := fmt.Sprint(r)
	switch {
	case strings.Contains(s, "already allocated for instance type"):
		return "dupInstanceType"
	case strings.Contains(s, "different nodeclaim"):
		return "otherNodeClaim"
	case strings.Contains(s, "missing reference count"):
		return "missingRefCount"
	case strings.Contains(s, "missing instance type reference"):
		return "missingITRef"
	}
	return "other:" + s
}

func draUniverse(in *DraIn) (devs []DraDev, ncs, its []string) {
	ds, ns, is := map[DraDev]bool{}, map[string]bool{}, map[string]bool{}
	for _, p := range in.Prealloc {
		ds[DraDev{Name: p}] = true
	}
	for _, op := range in.Ops {
		ns[op.NC] = true
		for _, a := range op.Alloc {
			is[a.IT] = true
			for _, d := range a.Devs {
				ds[d] = true
			}
		}
		for _, it := range op.ITs {
			is[it] = true
		}
	}
	for d := range ds {
		devs = append(devs, d)
	}
	sort.Slice(devs, func(i, j int) bool {
		if devs[i].Name != devs[j].Name {
			return devs[i].Name < devs[j].Name
		}
		return !devs[i].Template && devs[j].Template
	})
	for n := range ns {
		ncs = append(ncs, n)
	}
	for i := range is {
		its = append(its, i)
	}
	sort.Strings(ncs)
	sort.Strings(its)
	return
}

func draSnap(at *dra.AllocationTracker, devs []DraDev, ncs, its []string) DraSnap {
	s := DraSnap{Inflight: []string{}, ByNC: []string{}, Template: []string{}, Allocated: []string{}}
	for id, meta := range at.InflightClusterAllocations {
		for it := range meta.InstanceTypes {
			s.Inflight = append(s.Inflight, id.Device.Value()+"|"+meta.NodeClaimID.Value()+"|"+it.Value())
		}
	}
	for nc, m := range at.InflightClusterAllocationsByNodeClaim {
		for it, ds := range m {
			for d := range ds {
				s.ByNC = append(s.ByNC, nc.Value()+"|"+it.Value()+"|"+d.Device.Value())
			}
		}
	}
	for nc, m := range at.InflightTemplateAllocations {
		for it, ds := range m {
			for d := range ds {
				s.Template = append(s.Template, nc.Value()+"|"+it.Value()+"|"+d.Device.Value())
			}
		}
	}
	for _, d := range devs {
		for _, nc := range ncs {
			for _, it := range its {
				if at.IsAllocated(devID(d), draNC{nc}, unique.Make(it)) {
					n := d.Name
					if d.Template {
						n += "*"
					}
					s.Allocated = append(s.Allocated, n+"|"+nc+"|"+it)
				}
			}
		}
	}
	sort.Strings(s.Inflight)
	sort.Strings(s.ByNC)
	sort.Strings(s.Template)
	sort.Strings(s.Allocated)
	return s
}

func implDRA(raw json.RawMessage) (any, error) {
	var in DraIn
	if err := json.Unmarshal(raw, &in); err != nil {
		return nil, err
	}
	pre := sets.New[cloudprovider.DeviceID]()
	for _, p := range in.Prealloc {
		pre.Insert(devID(DraDev{Name: p}).DeviceID)
	}
	at := dra.NewAllocationTracker(dra.AllocatedDeviceState{ExclusiveDevices: pre, ConsumedCapacity: map[cloudprovider.DeviceID]map[resourcev1.QualifiedName]resource.Quantity{}})
	devs, ncs, its := draUniverse(&in)
	ctx := context.Background()
	out := DraOut{Obs: []string{}, Snaps: []DraSnap{}}
	for _, op := range in.Ops {
		var obs string
		func() {
			defer func() {
				if r := recover(); r != nil {
					obs = "panic:" + draPanicClass(r)
				}
			}()
			nc := unique.Make(op.NC)
			switch op.Op {
			case "commit":
				// unguarded: one Commit per instance type, in the given order (Commit itself ranges over a map)
				for _, a := range op.Alloc {
					ids := []dra.DeviceID{}
					for _, d := range a.Devs {
						ids = append(ids, devID(d))
					}
					dra.VerifCommit(at, nc, map[dra.InstanceTypeID][]dra.DeviceID{unique.Make(a.IT): ids}, nil)
				}
				obs = "ok"
			case "guarded":
				// the allocator's discipline: only devices IsAllocated leaves free for (nodeclaim, instance type), each once; ONE Commit
				m := map[dra.InstanceTypeID][]dra.DeviceID{}
				seen := map[string]bool{}
				granted := []string{}
				for _, a := range op.Alloc {
					for _, d := range a.Devs {
						k := a.IT + "/" + d.Name
						if d.Template {
							k += "*"
						}
						if seen[k] || at.IsAllocated(devID(d), draNC{op.NC}, unique.Make(a.IT)) {
							continue
						}
						seen[k] = true
						granted = append(granted, k)
						m[unique.Make(a.IT)] = append(m[unique.Make(a.IT)], devID(d))
					}
				}
				dra.VerifCommit(at, nc, m, nil)
				obs = "granted:" + strings.Join(granted, ",")
			case "release":
				ids := []dra.InstanceTypeID{}
				for _, it := range op.ITs {
					ids = append(ids, unique.Make(it))
				}
				at.ReleaseInstanceTypes(ctx, nc, ids...)
				obs = "ok"
			default:
				obs = "bad-op"
			}
		}()
		out.Obs = append(out.Obs, obs)
		if strings.HasPrefix(obs, "panic:") {
			break
		}
		out.Snaps = append(out.Snaps, draSnap(at, devs, ncs, its))
	}
	return out, nil
}

func genDRA(r *rand.Rand, t core.Tier) any {
	nDev := 2 + r.IntN(5)
	names := []string{}
	for i := 0; i < nDev; i++ {
		names = append(names, fmt.Sprintf("gpu-%d", i))
	}
	ncs := []string{"nc-a", "nc-b", "nc-c"}[:1+r.IntN(3)]
	its := []string{"it-x", "it-y", "it-z"}[:1+r.IntN(3)]
	in := DraIn{Prealloc: []string{}, Ops: []DraOp{}}
	for _, n := range names {
		if r.IntN(6) == 0 {
			in.Prealloc = append(in.Prealloc, n)
		}
	}
	maxOps := 25
	if t == core.Thorough {
		maxOps = 80
	}
	nOps := 1 + r.IntN(maxOps)
	genAlloc := func() []DraAlloc {
		var al []DraAlloc
		perm := r.Perm(len(its))
		k := 1 + r.IntN(len(its))
		for _, ix := range perm[:k] {
			a := DraAlloc{IT: its[ix]}
			for j := 1 + r.IntN(3); j > 0; j-- {
				a.Devs = append(a.Devs, DraDev{Name: pick(r, names), Template: r.IntN(5) == 0})
			}
			al = append(al, a)
		}
		return al
	}
	for i := 0; i < nOps; i++ {
		nc := pick(r, ncs)
		switch x := r.IntN(100); {
		case x < 60:
			in.Ops = append(in.Ops, DraOp{Op: "guarded", NC: nc, Alloc: genAlloc()})
		case x < 62:
			in.Ops = append(in.Ops, DraOp{Op: "commit", NC: nc, Alloc: genAlloc()})
		default:
			k := 1 + r.IntN(len(its))
			perm := r.Perm(len(its))
			rel := []string{}
			for _, ix := range perm[:k] {
				rel = append(rel, its[ix])
			}
			if r.IntN(8) == 0 {
				rel = append(rel, rel[0]) // the same instance type released twice
			}
			in.Ops = append(in.Ops, DraOp{Op: "release", NC: nc, ITs: rel})
		}
	}
	return in
}

func opDRA() *core.Op {
	return &core.Op{
		Name: "c17.dra",
		Doc:  "the real dynamicresources.AllocationTracker: NewAllocationTracker with pre-allocated devices, then Commit (through the verif hook VerifCommit, guarded by IsAllocated as the allocator does, or unguarded) and ReleaseInstanceTypes sequences over 1..3 NodeClaims × 1..3 instance types × 2..6 in-cluster and template devices; after every op the three exported allocation maps and IsAllocated over the whole universe; model = Karp.DraTracker, spec = exclusive holding as a set",
		N:    func(t core.Tier) int { return map[core.Tier]int{core.Quick: 4000, core.Thorough: 15000}[t] },
		Gen:  genDRA,
		Impl: implDRA,
		Rule: "non-trivial = at some point a device was held by one NodeClaim for two instance types, or a device was refused to a second NodeClaim and later (after a release) granted to it",
		Nontrivial: func(raw json.RawMessage, impl any) bool {
			m, _ := impl.(map[string]any)
			snaps, _ := m["snaps"].([]any)
			for _, s := range snaps {
				sm, _ := s.(map[string]any)
				inf, _ := sm["inflight"].([]any)
				cnt := map[string]int{}
				for _, x := range inf {
					parts := strings.Split(fmt.Sprint(x), "|")
					cnt[parts[0]]++
					if cnt[parts[0]] > 1 {
						return true
					}
				}
			}
			return false
		},
		Labels: func(raw json.RawMessage, impl any) []string {
			var in DraIn
			json.Unmarshal(raw, &in)
			m, _ := impl.(map[string]any)
			obs, _ := m["obs"].([]any)
			l := []string{fmt.Sprintf("ops<=%d", ((len(in.Ops)/20)+1)*20)}
			seen := map[string]bool{}
			for i, o := range obs {
				s := fmt.Sprint(o)
				k := in.Ops[i].Op + ":" + s
				if strings.HasPrefix(s, "granted:") {
					k = "guarded:granted-some"
					if s == "granted:" {
						k = "guarded:granted-none"
					}
				}
				if !seen[k] {
					seen[k] = true
					l = append(l, k)
				}
			}
			return l
		},
		Signature: func(raw json.RawMessage, impl any) string { return "dra" },
		Shrink: func(raw json.RawMessage) []any {
			var in DraIn
			json.Unmarshal(raw, &in)
			var out []any
			for _, c := range core.ShrinkList(in.Ops) {
				out = append(out, DraIn{Prealloc: in.Prealloc, Ops: c})
			}
			return out
		},
	}
}
