package c17

import (
	"encoding/json"
	"fmt"
	"math/rand/v2"
	"sort"
	"strings"
	"unique"

	corev1 "k8s.io/api/core/v1"
	resourcev1 "k8s.io/api/resource/v1"
	"k8s.io/apimachinery/pkg/api/resource"
	metav1 "k8s.io/apimachinery/pkg/apis/meta/v1"
	"k8s.io/apimachinery/pkg/types"
	"k8s.io/utils/ptr"

	"sigs.k8s.io/karpenter/pkg/cloudprovider"
	"sigs.k8s.io/karpenter/pkg/controllers/dynamicresources/deviceallocation"
	"sigs.k8s.io/karpenter/pkg/controllers/provisioning"
	"sigs.k8s.io/karpenter/pkg/operator/options"
	"sigs.k8s.io/karpenter/pkg/state/virtualpods"
	"sigs.k8s.io/karpenter/pkg/test"

	"verifharness/internal/core"
	"verifharness/internal/world"
)

// ---------------------------------------------------------------------------------------------
// c17.drapass — whole real scheduling passes with dynamic resource allocation enabled (IgnoreDRARequests=false): pods
// referencing ResourceClaims, DeviceClasses / ResourceSlices / allocated claims on the fake client, instance types
// with ResourceSlice templates; observed: Results.DRAClaimAllocationMetadata and the NodeClaims of the result
// ---------------------------------------------------------------------------------------------

type DraPod struct {
	world.Pod
	Claims []string `json:"claims"` // names of the ResourceClaims the pod references
}

type DraPassIn struct {
	ITs      []world.IT          `json:"its"`
	Pools    []world.NodePool    `json:"pools"`
	Excl     []string            `json:"excl"`     // exclusive in-cluster devices (cluster-wide slice)
	Shared   []SharedDev         `json:"shared"`   // multi-allocatable in-cluster devices
	Prealloc []string            `json:"prealloc"` // exclusive devices held by an already allocated claim of a non-pod consumer
	Tmpl     map[string][]string `json:"tmpl"`     // instance type -> template device names
	Claims   []AClaim            `json:"claims"`
	Pods     []DraPod            `json:"pods"`
	Par      int                 `json:"parallelism"`
}

type DraPassClaim struct {
	Host string   `json:"host"`
	Pool string   `json:"pool"`
	Pods []string `json:"pods"`
	ITs  []string `json:"instanceTypes"`
}

type DraPassOut struct {
	Claims []DraPassClaim    `json:"claims"`
	Errors map[string]string `json:"errors"`
	Meta   []MetaEntry       `json:"meta"`
	Err    string            `json:"err,omitempty"`
}

func implDraPass(raw json.RawMessage) (any, error) {
	var in DraPassIn
	if err := json.Unmarshal(raw, &in); err != nil {
		return nil, err
	}
	scn := &world.Scenario{ITs: in.ITs, Pools: in.Pools, Nodes: []world.Node{}, DaemonSets: []world.DaemonSet{}, Pods: nil, Parallelism: in.Par}
	w, err := world.Build(scn)
	if err != nil {
		return nil, err
	}
	for name, devs := range in.Tmpl {
		it := w.ITs[name]
		if it == nil || len(devs) == 0 {
			continue
		}
		ds := []cloudprovider.Device{}
		for _, d := range devs {
			ds = append(ds, cloudprovider.Device{Name: unique.Make(d)})
		}
		it.DynamicResources.ResourceSliceTemplates = []*cloudprovider.ResourceSliceTemplate{{Driver: unique.Make(drvTmpl), Pool: cloudprovider.ResourcePool{Name: unique.Make("pool-t")}, Devices: ds}}
	}
	o := *options.FromContext(w.Ctx)
	o.IgnoreDRARequests = false
	ctx := options.ToContext(w.Ctx, &o)
	for i, dc := range []*resourcev1.DeviceClass{deviceClass("gpu", drvExcl), deviceClass("tmpl", drvTmpl), deviceClass("shared", drvShared)} {
		dc.UID = types.UID(fmt.Sprintf("dc-%d", i))
		if err := w.Client.Create(ctx, dc); err != nil {
			return nil, err
		}
	}
	if len(in.Excl) > 0 {
		s := &resourcev1.ResourceSlice{ObjectMeta: metav1.ObjectMeta{Name: "s-excl", UID: "rs-1"}, Spec: resourcev1.ResourceSliceSpec{Driver: drvExcl,
			Pool: resourcev1.ResourcePool{Name: "pool-a", Generation: 1, ResourceSliceCount: 1}, AllNodes: ptr.To(true)}}
		for _, d := range in.Excl {
			s.Spec.Devices = append(s.Spec.Devices, resourcev1.Device{Name: d})
		}
		if err := w.Client.Create(ctx, s); err != nil {
			return nil, err
		}
	}
	if len(in.Shared) > 0 {
		s := &resourcev1.ResourceSlice{ObjectMeta: metav1.ObjectMeta{Name: "s-shared", UID: "rs-2"}, Spec: resourcev1.ResourceSliceSpec{Driver: drvShared,
			Pool: resourcev1.ResourcePool{Name: "pool-b", Generation: 1, ResourceSliceCount: 1}, AllNodes: ptr.To(true)}}
		for _, d := range in.Shared {
			s.Spec.Devices = append(s.Spec.Devices, resourcev1.Device{Name: d.Name, AllowMultipleAllocations: ptr.To(true),
				Capacity: map[resourcev1.QualifiedName]resourcev1.DeviceCapacity{capDim: {Value: *resource.NewQuantity(d.Cap, resource.DecimalSI)}}})
		}
		if err := w.Client.Create(ctx, s); err != nil {
			return nil, err
		}
	}
	for i, d := range in.Prealloc {
		// an allocated claim reserved for a non-pod consumer: its device is not available
		c := &resourcev1.ResourceClaim{ObjectMeta: metav1.ObjectMeta{Name: fmt.Sprintf("pre-%d", i), Namespace: "default", UID: types.UID(fmt.Sprintf("pre-%d", i))},
			Spec: resourcev1.ResourceClaimSpec{Devices: resourcev1.DeviceClaim{Requests: []resourcev1.DeviceRequest{{Name: "req", Exactly: &resourcev1.ExactDeviceRequest{DeviceClassName: "gpu", Count: 1}}}}},
			Status: resourcev1.ResourceClaimStatus{
				Allocation:  &resourcev1.AllocationResult{Devices: resourcev1.DeviceAllocationResult{Results: []resourcev1.DeviceRequestAllocationResult{{Request: "req", Driver: drvExcl, Pool: "pool-a", Device: d}}}},
				ReservedFor: []resourcev1.ResourceClaimConsumerReference{{APIGroup: "example.com", Resource: "widgets", Name: "w", UID: "w-1"}},
			}}
		if err := w.Client.Create(ctx, c); err != nil {
			return nil, err
		}
	}
	for i, c := range in.Claims {
		rc := toClaim(c)
		rc.UID = types.UID(fmt.Sprintf("rc-%d", i))
		if err := w.Client.Create(ctx, rc); err != nil {
			return nil, err
		}
	}
	for i, p := range in.Pods {
		pod := w.BuildPod(p.Pod, "", 100+i)
		for j, cn := range p.Claims {
			pod.Spec.ResourceClaims = append(pod.Spec.ResourceClaims, corev1.PodResourceClaim{Name: fmt.Sprintf("c%d", j), ResourceClaimName: ptr.To(cn)})
		}
		if err := w.Client.Create(ctx, pod); err != nil {
			return nil, err
		}
	}
	devCtl := deviceallocation.NewController(w.Client)
	devCtl.Hydrate(ctx)
	prov := provisioning.NewProvisioner(w.Client, test.NewEventRecorder(), w.CP, w.Cluster, w.Clock, devCtl, virtualpods.NewVirtualPodCache(w.Client))
	w.Cluster.SetSynced(true)
	res, err := prov.Schedule(ctx)
	if err != nil {
		return DraPassOut{Err: err.Error()}, nil
	}
	out := DraPassOut{Claims: []DraPassClaim{}, Errors: map[string]string{}, Meta: []MetaEntry{}}
	for _, nc := range res.NewNodeClaims {
		c := DraPassClaim{Host: nc.VerifReservations().Hostname, Pool: nc.NodePoolName}
		for _, p := range nc.Pods {
			c.Pods = append(c.Pods, p.Name)
		}
		sort.Strings(c.Pods)
		for _, it := range nc.InstanceTypeOptions {
			c.ITs = append(c.ITs, it.Name)
		}
		sort.Strings(c.ITs)
		out.Claims = append(out.Claims, c)
	}
	sort.Slice(out.Claims, func(i, j int) bool { return strings.Join(out.Claims[i].Pods, ",") < strings.Join(out.Claims[j].Pods, ",") })
	for p, e := range res.PodErrors {
		cls := "unschedulable"
		if strings.Contains(e.Error(), "allocating dynamic resources") || strings.Contains(e.Error(), "dynamic resource") {
			cls = "dra"
		}
		out.Errors[p.Name] = cls
	}
	for key, meta := range res.DRAClaimAllocationMetadata {
		for it, devs := range meta.Devices {
			for _, d := range devs {
				e := MetaEntry{Claim: key.Name, NC: meta.NodeClaimID.Value(), IT: it.Value(), Dev: d.DeviceID.Device.Value(), Driver: d.DeviceID.Driver.Value(), Template: d.DeviceID.Template}
				if q, ok := d.ConsumedCapacity[capDim]; ok {
					e.Consumed = q.Value()
				}
				out.Meta = append(out.Meta, e)
			}
		}
	}
	sort.Slice(out.Meta, func(i, j int) bool {
		a, b := out.Meta[i], out.Meta[j]
		return fmt.Sprint(a.Claim, "|", a.NC, "|", a.IT, "|", a.Dev, "|", a.Template) < fmt.Sprint(b.Claim, "|", b.NC, "|", b.IT, "|", b.Dev, "|", b.Template)
	})
	return out, nil
}

func genDraPass(r *rand.Rand, t core.Tier) any {
	in := DraPassIn{Excl: []string{}, Shared: []SharedDev{}, Prealloc: []string{}, Tmpl: map[string][]string{}, Claims: []AClaim{}, Pods: []DraPod{}, Par: pick(r, []int{1, 1, 2, 8})}
	// a small catalog: 2..3 instance types in one or two zones, on-demand only (reservations are c17.pass's subject)
	nIT := 2 + r.IntN(2)
	for i := 0; i < nIT; i++ {
		cpu := pick(r, []int64{2000, 4000, 8000})
		it := world.IT{Name: fmt.Sprintf("it-%d", i), CPU: cpu, Mem: cpu * 2, Pods: int64(pick(r, []int{2, 3, 5})), Arch: "amd64", OS: []string{"linux"}, Overhead: 100}
		for _, z := range c17Zones[:1+r.IntN(2)] {
			it.Offerings = append(it.Offerings, world.Offering{Zone: z, CapacityType: "on-demand", Price: cpu/1000*40 + int64(r.IntN(10)), Available: true})
		}
		in.ITs = append(in.ITs, it)
		if r.IntN(2) == 0 {
			for j := 0; j < 1+r.IntN(2); j++ {
				in.Tmpl[it.Name] = append(in.Tmpl[it.Name], fmt.Sprintf("tdev-%d", j))
			}
		}
	}
	nPools := 1 + r.IntN(2)
	for i := 0; i < nPools; i++ {
		in.Pools = append(in.Pools, world.NodePool{Name: fmt.Sprintf("pool-%d", i), Weight: int32((nPools - i) * 10), Labels: map[string]string{}})
	}
	for i := 0; i < 1+r.IntN(4); i++ {
		in.Excl = append(in.Excl, fmt.Sprintf("gpu-%d", i))
		if r.IntN(6) == 0 {
			in.Prealloc = append(in.Prealloc, fmt.Sprintf("gpu-%d", i))
		}
	}
	for i := 0; i < r.IntN(2); i++ {
		in.Shared = append(in.Shared, SharedDev{Name: fmt.Sprintf("mig-%d", i), Cap: int64(2 + r.IntN(6))})
	}
	nPods := 1 + r.IntN(6)
	if t == core.Thorough {
		nPods = 1 + r.IntN(9)
	}
	for i := 0; i < nPods; i++ {
		p := DraPod{Pod: world.Pod{Name: fmt.Sprintf("pod-%d", i), Labels: map[string]string{"app": "a"}, CPU: int64(100 * (1 + r.IntN(20))), Mem: 64}}
		if r.IntN(4) == 0 {
			p.NodeSelector = map[string]string{"node.kubernetes.io/instance-type": pick(r, in.ITs).Name}
		}
		if r.IntN(5) == 0 {
			p.NodeSelector = map[string]string{"topology.kubernetes.io/zone": pick(r, c17Zones[:2])}
		}
		if r.IntN(5) != 0 { // most pods carry claims
			for k := 0; k < 1+r.IntN(2); k++ {
				if len(in.Claims) > 0 && r.IntN(7) == 0 {
					cn := pick(r, in.Claims).Name // a claim shared between pods
					dup := false
					for _, x := range p.Claims {
						dup = dup || x == cn
					}
					if !dup {
						p.Claims = append(p.Claims, cn)
					}
					continue
				}
				c := AClaim{Name: fmt.Sprintf("rc-%d", len(in.Claims)), Count: 1}
				switch x := r.IntN(10); {
				case x < 6 || (len(in.Shared) == 0 && len(in.Tmpl) == 0):
					c.Class, c.Count = "gpu", int64(1+r.IntN(2))
				case x < 8 && len(in.Shared) > 0:
					c.Class, c.Cap = "shared", int64(1+r.IntN(4))
				case len(in.Tmpl) > 0:
					c.Class = "tmpl"
				default:
					c.Class = "gpu"
				}
				in.Claims = append(in.Claims, c)
				p.Claims = append(p.Claims, c.Name)
			}
		}
		world.FixExprs(&p.Pod)
		in.Pods = append(in.Pods, p)
	}
	return in
}

func opDraPass() *core.Op {
	return &core.Op{
		Name: "c17.drapass",
		Doc:  "whole real Provisioner.Schedule passes with dynamic resource allocation enabled (IgnoreDRARequests=false; real Scheduler, NodeClaim.CanAdd/Add with the real Allocator, deviceallocation controller hydrated from the fake client): DeviceClasses, a cluster-wide ResourceSlice of 1..4 exclusive devices (some held by an allocated claim), optional multi-allocatable devices with capacity, per-instance-type ResourceSlice templates, 1..6 pods referencing fresh and shared ResourceClaims; observed: Results.DRAClaimAllocationMetadata and pods / instance types / hostname of every NodeClaim; judged by the exclusivity / capacity / completeness specification",
		N:    func(t core.Tier) int { return map[core.Tier]int{core.Quick: 1500, core.Thorough: 6000}[t] },
		Gen:  genDraPass,
		Impl: implDraPass,
		Rule: "non-trivial = the result allocates ResourceClaims for at least two NodeClaims, or a pod with claims could not be scheduled",
		Nontrivial: func(raw json.RawMessage, impl any) bool {
			m, _ := impl.(map[string]any)
			meta, _ := m["meta"].([]any)
			ncs := map[string]bool{}
			for _, e := range meta {
				em, _ := e.(map[string]any)
				ncs[fmt.Sprint(em["nc"])] = true
			}
			er, _ := m["errors"].(map[string]any)
			return len(ncs) > 1 || len(er) > 0
		},
		Labels: func(raw json.RawMessage, impl any) []string {
			m, _ := impl.(map[string]any)
			cs, _ := m["claims"].([]any)
			meta, _ := m["meta"].([]any)
			er, _ := m["errors"].(map[string]any)
			ncs := map[string]bool{}
			l := []string{}
			seen := map[string]bool{}
			for _, e := range meta {
				em, _ := e.(map[string]any)
				ncs[fmt.Sprint(em["nc"])] = true
				k := "exclusive-device-allocated"
				if em["template"] == true {
					k = "template-device-allocated"
				} else if strings.HasPrefix(fmt.Sprint(em["dev"]), "mig-") {
					k = "shared-device-allocated"
				}
				if !seen[k] {
					seen[k] = true
					l = append(l, k)
				}
			}
			l = append(l, fmt.Sprintf("nodeclaims=%d", min(len(cs), 4)), fmt.Sprintf("nodeclaims-with-devices=%d", min(len(ncs), 3)), fmt.Sprintf("errors=%d", min(len(er), 3)))
			if e, _ := m["err"].(string); e != "" {
				l = append(l, "schedule-error")
			}
			return l
		},
		Signature: func(raw json.RawMessage, impl any) string { return "drapass" },
		Shrink: func(raw json.RawMessage) []any {
			var in DraPassIn
			json.Unmarshal(raw, &in)
			var out []any
			for _, c := range core.ShrinkList(in.Pods) {
				d := in
				d.Pods = c
				out = append(out, d)
			}
			return out
		},
	}
}
