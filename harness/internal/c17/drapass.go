package c17

import (
	"encoding/json"
	"fmt"
	"math/rand/v2"
	"sort"
	"strings"
	"unique"

	corev1 "k8s.io/api/core/v1"
	resourcev1 "k8s.io/api/resource/v1"
	"k8s.io/apimachinery/pkg/api/resource"
	metav1 "k8s.io/apimachinery/pkg/apis/meta/v1"
	"k8s.io/apimachinery/pkg/types"
	"k8s.io/utils/ptr"

	"sigs.k8s.io/karpenter/pkg/cloudprovider"
	"sigs.k8s.io/karpenter/pkg/controllers/dynamicresources/deviceallocation"
	"sigs.k8s.io/karpenter/pkg/controllers/provisioning"
	"sigs.k8s.io/karpenter/pkg/operator/options"
	"sigs.k8s.io/karpenter/pkg/state/virtualpods"
	"sigs.k8s.io/karpenter/pkg/test"

	"verifharness/internal/core"
	"verifharness/internal/world"
)

// ---------------------------------------------------------------------------------------------
// c17.drapass — whole real scheduling passes with dynamic resource allocation enabled (IgnoreDRARequests=false): pods
// referencing ResourceClaims, DeviceClasses / ResourceSlices / allocated claims on the fake client, instance types
// with ResourceSlice templates; observed: Results.DRAClaimAllocationMetadata and the NodeClaims of the result
// ---------------------------------------------------------------------------------------------

type DraPod struct {
	world.Pod
	Claims []string `json:"claims"` // names of the ResourceClaims the pod references
}

// DraNode is an existing node of the cluster (initialized unless Stage says otherwise) with a node-local partitionable
// device: pool "np-<name>" whose slices are pinned to the node by spec.nodeName and owned by the Node object, a shared
// counter of Slots units, and partitions of which those marked Pre are allocated to pods running on the node
type DraNode struct {
	Name  string    `json:"name"`
	Pool  string    `json:"pool"`
	IT    string    `json:"it"`
	Zone  string    `json:"zone"`
	Stage string    `json:"stage,omitempty"`
	Slots int64     `json:"slots"`
	Parts []PartDev `json:"parts"`
	Split bool      `json:"split,omitempty"` // the partitions are published in two device slices
}

func (n DraNode) poolName() string { return "np-" + n.Name }

// nodeSlotLabel is a label only the existing nodes carry (value = node name): a pod selecting it can run on that node
// only (kubernetes.io/hostname is a restricted label, Karpenter ignores pods that select it)
const nodeSlotLabel = "example.com/slot"

type DraPassIn struct {
	ITs      []world.IT          `json:"its"`
	Pools    []world.NodePool    `json:"pools"`
	Nodes    []DraNode           `json:"nodes,omitempty"`
	PPools   []PartPool          `json:"ppools,omitempty"` // partitionable pools that are not node-local (cluster-wide, zonal)
	Excl     []string            `json:"excl"`     // exclusive in-cluster devices (cluster-wide slice)
	Shared   []SharedDev         `json:"shared"`   // multi-allocatable in-cluster devices
	Prealloc []string            `json:"prealloc"` // exclusive devices held by an already allocated claim of a non-pod consumer
	Tmpl     map[string][]string `json:"tmpl"`     // instance type -> template device names
	TParts   map[string]TPartPool `json:"tparts,omitempty"` // instance type -> the partitionable device it comes with (template partitions, template counter)
	Claims   []AClaim            `json:"claims"`
	Pods     []DraPod            `json:"pods"`
	Par      int                 `json:"parallelism"`
}

type DraPassClaim struct {
	Host string   `json:"host"`
	Pool string   `json:"pool"`
	Pods []string `json:"pods"`
	ITs  []string `json:"instanceTypes"`
}

type DraPassOut struct {
	Claims   []DraPassClaim    `json:"claims"`
	Existing []DraPassClaim    `json:"existing"` // existing nodes that received pods: host = the allocator's id of the node (its provider id)
	Errors map[string]string `json:"errors"`
	Meta   []MetaEntry       `json:"meta"`
	Err    string            `json:"err,omitempty"`
}

func implDraPass(raw json.RawMessage) (any, error) {
	var in DraPassIn
	if err := json.Unmarshal(raw, &in); err != nil {
		return nil, err
	}
	scn := &world.Scenario{ITs: in.ITs, Pools: in.Pools, Nodes: []world.Node{}, DaemonSets: []world.DaemonSet{}, Pods: nil, Parallelism: in.Par}
	for _, n := range in.Nodes {
		stage := n.Stage
		if stage == "" {
			stage = "initialized"
		}
		scn.Nodes = append(scn.Nodes, world.Node{Name: n.Name, Pool: n.Pool, IT: n.IT, Zone: n.Zone, CapacityType: "on-demand", Labels: map[string]string{nodeSlotLabel: n.Name}, Stage: stage})
	}
	w, err := world.Build(scn)
	if err != nil {
		return nil, err
	}
	for name, devs := range in.Tmpl {
		it := w.ITs[name]
		if it == nil || len(devs) == 0 {
			continue
		}
		ds := []cloudprovider.Device{}
		for _, d := range devs {
			ds = append(ds, cloudprovider.Device{Name: unique.Make(d)})
		}
		it.DynamicResources.ResourceSliceTemplates = []*cloudprovider.ResourceSliceTemplate{{Driver: unique.Make(drvTmpl), Pool: cloudprovider.ResourcePool{Name: unique.Make("pool-t")}, Devices: ds}}
	}
	for name, tp := range in.TParts {
		if it := w.ITs[name]; it != nil {
			it.DynamicResources.ResourceSliceTemplates = append(it.DynamicResources.ResourceSliceTemplates, templatePartTemplates(tp)...)
		}
	}
	o := *options.FromContext(w.Ctx)
	o.IgnoreDRARequests = false
	ctx := options.ToContext(w.Ctx, &o)
	for i, dc := range []*resourcev1.DeviceClass{deviceClass("gpu", drvExcl), deviceClass("tmpl", drvTmpl), deviceClass("shared", drvShared), deviceClass("part", drvPart), deviceClass("tpart", drvTPart)} {
		dc.UID = types.UID(fmt.Sprintf("dc-%d", i))
		if err := w.Client.Create(ctx, dc); err != nil {
			return nil, err
		}
	}
	if len(in.Excl) > 0 {
		s := &resourcev1.ResourceSlice{ObjectMeta: metav1.ObjectMeta{Name: "s-excl", UID: "rs-1"}, Spec: resourcev1.ResourceSliceSpec{Driver: drvExcl,
			Pool: resourcev1.ResourcePool{Name: "pool-a", Generation: 1, ResourceSliceCount: 1}, AllNodes: ptr.To(true)}}
		for _, d := range in.Excl {
			s.Spec.Devices = append(s.Spec.Devices, resourcev1.Device{Name: d})
		}
		if err := w.Client.Create(ctx, s); err != nil {
			return nil, err
		}
	}
	if len(in.Shared) > 0 {
		s := &resourcev1.ResourceSlice{ObjectMeta: metav1.ObjectMeta{Name: "s-shared", UID: "rs-2"}, Spec: resourcev1.ResourceSliceSpec{Driver: drvShared,
			Pool: resourcev1.ResourcePool{Name: "pool-b", Generation: 1, ResourceSliceCount: 1}, AllNodes: ptr.To(true)}}
		for _, d := range in.Shared {
			s.Spec.Devices = append(s.Spec.Devices, sharedDevice(d))
		}
		if err := w.Client.Create(ctx, s); err != nil {
			return nil, err
		}
	}
	// partitionable pools: the node-local ones of the existing nodes (slices owned by the Node, as node-local drivers
	// publish them) and the others
	type pubPool struct {
		PartPool
		owner string
	}
	var pub []pubPool
	for _, n := range in.Nodes {
		if len(n.Parts) == 0 {
			continue
		}
		pp := PartPool{Name: n.poolName(), Slots: n.Slots}
		if n.Split && len(n.Parts) > 1 {
			h := len(n.Parts) / 2
			pp.Slices = []PartSlice{{Access: "node:" + n.Name, Parts: n.Parts[:h]}, {Access: "node:" + n.Name, Parts: n.Parts[h:]}}
		} else {
			pp.Slices = []PartSlice{{Access: "node:" + n.Name, Parts: n.Parts}}
		}
		pub = append(pub, pubPool{pp, n.Name})
	}
	for _, pp := range in.PPools {
		pub = append(pub, pubPool{pp, ""})
	}
	rsSeq := 10
	held := 0
	for _, pp := range pub {
		n := int64(1 + len(pp.Slices))
		meta := func(name string) metav1.ObjectMeta {
			rsSeq++
			m := metav1.ObjectMeta{Name: name, UID: types.UID(fmt.Sprintf("rs-%d", rsSeq))}
			if pp.owner != "" {
				m.OwnerReferences = []metav1.OwnerReference{{APIVersion: "v1", Kind: "Node", Name: pp.owner, UID: types.UID("node-" + pp.owner)}}
			}
			return m
		}
		cs := &resourcev1.ResourceSlice{ObjectMeta: meta("s-" + pp.Name + "-counters"), Spec: resourcev1.ResourceSliceSpec{Driver: drvPart,
			Pool:           resourcev1.ResourcePool{Name: pp.Name, Generation: 1, ResourceSliceCount: n},
			SharedCounters: []resourcev1.CounterSet{{Name: ctrSet, Counters: map[string]resourcev1.Counter{ctrName: {Value: *resource.NewQuantity(pp.Slots, resource.DecimalSI)}}}}}}
		access := "all"
		if len(pp.Slices) > 0 {
			access = pp.Slices[0].Access
		}
		if err := setAccess(&cs.Spec, access); err != nil {
			return DraPassOut{Err: err.Error()}, nil
		}
		if err := w.Client.Create(ctx, cs); err != nil {
			return nil, err
		}
		for i, sl := range pp.Slices {
			ds := &resourcev1.ResourceSlice{ObjectMeta: meta(fmt.Sprintf("s-%s-devices-%d", pp.Name, i)), Spec: resourcev1.ResourceSliceSpec{Driver: drvPart,
				Pool: resourcev1.ResourcePool{Name: pp.Name, Generation: 1, ResourceSliceCount: n}}}
			if err := setAccess(&ds.Spec, sl.Access); err != nil {
				return DraPassOut{Err: err.Error()}, nil
			}
			for _, d := range sl.Parts {
				ds.Spec.Devices = append(ds.Spec.Devices, resourcev1.Device{Name: d.Name, ConsumesCounters: []resourcev1.DeviceCounterConsumption{
					{CounterSet: ctrSet, Counters: map[string]resourcev1.Counter{ctrName: {Value: *resource.NewQuantity(d.W, resource.DecimalSI)}}}}})
			}
			if err := w.Client.Create(ctx, ds); err != nil {
				return nil, err
			}
			for _, d := range sl.Parts {
				if !d.Pre {
					continue
				}
				// the partition is in use: an allocated claim, reserved for a pod that runs on the owning node (for a
				// pool without an owner: for a non-pod consumer)
				held++
				c := &resourcev1.ResourceClaim{ObjectMeta: metav1.ObjectMeta{Name: fmt.Sprintf("held-%d", held), Namespace: "default", UID: types.UID(fmt.Sprintf("held-%d", held))},
					Spec: resourcev1.ResourceClaimSpec{Devices: resourcev1.DeviceClaim{Requests: []resourcev1.DeviceRequest{{Name: "req", Exactly: &resourcev1.ExactDeviceRequest{DeviceClassName: "part", Count: 1}}}}},
					Status: resourcev1.ResourceClaimStatus{
						Allocation: &resourcev1.AllocationResult{Devices: resourcev1.DeviceAllocationResult{Results: []resourcev1.DeviceRequestAllocationResult{{Request: "req", Driver: drvPart, Pool: pp.Name, Device: d.Name}}}},
					}}
				if pp.owner != "" {
					pod := w.BuildPod(world.Pod{Name: fmt.Sprintf("run-%d", held), Labels: map[string]string{"app": "running"}, CPU: 100, Mem: 32}, pp.owner, 500+held)
					pod.Spec.ResourceClaims = []corev1.PodResourceClaim{{Name: "c0", ResourceClaimName: ptr.To(c.Name)}}
					if err := w.Client.Create(ctx, pod); err != nil {
						return nil, err
					}
					if err := w.Cluster.UpdatePod(ctx, pod); err != nil {
						return nil, err
					}
					c.Status.ReservedFor = []resourcev1.ResourceClaimConsumerReference{{Resource: "pods", Name: pod.Name, UID: pod.UID}}
				} else {
					c.Status.ReservedFor = []resourcev1.ResourceClaimConsumerReference{{APIGroup: "example.com", Resource: "widgets", Name: "w", UID: "w-1"}}
				}
				if err := w.Client.Create(ctx, c); err != nil {
					return nil, err
				}
			}
		}
	}
	for i, d := range in.Shared {
		pc := sharedPreConsumed(d)
		if len(pc) == 0 {
			continue
		}
		// part of the multi-allocatable device's capacity is consumed by an allocated claim of a non-pod consumer
		c := &resourcev1.ResourceClaim{ObjectMeta: metav1.ObjectMeta{Name: fmt.Sprintf("used-%d", i), Namespace: "default", UID: types.UID(fmt.Sprintf("used-%d", i))},
			Spec: resourcev1.ResourceClaimSpec{Devices: resourcev1.DeviceClaim{Requests: []resourcev1.DeviceRequest{{Name: "req", Exactly: &resourcev1.ExactDeviceRequest{DeviceClassName: "shared", Count: 1,
				Capacity: &resourcev1.CapacityRequirements{Requests: pc}}}}}},
			Status: resourcev1.ResourceClaimStatus{
				Allocation: &resourcev1.AllocationResult{Devices: resourcev1.DeviceAllocationResult{Results: []resourcev1.DeviceRequestAllocationResult{{Request: "req", Driver: drvShared, Pool: "pool-b", Device: d.Name,
					ShareID:          ptr.To(types.UID(fmt.Sprintf("share-%d", i))),
					ConsumedCapacity: pc}}}},
				ReservedFor: []resourcev1.ResourceClaimConsumerReference{{APIGroup: "example.com", Resource: "widgets", Name: "w", UID: "w-1"}},
			}}
		if err := w.Client.Create(ctx, c); err != nil {
			return nil, err
		}
	}
	for i, d := range in.Prealloc {
		// an allocated claim reserved for a non-pod consumer: its device is not available
		c := &resourcev1.ResourceClaim{ObjectMeta: metav1.ObjectMeta{Name: fmt.Sprintf("pre-%d", i), Namespace: "default", UID: types.UID(fmt.Sprintf("pre-%d", i))},
			Spec: resourcev1.ResourceClaimSpec{Devices: resourcev1.DeviceClaim{Requests: []resourcev1.DeviceRequest{{Name: "req", Exactly: &resourcev1.ExactDeviceRequest{DeviceClassName: "gpu", Count: 1}}}}},
			Status: resourcev1.ResourceClaimStatus{
				Allocation:  &resourcev1.AllocationResult{Devices: resourcev1.DeviceAllocationResult{Results: []resourcev1.DeviceRequestAllocationResult{{Request: "req", Driver: drvExcl, Pool: "pool-a", Device: d}}}},
				ReservedFor: []resourcev1.ResourceClaimConsumerReference{{APIGroup: "example.com", Resource: "widgets", Name: "w", UID: "w-1"}},
			}}
		if err := w.Client.Create(ctx, c); err != nil {
			return nil, err
		}
	}
	for i, c := range in.Claims {
		rc := toClaim(c)
		rc.UID = types.UID(fmt.Sprintf("rc-%d", i))
		if err := w.Client.Create(ctx, rc); err != nil {
			return nil, err
		}
	}
	for i, p := range in.Pods {
		pod := w.BuildPod(p.Pod, "", 100+i)
		for j, cn := range p.Claims {
			pod.Spec.ResourceClaims = append(pod.Spec.ResourceClaims, corev1.PodResourceClaim{Name: fmt.Sprintf("c%d", j), ResourceClaimName: ptr.To(cn)})
		}
		if err := w.Client.Create(ctx, pod); err != nil {
			return nil, err
		}
	}
	devCtl := deviceallocation.NewController(w.Client)
	devCtl.Hydrate(ctx)
	prov := provisioning.NewProvisioner(w.Client, test.NewEventRecorder(), w.CP, w.Cluster, w.Clock, devCtl, virtualpods.NewVirtualPodCache(w.Client))
	w.Cluster.SetSynced(true)
	res, err := prov.Schedule(ctx)
	if err != nil {
		return DraPassOut{Err: err.Error()}, nil
	}
	out := DraPassOut{Claims: []DraPassClaim{}, Existing: []DraPassClaim{}, Errors: map[string]string{}, Meta: []MetaEntry{}}
	for _, en := range res.ExistingNodes {
		if len(en.Pods) == 0 {
			continue
		}
		c := DraPassClaim{Host: en.ProviderID(), Pool: en.Labels()["karpenter.sh/nodepool"], ITs: []string{en.Labels()[corev1.LabelInstanceTypeStable]}}
		for _, p := range en.Pods {
			c.Pods = append(c.Pods, p.Name)
		}
		sort.Strings(c.Pods)
		out.Existing = append(out.Existing, c)
	}
	sort.Slice(out.Existing, func(i, j int) bool { return out.Existing[i].Host < out.Existing[j].Host })
	for _, nc := range res.NewNodeClaims {
		c := DraPassClaim{Host: nc.VerifReservations().Hostname, Pool: nc.NodePoolName}
		for _, p := range nc.Pods {
			c.Pods = append(c.Pods, p.Name)
		}
		sort.Strings(c.Pods)
		for _, it := range nc.InstanceTypeOptions {
			c.ITs = append(c.ITs, it.Name)
		}
		sort.Strings(c.ITs)
		out.Claims = append(out.Claims, c)
	}
	sort.Slice(out.Claims, func(i, j int) bool { return strings.Join(out.Claims[i].Pods, ",") < strings.Join(out.Claims[j].Pods, ",") })
	for p, e := range res.PodErrors {
		cls := "unschedulable"
		if strings.Contains(e.Error(), "allocating dynamic resources") || strings.Contains(e.Error(), "dynamic resource") {
			cls = "dra"
		}
		out.Errors[p.Name] = cls
	}
	for key, meta := range res.DRAClaimAllocationMetadata {
		for it, devs := range meta.Devices {
			for _, d := range devs {
				out.Meta = append(out.Meta, metaEntry(key.Name, meta.NodeClaimID.Value(), it.Value(), d))
			}
		}
	}
	sort.Slice(out.Meta, func(i, j int) bool {
		a, b := out.Meta[i], out.Meta[j]
		return fmt.Sprint(a.Claim, "|", a.NC, "|", a.IT, "|", a.Dev, "|", a.Template) < fmt.Sprint(b.Claim, "|", b.NC, "|", b.IT, "|", b.Dev, "|", b.Template)
	})
	return out, nil
}

func genDraPass(r *rand.Rand, t core.Tier) any {
	in := DraPassIn{Excl: []string{}, Shared: []SharedDev{}, Prealloc: []string{}, Tmpl: map[string][]string{}, Claims: []AClaim{}, Pods: []DraPod{}, Par: pick(r, []int{1, 1, 2, 8})}
	// a small catalog: 2..3 instance types in one or two zones, on-demand only (reservations are c17.pass's subject)
	nIT := 2 + r.IntN(2)
	for i := 0; i < nIT; i++ {
		cpu := pick(r, []int64{2000, 4000, 8000})
		it := world.IT{Name: fmt.Sprintf("it-%d", i), CPU: cpu, Mem: cpu * 2, Pods: int64(pick(r, []int{2, 3, 5})), Arch: "amd64", OS: []string{"linux"}, Overhead: 100}
		for _, z := range c17Zones[:1+r.IntN(2)] {
			it.Offerings = append(it.Offerings, world.Offering{Zone: z, CapacityType: "on-demand", Price: cpu/1000*40 + int64(r.IntN(10)), Available: true})
		}
		in.ITs = append(in.ITs, it)
		if r.IntN(2) == 0 {
			for j := 0; j < 1+r.IntN(2); j++ {
				in.Tmpl[it.Name] = append(in.Tmpl[it.Name], fmt.Sprintf("tdev-%d", j))
			}
		}
	}
	if r.IntN(4) == 0 {
		in.TParts = map[string]TPartPool{}
		for _, it := range in.ITs {
			if r.IntN(3) == 0 {
				continue
			}
			tp := TPartPool{Slots: int64(2 + r.IntN(4))}
			for j := 0; j < 2+r.IntN(2); j++ {
				tp.Parts = append(tp.Parts, PartDev{Name: fmt.Sprintf("tp-%d", j), W: int64(1 + r.IntN(3))})
			}
			in.TParts[it.Name] = tp
		}
	}
	nPools := 1 + r.IntN(2)
	for i := 0; i < nPools; i++ {
		in.Pools = append(in.Pools, world.NodePool{Name: fmt.Sprintf("pool-%d", i), Weight: int32((nPools - i) * 10), Labels: map[string]string{}})
	}
	for i := 0; i < 1+r.IntN(4); i++ {
		in.Excl = append(in.Excl, fmt.Sprintf("gpu-%d", i))
		if r.IntN(6) == 0 {
			in.Prealloc = append(in.Prealloc, fmt.Sprintf("gpu-%d", i))
		}
	}
	for i := 0; i < r.IntN(2); i++ {
		in.Shared = append(in.Shared, genSharedDev(r, fmt.Sprintf("mig-%d", i), 7)) // some consumed by allocations in the cluster, up to all of it
	}
	// existing initialized nodes with a node-local partitionable device, some partitions in use by pods running there;
	// sometimes a partitionable pool that every node can reach as well
	partPre := func(parts []PartDev) int64 {
		var used int64
		for _, d := range parts {
			if d.Pre {
				used += d.W
			}
		}
		return used
	}
	if r.IntN(2) == 0 {
		for i := 0; i < 1+r.IntN(2); i++ {
			it := pick(r, in.ITs)
			n := DraNode{Name: fmt.Sprintf("node-%d", i), Pool: pick(r, in.Pools).Name, IT: it.Name, Zone: pick(r, it.Offerings).Zone, Split: r.IntN(4) == 0}
			if r.IntN(10) == 0 {
				n.Stage = "registered" // not initialized yet: its published slices do not count, templates stand in
			}
			if r.IntN(6) != 0 {
				for j := 0; j < 2+r.IntN(3); j++ {
					n.Parts = append(n.Parts, PartDev{Name: fmt.Sprintf("n%dp-%d", i, j), W: int64(1 + r.IntN(3)), Pre: r.IntN(3) == 0})
				}
				n.Slots = slotsFor(r, partPre(n.Parts), n.Parts)
			}
			in.Nodes = append(in.Nodes, n)
		}
		if r.IntN(4) == 0 {
			pp := PartPool{Name: "pool-w", Slices: []PartSlice{{Access: pick(r, []string{"all", "all", "zone:" + c17Zones[0]})}}}
			for j := 0; j < 2+r.IntN(3); j++ {
				pp.Slices[0].Parts = append(pp.Slices[0].Parts, PartDev{Name: fmt.Sprintf("wp-%d", j), W: int64(1 + r.IntN(3)), Pre: r.IntN(4) == 0})
			}
			pp.Slots = slotsFor(r, partPre(pp.Slices[0].Parts), pp.Slices[0].Parts)
			in.PPools = append(in.PPools, pp)
		}
	}
	hasParts := len(in.PPools) > 0
	for _, n := range in.Nodes {
		hasParts = hasParts || len(n.Parts) > 0
	}
	nPods := 1 + r.IntN(6)
	if t == core.Thorough {
		nPods = 1 + r.IntN(9)
	}
	for i := 0; i < nPods; i++ {
		p := DraPod{Pod: world.Pod{Name: fmt.Sprintf("pod-%d", i), Labels: map[string]string{"app": "a"}, CPU: int64(100 * (1 + r.IntN(20))), Mem: 64}}
		if r.IntN(4) == 0 {
			p.NodeSelector = map[string]string{"node.kubernetes.io/instance-type": pick(r, in.ITs).Name}
		}
		if r.IntN(5) == 0 {
			p.NodeSelector = map[string]string{"topology.kubernetes.io/zone": pick(r, c17Zones[:2])}
		}
		if len(in.Nodes) > 0 && r.IntN(4) == 0 {
			p.NodeSelector = map[string]string{nodeSlotLabel: pick(r, in.Nodes).Name}
			p.CPU = int64(100 * (1 + r.IntN(4)))
		}
		if r.IntN(5) != 0 { // most pods carry claims
			for k := 0; k < 1+r.IntN(2); k++ {
				if len(in.Claims) > 0 && r.IntN(7) == 0 {
					cn := pick(r, in.Claims).Name // a claim shared between pods
					dup := false
					for _, x := range p.Claims {
						dup = dup || x == cn
					}
					if !dup {
						p.Claims = append(p.Claims, cn)
					}
					continue
				}
				c := AClaim{Name: fmt.Sprintf("rc-%d", len(in.Claims)), Count: 1}
				switch x := r.IntN(10); {
				case len(in.TParts) > 0 && r.IntN(3) == 0:
					c.Class = "tpart"
					if r.IntN(6) == 0 {
						c.Count = 2
					}
				case hasParts && x < 5:
					c.Class = "part"
					if r.IntN(6) == 0 {
						c.Count = 2
					}
				case x < 6 || (len(in.Shared) == 0 && len(in.Tmpl) == 0):
					c.Class, c.Count = "gpu", int64(1+r.IntN(2))
				case x < 8 && len(in.Shared) > 0:
					genSharedClaim(r, &c, in.Shared)
				case len(in.Tmpl) > 0:
					c.Class = "tmpl"
				default:
					c.Class = "gpu"
				}
				in.Claims = append(in.Claims, c)
				p.Claims = append(p.Claims, c.Name)
			}
		}
		world.FixExprs(&p.Pod)
		in.Pods = append(in.Pods, p)
	}
	return in
}

func opDraPass() *core.Op {
	return &core.Op{
		Name: "c17.drapass",
		Doc:  "whole real Provisioner.Schedule passes with dynamic resource allocation enabled (IgnoreDRARequests=false; real Scheduler, ExistingNode.CanAdd/Add and NodeClaim.CanAdd/Add with the real Allocator, Provisioner.gatherResourceSlices / gatherAllocatedDevices, deviceallocation controller hydrated from the fake client): DeviceClasses, a cluster-wide ResourceSlice of 1..4 exclusive devices (some held by an allocated claim), optional multi-allocatable devices with capacity, per-instance-type ResourceSlice templates, in half of the cases 1..2 existing nodes (initialized; a few only registered) that own a node-local partitionable device (slices pinned by spec.nodeName and owned by the Node, shared counter, some partitions allocated to pods running on the node, budgets at and around exhaustion) and sometimes a cluster-wide / zonal partitionable pool; 1..6 pods referencing fresh and shared ResourceClaims (exclusive, template, capacity, partition), some pinned to an existing node; observed: Results.DRAClaimAllocationMetadata, pods / instance types / hostname of every NodeClaim and the pods placed on existing nodes; judged by the exclusivity / capacity / counter / completeness specification",
		N:    func(t core.Tier) int { return map[core.Tier]int{core.Quick: 1500, core.Thorough: 6000}[t] },
		Gen:  genDraPass,
		Impl: implDraPass,
		Rule: "non-trivial = the result allocates ResourceClaims for at least two NodeClaims, or a pod with claims could not be scheduled",
		Nontrivial: func(raw json.RawMessage, impl any) bool {
			m, _ := impl.(map[string]any)
			meta, _ := m["meta"].([]any)
			ncs := map[string]bool{}
			for _, e := range meta {
				em, _ := e.(map[string]any)
				ncs[fmt.Sprint(em["nc"])] = true
			}
			er, _ := m["errors"].(map[string]any)
			return len(ncs) > 1 || len(er) > 0
		},
		Labels: func(raw json.RawMessage, impl any) []string {
			var in DraPassIn
			json.Unmarshal(raw, &in)
			m, _ := impl.(map[string]any)
			cs, _ := m["claims"].([]any)
			ex, _ := m["existing"].([]any)
			meta, _ := m["meta"].([]any)
			er, _ := m["errors"].(map[string]any)
			ncs := map[string]bool{}
			l := []string{}
			seen := map[string]bool{}
			add := func(k string) {
				if !seen[k] {
					seen[k] = true
					l = append(l, k)
				}
			}
			prePool := map[string]bool{}
			for _, n := range in.Nodes {
				add("existing-node")
				var used int64
				for _, d := range n.Parts {
					if d.Pre {
						used += d.W
					}
				}
				if len(n.Parts) > 0 {
					add("node-local-counter-pool")
				}
				if used > 0 {
					prePool[n.poolName()] = true
					add("node-local-counter-pool-with-partitions-in-use")
					if used >= n.Slots {
						add("node-local-counter-exhausted-by-partitions-in-use")
					}
				}
			}
			for _, d := range in.Shared {
				if d.Pre > 0 {
					add("shared-device-with-capacity-consumed-in-cluster")
				}
			}
			for _, pp := range in.PPools {
				add("cluster-counter-pool")
				for _, sl := range pp.Slices {
					for _, d := range sl.Parts {
						if d.Pre {
							prePool[pp.Name] = true
							add("cluster-counter-pool-with-partitions-in-use")
						}
					}
				}
			}
			{
				granted := map[string]bool{}
				for _, e := range meta {
					em, _ := e.(map[string]any)
					if fmt.Sprint(em["driver"]) == drvShared {
						granted[fmt.Sprint(em["claim"])] = true
					}
				}
				sharedLabels(add, in.Shared, in.Claims, granted)
			}
			for _, e := range meta {
				em, _ := e.(map[string]any)
				nc := fmt.Sprint(em["nc"])
				ncs[nc] = true
				k := "exclusive-device-allocated"
				switch {
				case fmt.Sprint(em["driver"]) == drvTPart:
					k = "template-counter-device-allocated"
				case em["template"] == true:
					k = "template-device-allocated"
				case fmt.Sprint(em["driver"]) == drvShared:
					k = "shared-device-allocated"
				case fmt.Sprint(em["driver"]) == drvPart:
					k = "counter-device-allocated"
					if strings.HasPrefix(fmt.Sprint(em["pool"]), "np-") {
						k = "node-local-counter-device-allocated"
					}
					if prePool[fmt.Sprint(em["pool"])] {
						add(k + "-beside-partitions-in-use")
					}
				}
				add(k)
				if strings.HasPrefix(nc, "fake://") {
					add("devices-allocated-on-existing-node")
				}
			}
			if len(ex) > 0 {
				add("pods-on-existing-nodes")
			}
			l = append(l, fmt.Sprintf("nodeclaims=%d", min(len(cs), 4)), fmt.Sprintf("nodeclaims-with-devices=%d", min(len(ncs), 3)), fmt.Sprintf("errors=%d", min(len(er), 3)))
			if e, _ := m["err"].(string); e != "" {
				l = append(l, "schedule-error")
			}
			return l
		},
		Signature: func(raw json.RawMessage, impl any) string { return "drapass" },
		Shrink: func(raw json.RawMessage) []any {
			var in DraPassIn
			json.Unmarshal(raw, &in)
			var out []any
			for _, c := range core.ShrinkList(in.Pods) {
				d := in
				d.Pods = c
				out = append(out, d)
			}
			for _, c := range core.ShrinkList(in.Nodes) {
				d := in
				d.Nodes = c
				out = append(out, d)
			}
			if len(in.PPools) > 0 {
				d := in
				d.PPools = nil
				out = append(out, d)
			}
			return out
		},
	}
}
