package c07

import (
	"context"
	"encoding/json"
	"fmt"
	"math/rand/v2"
	"time"

	corev1 "k8s.io/api/core/v1"
	apierrors "k8s.io/apimachinery/pkg/api/errors"
	metav1 "k8s.io/apimachinery/pkg/apis/meta/v1"
	clocktesting "k8s.io/utils/clock/testing"
	"sigs.k8s.io/controller-runtime/pkg/client"

	v1 "sigs.k8s.io/karpenter/pkg/apis/v1"
	fakecp "sigs.k8s.io/karpenter/pkg/cloudprovider/fake"
	"sigs.k8s.io/karpenter/pkg/controllers/disruption"
	"sigs.k8s.io/karpenter/pkg/controllers/state"
	"sigs.k8s.io/karpenter/pkg/test"

	"verifharness/internal/core"
)

// ---- c07.history: event histories against ONE real state.Cluster ----

// EvIn is one event.
//
//	tick      — the fake clock advances by D ns
//	claim     — NodeClaim delivered (Claim != nil: UpdateNodeClaim, else DeleteNodeClaim)
//	node      — Node delivered (Node != nil: UpdateNode, else DeleteNode)
//	mark / unmark / nominate — Cluster.MarkForDeletion / UnmarkForDeletion / NominateNodeForPod
//	podEvent  — status.lastPodEventTime := now on the stored NodeClaim (as the podevents controller does), delivered
//	reconcile — the real nodeclaim.disruption controller runs on the stored NodeClaim (F: with a failing drift check /
//	            NodePool read / status patch); what is persisted afterwards is delivered
type EvIn struct {
	K     string   `json:"k"`
	D     int64    `json:"d"`
	Claim *ClaimIn `json:"claim,omitempty"`
	Node  *NodeIn  `json:"node,omitempty"`
	F     *RFault  `json:"f,omitempty"` // reconcile: the faults injected into that run of the controller
	// c07.commands only (see commands.go)
	Real      int    `json:"real,omitempty"`      // record: pending pods the scheduling result places on the node
	Virt      int    `json:"virt,omitempty"`      // record: virtual capacity-buffer pods it places on the node
	NewClaims int    `json:"newClaims,omitempty"` // record: new NodeClaims of the same result
	NewPods   int    `json:"newPods,omitempty"`   // record: pods on each new NodeClaim
	M         string `json:"m,omitempty"`         // start: the method whose command is handed to the queue
	QF        string `json:"qf,omitempty"`        // queue: "" | "delete-error" | "replacement-lost"
}

type HistIn struct {
	Start    int64   `json:"start"` // the clock at the beginning
	BatchMax int64   `json:"batchMax"`
	Pool     PoolIn  `json:"pool"`
	Pods     []PodIn `json:"pods"`
	Pdbs     []PdbIn `json:"pdbs"`
	Events   []EvIn  `json:"events"`
}

type HistOut struct {
	// after every event: for each method of NewMethods (in Method.all order of the model: Emptiness, StaticDrift,
	// Drift, MultiNodeConsolidation, SingleNodeConsolidation) whether the node is in GetCandidates
	Sel [][]bool `json:"sel"`
}

var methodOrder = []string{"Emptiness", "StaticDrift", "Drift", "MultiNodeConsolidation", "SingleNodeConsolidation"}

// swapClient lets the harness replace the API contents while the cluster keeps one client reference.
type swapClient struct {
	client.Client
	failClaimDelete bool // c07.commands: the API refuses to delete NodeClaims (server error)
}

func (s *swapClient) Delete(ctx context.Context, obj client.Object, opts ...client.DeleteOption) error {
	if _, ok := obj.(*v1.NodeClaim); ok && s.failClaimDelete {
		return apierrors.NewInternalError(fmt.Errorf("injected"))
	}
	return s.Client.Delete(ctx, obj, opts...)
}

type hist struct {
	ctx     context.Context
	clk     *clocktesting.FakeClock
	sw      *swapClient
	in      *HistIn
	claim   *v1.NodeClaim // the stored NodeClaim (nil = none)
	node    *corev1.Node
	pool    *v1.NodePool
	pods    []*corev1.Pod
	pdbObjs []client.Object
}

func (h *hist) rebuild() {
	var objs []client.Object
	if h.claim != nil {
		c := h.claim.DeepCopy()
		c.ResourceVersion = ""
		objs = append(objs, c)
	}
	if h.node != nil {
		n := h.node.DeepCopy()
		n.ResourceVersion = ""
		objs = append(objs, n)
	}
	if h.pool != nil {
		p := h.pool.DeepCopy()
		p.ResourceVersion = ""
		objs = append(objs, p)
	}
	for _, p := range h.pods {
		q := p.DeepCopy()
		q.ResourceVersion = ""
		objs = append(objs, q)
	}
	for _, b := range h.pdbObjs {
		q := b.DeepCopyObject().(client.Object)
		q.SetResourceVersion("")
		objs = append(objs, q)
	}
	h.sw.Client = newClient(objs...)
}

// histRun is one history under way: the real cluster state, queue and methods over the swappable API contents.
type histRun struct {
	h        *hist
	cloud    *fakecp.CloudProvider
	recorder *test.EventRecorder
	cluster  *state.Cluster
	queue    *disruption.Queue
	byName   map[string]disruption.Method
	cmd      *disruption.Command // the command handed to the queue last (c07.commands)
}

func newHistRun(in *HistIn) (*histRun, error) {
	if in.Start%int64(time.Second) != 0 {
		return nil, fmt.Errorf("start must be a whole number of seconds")
	}
	h := &hist{ctx: baseCtx(in.BatchMax), clk: clocktesting.NewFakeClock(at(in.Start)), sw: &swapClient{}, in: in}
	var err error
	if in.Pool.Exists {
		if h.pool, err = buildPool(in.Pool); err != nil {
			return nil, err
		}
	}
	for i, p := range in.Pods {
		if p.Start != nil && *p.Start%int64(time.Second) != 0 {
			return nil, fmt.Errorf("pod start must be a whole number of seconds")
		}
		po, err := buildPod(i, p)
		if err != nil {
			return nil, err
		}
		h.pods = append(h.pods, po)
	}
	for i, b := range in.Pdbs {
		pb, err := buildPdb(i, b)
		if err != nil {
			return nil, err
		}
		h.pdbObjs = append(h.pdbObjs, pb)
	}
	h.rebuild()
	r := &histRun{h: h, cloud: newCloud(in.Pool.HasITs), recorder: test.NewEventRecorder()}
	r.cluster = state.NewCluster(h.clk, h.sw, r.cloud)
	r.queue = disruption.NewQueue(h.sw, r.recorder, r.cluster, h.clk, nil)
	methods := disruption.NewMethods(h.clk, r.cluster, h.sw, nil, r.cloud, r.recorder, r.queue)
	r.byName = map[string]disruption.Method{}
	for _, m := range methods {
		r.byName[methodName(m)] = m
	}
	if len(r.byName) != len(methodOrder) {
		return nil, fmt.Errorf("NewMethods returned %d methods, the harness knows %d", len(r.byName), len(methodOrder))
	}
	return r, nil
}

// apply delivers one of the base events of c07.history
func (r *histRun) apply(i int, ev EvIn) error {
	h, cluster, cloud := r.h, r.cluster, r.cloud
	switch ev.K {
	case "tick":
		if ev.D < 0 {
			return fmt.Errorf("negative tick")
		}
		h.clk.Step(time.Duration(ev.D))
	case "claim":
		if ev.Claim != nil {
			if ev.Claim.InitAt%int64(time.Second) != 0 || (ev.Claim.LastPodEvent != nil && *ev.Claim.LastPodEvent%int64(time.Second) != 0) {
				return fmt.Errorf("event %d: stored times must be whole seconds", i)
			}
			nc, err := buildClaim(ev.Claim, h.node != nil)
			if err != nil {
				return err
			}
			h.claim = nc
			h.rebuild()
			cluster.UpdateNodeClaim(nc.DeepCopy())
		} else {
			h.claim = nil
			h.rebuild()
			cluster.DeleteNodeClaim(claimName)
		}
	case "node":
		if ev.Node != nil {
			n, err := buildNode(ev.Node)
			if err != nil {
				return err
			}
			h.node = n
			h.rebuild()
			if err := cluster.UpdateNode(h.ctx, n.DeepCopy()); err != nil {
				return fmt.Errorf("UpdateNode: %w", err)
			}
		} else {
			h.node = nil
			h.rebuild()
			cluster.DeleteNode(nodeName)
		}
	case "mark":
		cluster.MarkForDeletion(providerID)
	case "unmark":
		cluster.UnmarkForDeletion(providerID)
	case "nominate":
		cluster.NominateNodeForPod(h.ctx, providerID)
	case "podEvent":
		if h.claim != nil {
			// what the podevents controller persists; the API keeps whole seconds
			stored := &v1.NodeClaim{}
			if err := h.sw.Get(h.ctx, client.ObjectKey{Name: claimName}, stored); err != nil {
				return err
			}
			stored.Status.LastPodEventTime = metav1.Time{Time: h.clk.Now()}
			if err := h.sw.Status().Update(h.ctx, stored); err != nil {
				return fmt.Errorf("podEvent status update: %w", err)
			}
			got := &v1.NodeClaim{}
			if err := h.sw.Get(h.ctx, client.ObjectKey{Name: claimName}, got); err != nil {
				return err
			}
			h.claim = got
			cluster.UpdateNodeClaim(got.DeepCopy())
		}
	case "reconcile":
		if h.claim != nil {
			got, err := runClaimController(h.ctx, h.clk, h.sw, cloud, h.claim.StatusConditions().Get(v1.ConditionTypeDrifted).IsTrue(), ev.F)
			if err != nil {
				return err
			}
			h.claim = got
			cluster.UpdateNodeClaim(got.DeepCopy())
		}
	default:
		return fmt.Errorf("bad event %q", ev.K)
	}
	return nil
}

// observe: for each method (in methodOrder) whether the node is in GetCandidates
func (r *histRun) observe() ([]bool, error) {
	row := make([]bool, len(methodOrder))
	for j, name := range methodOrder {
		m := r.byName[name]
		cands, err := disruption.GetCandidates(r.h.ctx, r.cluster, r.h.sw, r.recorder, r.h.clk, r.cloud, m.ShouldDisrupt, m.Class(), r.queue)
		if err != nil {
			return nil, fmt.Errorf("GetCandidates: %w", err)
		}
		for _, cn := range cands {
			if cn.ProviderID() == providerID {
				row[j] = true
			}
		}
	}
	return row, nil
}

func implHistory(raw json.RawMessage) (any, error) {
	var in HistIn
	if err := json.Unmarshal(raw, &in); err != nil {
		return nil, err
	}
	r, err := newHistRun(&in)
	if err != nil {
		return nil, err
	}
	out := &HistOut{Sel: [][]bool{}}
	for i, ev := range in.Events {
		if err := r.apply(i, ev); err != nil {
			return nil, err
		}
		row, err := r.observe()
		if err != nil {
			return nil, err
		}
		out.Sel = append(out.Sel, row)
	}
	return out, nil
}

// ---- generator ----

func histClaim(r *rand.Rand, now int64) *ClaimIn {
	if r.IntN(10) < 6 {
		// a healthy NodeClaim: every method's own condition is in place, so that the protection windows decide
		return &ClaimIn{Meta: okMeta(), TGP: r.IntN(3) == 0, Drifted: "True", Consolidatable: "True", Initialized: "True", InitAt: 0}
	}
	c := &ClaimIn{Meta: okMeta(), TGP: r.IntN(3) == 0, Drifted: pick(r, "True", "True", "", "False"),
		Consolidatable: pick(r, "True", "True", "", "False"), Initialized: pick(r, "True", "True", "True", "False", ""),
		InitAt: floorSec(now) - pick(r, int64(0), sec, 30*sec, hour)}
	if c.InitAt < 0 {
		c.InitAt = 0
	}
	if r.IntN(3) == 0 {
		t := floorSec(now) - pick(r, int64(0), sec, 20*sec, minute)
		if t < 0 {
			t = 0
		}
		c.LastPodEvent = i64(t)
	}
	switch r.IntN(14) {
	case 0:
		c.Deleting = true
	case 1:
		c.Terminating = "True"
	case 2:
		c.Terminating = "False"
	case 3:
		c.Dnd = Ann{K: "true"}
	case 4:
		c.Pool = ""
	}
	return c
}

func histNode(r *rand.Rand) *NodeIn {
	n := &NodeIn{Meta: okMeta(), Init: "true", Reg: "true"}
	switch r.IntN(16) {
	case 0:
		n.Init = ""
	case 1:
		n.Init = "false"
	case 2:
		n.Dnd = Ann{K: "true"}
	case 3:
		n.Dnd = Ann{K: "bad", Raw: "True"}
	case 4:
		n.Pool = ""
	case 5:
		n.Pool = "ghost"
	case 6:
		n.IT = ""
		n.Init = "" // a managed node the cluster state does not accept yet
	case 7:
		n.Deleting = true
	case 8:
		n.IT = "unknown"
	case 9:
		n.Init, n.Reg = "", ""
	}
	return n
}

func genHistory(r *rand.Rand, t core.Tier) any {
	in := HistIn{Start: hour, BatchMax: pick(r, sec, 5*sec, 10*sec, 30*sec)}
	in.Pool = PoolIn{Exists: true, Managed: true, HasITs: true, Static: r.IntN(5) == 0,
		Policy: pick(r, "WhenEmptyOrUnderutilized", "WhenEmptyOrUnderutilized", "WhenEmpty", "Balanced")}
	switch r.IntN(6) {
	case 0:
		in.Pool.ConsolidateAfter = nil
	case 1:
		in.Pool.ConsolidateAfter = i64(0)
	default:
		in.Pool.ConsolidateAfter = i64(pick(r, sec, 15*sec, 30*sec, 30*sec+1, minute))
	}
	if r.IntN(3) > 0 {
		in.Pods = append(in.Pods, PodIn{OnNode: true, Phase: "Running", Start: i64(0), Dnd: Ann{K: "none"}})
	}
	if r.IntN(6) == 0 {
		// a pod whose duration-valued annotation expires while the history runs
		in.Pods = append(in.Pods, PodIn{OnNode: true, Phase: "Running", Start: i64(hour), Dnd: Ann{K: "dur", Ns: pick(r, 5*sec, 30*sec, minute, minute+1)}})
	}
	if r.IntN(10) == 0 {
		in.Pods = append(in.Pods, PodIn{OnNode: true, Phase: "Running", App: iptr(1), Start: i64(0), Dnd: Ann{K: "none"}})
		in.Pdbs = append(in.Pdbs, PdbIn{Sel: "app", App: 1, Allowed: 0})
	}
	n := 4 + r.IntN(24)
	if t == core.Thorough {
		n = 4 + r.IntN(80)
	}
	now := in.Start
	win := window(in.BatchMax)
	// most histories start by making the node known
	in.Events = append(in.Events, EvIn{K: "claim", Claim: histClaim(r, now)}, EvIn{K: "node", Node: histNode(r)})
	lastNom := int64(-1)
	for len(in.Events) < n {
		x := r.IntN(100)
		switch {
		case x < 30:
			var d int64
			switch {
			case lastNom >= 0 && r.IntN(2) == 0:
				// land on / next to the end of the nomination window
				d = lastNom + win - now + pick(r, int64(-1), 0, 1)
			case in.Pool.ConsolidateAfter != nil && r.IntN(3) == 0:
				d = *in.Pool.ConsolidateAfter + pick(r, int64(-1), 0, 1, -sec, sec)
			default:
				d = pick(r, int64(1), sec/2, sec, 5*sec, 10*sec, 20*sec, minute)
			}
			if d < 0 {
				d = 0
			}
			now += d
			in.Events = append(in.Events, EvIn{K: "tick", D: d})
		case x < 40:
			lastNom = now
			in.Events = append(in.Events, EvIn{K: "nominate"})
		case x < 47:
			in.Events = append(in.Events, EvIn{K: "mark"})
		case x < 54:
			in.Events = append(in.Events, EvIn{K: "unmark"})
		case x < 64:
			in.Events = append(in.Events, EvIn{K: "claim", Claim: histClaim(r, now)})
		case x < 74:
			in.Events = append(in.Events, EvIn{K: "node", Node: histNode(r)})
		case x < 78:
			in.Events = append(in.Events, EvIn{K: "claim"})
		case x < 82:
			in.Events = append(in.Events, EvIn{K: "node"})
		case x < 87:
			in.Events = append(in.Events, EvIn{K: "podEvent"})
		case x < 91:
			// a pod event, then (after a pause shorter than most consolidateAfter values) the run of the controller that
			// the pod event triggers — two times out of three with a fault in that run
			in.Events = append(in.Events, EvIn{K: "podEvent"})
			if r.IntN(2) == 0 {
				d := pick(r, int64(1), sec/2, sec, 5*sec)
				now += d
				in.Events = append(in.Events, EvIn{K: "tick", D: d})
			}
			ev := EvIn{K: "reconcile"}
			if r.IntN(3) > 0 {
				ev.F = genFault(r)
			}
			in.Events = append(in.Events, ev)
		default:
			ev := EvIn{K: "reconcile"}
			if r.IntN(3) == 0 {
				ev.F = genFault(r)
			}
			in.Events = append(in.Events, ev)
		}
	}
	return in
}

func historyLabels(raw json.RawMessage, out any) []string {
	var in HistIn
	_ = json.Unmarshal(raw, &in)
	l := []string{fmt.Sprintf("len<=%d", ((len(in.Events)/10)+1)*10)}
	seen := map[string]bool{}
	for _, e := range in.Events {
		k := e.K
		if (k == "claim" && e.Claim == nil) || (k == "node" && e.Node == nil) {
			k += "-delete"
		}
		if k == "reconcile" && !e.F.none() {
			k += "+fault:" + e.F.label()
		}
		if !seen[k] {
			seen[k] = true
			l = append(l, "ev:"+k)
		}
	}
	// the circumstance "pod event on a Consolidatable NodeClaim, then a run of the controller whose drift check fails"
	sawPodEvent := false
	for _, e := range in.Events {
		switch e.K {
		case "podEvent":
			sawPodEvent = true
		case "claim":
			sawPodEvent = false
		case "reconcile":
			if sawPodEvent && e.F != nil && e.F.Drift != "" && e.F.Patch == "" && e.F.PoolGet == "" && !seen["podEvent>drift-failing-reconcile"] {
				seen["podEvent>drift-failing-reconcile"] = true
				l = append(l, "podEvent>drift-failing-reconcile")
			}
		}
	}
	if m, ok := out.(map[string]any); ok {
		if rows, ok := m["sel"].([]any); ok {
			flips, prev := 0, ""
			for _, r := range rows {
				s := fmt.Sprint(r)
				if prev != "" && s != prev {
					flips++
				}
				prev = s
			}
			switch {
			case flips == 0:
				l = append(l, "flips=0")
			case flips < 4:
				l = append(l, "flips=1-3")
			default:
				l = append(l, "flips>=4")
			}
		}
	}
	return l
}

func historyNontrivial(raw json.RawMessage, out any) bool {
	// the set of selecting methods changes at least twice along the history
	m, ok := out.(map[string]any)
	if !ok {
		return false
	}
	rows, _ := m["sel"].([]any)
	flips, prev := 0, ""
	for _, r := range rows {
		s := fmt.Sprint(r)
		if prev != "" && s != prev {
			flips++
		}
		prev = s
	}
	return flips >= 2
}

func shrinkHistory(raw json.RawMessage) []any {
	var in HistIn
	if err := json.Unmarshal(raw, &in); err != nil {
		return nil
	}
	var out []any
	for _, es := range core.ShrinkList(in.Events) {
		c := in
		c.Events = es
		out = append(out, c)
	}
	for _, ps := range core.ShrinkList(in.Pods) {
		c := in
		c.Pods = ps
		out = append(out, c)
	}
	if len(in.Pdbs) > 0 {
		c := in
		c.Pdbs = nil
		out = append(out, c)
	}
	return out
}
