package c07

import (
	"encoding/json"
	"fmt"
	"math/rand/v2"

	"github.com/google/uuid"
	corev1 "k8s.io/api/core/v1"
	apierrors "k8s.io/apimachinery/pkg/api/errors"
	metav1 "k8s.io/apimachinery/pkg/apis/meta/v1"
	"k8s.io/apimachinery/pkg/types"
	"sigs.k8s.io/controller-runtime/pkg/client"

	autoscalingv1beta1 "sigs.k8s.io/karpenter/pkg/apis/autoscaling/v1beta1"
	v1 "sigs.k8s.io/karpenter/pkg/apis/v1"
	"sigs.k8s.io/karpenter/pkg/controllers/disruption"
	pscheduling "sigs.k8s.io/karpenter/pkg/controllers/provisioning/scheduling"
	"sigs.k8s.io/karpenter/pkg/controllers/state"
	kscheduling "sigs.k8s.io/karpenter/pkg/scheduling"

	"verifharness/internal/core"
)

// ---- c07.commands: the CALLERS of the marks and nominations ----
//
// The histories of c07.history write the in-memory protections directly (Cluster.MarkForDeletion / UnmarkForDeletion /
// NominateNodeForPod).  In the running system those are written by two callers only: scheduling.Results.Record (the
// provisioner's pass and the queue's StartCommand) and the orchestration queue (StartCommand marks, CompleteCommand
// unmarks a FAILED command).  This op drives those callers on the same real Cluster:
//
//	record — scheduling.Results.Record of a result that places Real pending pods and Virt virtual buffer pods on the
//	         node and creates NewClaims new NodeClaims with NewPods pods each
//	start  — disruption.Queue.StartCommand with the candidate that GetCandidates returns for method M (skipped when the
//	         method does not select the node)
//	queue  — disruption.Queue.Reconcile on the command (QF: the API refuses the NodeClaim deletion / the command's
//	         replacement NodeClaim is gone, which fails the command); the cluster state is NOT told about what the
//	         queue wrote to the API
//	sync   — the informer delivers the NodeClaim as the API holds it now
//	and every event of c07.history except the raw mark / unmark
type CmdOut struct {
	Sel [][]bool `json:"sel"`
	// what the real code did with the event: record: recorded | untracked; start: started | skipped;
	// queue: none | requeued | failed | succeeded; "" otherwise
	Did []string `json:"did"`
}

func pendingPod(i int, virtual bool) *corev1.Pod {
	p := &corev1.Pod{ObjectMeta: metav1.ObjectMeta{Name: fmt.Sprintf("pending-%d-%v", i, virtual), Namespace: nsName(0),
		UID: types.UID(fmt.Sprintf("uid-pending-%d-%v", i, virtual)), Annotations: map[string]string{}},
		Spec:   corev1.PodSpec{Containers: []corev1.Container{{Name: "c", Image: "i"}}},
		Status: corev1.PodStatus{Phase: corev1.PodPending}}
	if virtual {
		p.Annotations[autoscalingv1beta1.FakePodAnnotationKey] = autoscalingv1beta1.FakePodAnnotationValue
	}
	return p
}

func (r *histRun) stateNode() *state.StateNode {
	for _, n := range r.cluster.DeepCopyNodes() {
		if n.ProviderID() == providerID {
			return n
		}
	}
	return nil
}

func (r *histRun) applyCommand(i int, ev EvIn) (string, error) {
	h := r.h
	switch ev.K {
	case "record":
		if ev.Real < 0 || ev.Virt < 0 || ev.NewClaims < 0 || ev.NewPods < 0 || ev.Real+ev.Virt+ev.NewClaims*ev.NewPods > 64 {
			return "", fmt.Errorf("event %d: bad record", i)
		}
		sn := r.stateNode()
		if sn == nil {
			return "untracked", nil
		}
		ex := &pscheduling.ExistingNode{StateNode: sn}
		for k := 0; k < ev.Virt; k++ {
			ex.Pods = append(ex.Pods, pendingPod(k, true))
		}
		for k := 0; k < ev.Real; k++ {
			ex.Pods = append(ex.Pods, pendingPod(k, false))
		}
		res := pscheduling.Results{ExistingNodes: []*pscheduling.ExistingNode{ex}, PodErrors: map[*corev1.Pod]error{}}
		for c := 0; c < ev.NewClaims; c++ {
			nc := &pscheduling.NodeClaim{}
			for k := 0; k < ev.NewPods; k++ {
				nc.Pods = append(nc.Pods, pendingPod(100+c*10+k, false))
			}
			res.NewNodeClaims = append(res.NewNodeClaims, nc)
		}
		res.Record(h.ctx, r.recorder, r.cluster)
		return "recorded", nil
	case "start":
		m, ok := r.byName[ev.M]
		if !ok {
			return "", fmt.Errorf("event %d: unknown method %q", i, ev.M)
		}
		cands, err := disruption.GetCandidates(h.ctx, r.cluster, h.sw, r.recorder, h.clk, r.cloud, m.ShouldDisrupt, m.Class(), r.queue)
		if err != nil {
			return "", fmt.Errorf("GetCandidates: %w", err)
		}
		var mine []*disruption.Candidate
		for _, c := range cands {
			if c.ProviderID() == providerID {
				mine = append(mine, c)
			}
		}
		if len(mine) == 0 {
			return "skipped", nil
		}
		cmd := &disruption.Command{Method: m, Candidates: mine, CreationTimestamp: h.clk.Now(), ID: uuid.New()}
		if err := r.queue.StartCommand(h.ctx, cmd); err != nil {
			return "error", nil
		}
		r.cmd = cmd
		return "started", nil
	case "queue":
		if !r.queue.HasAny(providerID) || r.cmd == nil {
			return "none", nil
		}
		switch ev.QF {
		case "":
		case "delete-error":
			h.sw.failClaimDelete = true
			defer func() { h.sw.failClaimDelete = false }()
		case "replacement-lost":
			// as if the command had launched a replacement whose NodeClaim has disappeared since (ICE, registration TTL)
			r.cmd.Replacements = append(r.cmd.Replacements, &disruption.Replacement{Name: "nc-replacement-lost",
				NodeClaim: &pscheduling.NodeClaim{NodeClaimTemplate: pscheduling.NodeClaimTemplate{Requirements: kscheduling.NewRequirements()}}})
		default:
			return "", fmt.Errorf("event %d: bad queue fault %q", i, ev.QF)
		}
		if _, err := r.queue.Reconcile(h.ctx, &v1.NodeClaim{ObjectMeta: metav1.ObjectMeta{Name: claimName}, Status: v1.NodeClaimStatus{ProviderID: providerID}}); err != nil {
			return "", fmt.Errorf("queue reconcile: %w", err)
		}
		// the API contents are the truth from here on (the cluster state is not told)
		if h.claim != nil {
			got := &v1.NodeClaim{}
			if err := h.sw.Get(h.ctx, client.ObjectKey{Name: claimName}, got); err != nil {
				return "", fmt.Errorf("the NodeClaim carries a finalizer and must still be readable: %w", err)
			}
			h.claim = got
		}
		switch {
		case r.queue.HasAny(providerID):
			return "requeued", nil
		case r.cmd.Succeeded:
			return "succeeded", nil
		}
		return "failed", nil
	case "sync":
		if h.claim != nil {
			got := &v1.NodeClaim{}
			err := h.sw.Get(h.ctx, client.ObjectKey{Name: claimName}, got)
			switch {
			case apierrors.IsNotFound(err):
				r.cluster.DeleteNodeClaim(claimName)
			case err != nil:
				return "", err
			default:
				r.cluster.UpdateNodeClaim(got)
			}
		}
		return "", nil
	case "mark", "unmark":
		return "", fmt.Errorf("event %d: the raw %s is not part of c07.commands (the queue is the only writer of the mark)", i, ev.K)
	}
	return "", r.apply(i, ev)
}

func implCommands(raw json.RawMessage) (any, error) {
	var in HistIn
	if err := json.Unmarshal(raw, &in); err != nil {
		return nil, err
	}
	r, err := newHistRun(&in)
	if err != nil {
		return nil, err
	}
	out := &CmdOut{Sel: [][]bool{}, Did: []string{}}
	for i, ev := range in.Events {
		did, err := r.applyCommand(i, ev)
		if err != nil {
			return nil, err
		}
		row, err := r.observe()
		if err != nil {
			return nil, err
		}
		out.Sel = append(out.Sel, row)
		out.Did = append(out.Did, did)
	}
	return out, nil
}

// ---- generator ----

func genRecord(r *rand.Rand) EvIn {
	ev := EvIn{K: "record"}
	switch r.IntN(10) {
	case 0:
		ev.Virt = 1 // only a virtual buffer pod: no nomination
	case 1:
		// nothing lands on the node
	case 2:
		ev.Real, ev.Virt = 1, 1
	default:
		ev.Real = 1 + r.IntN(2)
	}
	// half of the results need no new NodeClaim at all, a sixth creates NodeClaims that carry no pod
	switch r.IntN(6) {
	case 0, 1, 2:
	case 3:
		ev.NewClaims = 1
	default:
		ev.NewClaims, ev.NewPods = 1+r.IntN(2), 1+r.IntN(2)
	}
	return ev
}

func genCommands(r *rand.Rand, t core.Tier) any {
	in := HistIn{Start: hour, BatchMax: pick(r, sec, 5*sec, 10*sec, 30*sec)}
	in.Pool = PoolIn{Exists: true, Managed: true, HasITs: true, Static: r.IntN(4) == 0,
		Policy: pick(r, "WhenEmptyOrUnderutilized", "WhenEmptyOrUnderutilized", "WhenEmpty", "Balanced")}
	switch r.IntN(6) {
	case 0:
		in.Pool.ConsolidateAfter = nil
	default:
		in.Pool.ConsolidateAfter = i64(pick(r, int64(0), sec, 15*sec, 30*sec))
	}
	if r.IntN(2) == 0 {
		in.Pods = append(in.Pods, PodIn{OnNode: true, Phase: "Running", Start: i64(0), Dnd: Ann{K: "none"}})
	}
	n := 5 + r.IntN(16)
	if t == core.Thorough {
		n = 5 + r.IntN(50)
	}
	now := in.Start
	win := window(in.BatchMax)
	// a healthy node: every method's own condition is in place, so that the protections decide
	in.Events = append(in.Events,
		EvIn{K: "claim", Claim: &ClaimIn{Meta: okMeta(), TGP: r.IntN(3) == 0, Drifted: "True", Consolidatable: "True", Initialized: "True", InitAt: 0}},
		EvIn{K: "node", Node: &NodeIn{Meta: okMeta(), Init: "true", Reg: "true"}})
	lastNom := int64(-1)
	tick := func(d int64) {
		if d < 0 {
			d = 0
		}
		now += d
		in.Events = append(in.Events, EvIn{K: "tick", D: d})
	}
	methods := methodOrder
	if in.Pool.Static {
		methods = []string{"StaticDrift", "StaticDrift", "StaticDrift", "Drift", "Emptiness"}
	}
	for len(in.Events) < n {
		x := r.IntN(100)
		switch {
		case x < 20:
			if lastNom >= 0 && r.IntN(2) == 0 {
				tick(lastNom + win - now + pick(r, int64(-1), 0, 1))
			} else {
				tick(pick(r, int64(1), sec, 5*sec, 20*sec, minute))
			}
		case x < 38:
			ev := genRecord(r)
			if ev.Real > 0 {
				lastNom = now
			}
			in.Events = append(in.Events, ev)
		case x < 55:
			in.Events = append(in.Events, EvIn{K: "start", M: pick(r, methods...)})
		case x < 72:
			ev := EvIn{K: "queue"}
			switch y := r.IntN(20); {
			case y == 0:
				ev.QF = "delete-error"
			case y < 5:
				ev.QF = "replacement-lost"
			}
			in.Events = append(in.Events, ev)
		case x < 80:
			in.Events = append(in.Events, EvIn{K: "sync"})
		case x < 84:
			in.Events = append(in.Events, EvIn{K: "claim", Claim: histClaim(r, now)})
		case x < 88:
			in.Events = append(in.Events, EvIn{K: "node", Node: histNode(r)})
		case x < 90:
			in.Events = append(in.Events, EvIn{K: "claim"})
		case x < 92:
			in.Events = append(in.Events, EvIn{K: "node"})
		case x < 95:
			in.Events = append(in.Events, EvIn{K: "podEvent"})
		case x < 98:
			in.Events = append(in.Events, EvIn{K: "reconcile"})
		default:
			in.Events = append(in.Events, EvIn{K: "nominate"})
			lastNom = now
		}
	}
	return in
}

// enumCommands: the small complete core — every method x {record shape} x {how the command ends} on the healthy node
func enumCommands(t core.Tier) []any {
	var out []any
	claim := func(tgp bool) EvIn {
		return EvIn{K: "claim", Claim: &ClaimIn{Meta: okMeta(), TGP: tgp, Drifted: "True", Consolidatable: "True", Initialized: "True", InitAt: 0}}
	}
	node := EvIn{K: "node", Node: &NodeIn{Meta: okMeta(), Init: "true", Reg: "true"}}
	base := func(static, busy bool) HistIn {
		in := HistIn{Start: hour, BatchMax: 10 * sec, Pool: PoolIn{Exists: true, Managed: true, HasITs: true, Static: static,
			Policy: "WhenEmptyOrUnderutilized", ConsolidateAfter: i64(0)}}
		if busy {
			in.Pods = []PodIn{{OnNode: true, Phase: "Running", Start: i64(0), Dnd: Ann{K: "none"}}}
		}
		return in
	}
	win := window(10 * sec)
	for _, static := range []bool{false, true} {
		for _, busy := range []bool{false, true} {
			// scheduling results of every shape, then the clock runs to the end of the window
			for real := 0; real <= 2; real++ {
				for virt := 0; virt <= 1; virt++ {
					for _, nw := range [][2]int{{0, 0}, {1, 0}, {1, 1}, {2, 2}} {
						in := base(static, busy)
						in.Events = []EvIn{claim(false), node,
							{K: "record", Real: real, Virt: virt, NewClaims: nw[0], NewPods: nw[1]},
							{K: "tick", D: win - 1}, {K: "tick", D: 1}}
						out = append(out, in)
					}
				}
			}
			// a command of every method, ended in every way, then what the informer delivers
			for _, m := range methodOrder {
				for _, qf := range []string{"", "replacement-lost"} {
					in := base(static, busy)
					in.Events = []EvIn{claim(m == "Drift" && busy), node, {K: "start", M: m}, {K: "tick", D: sec}, {K: "queue", QF: qf},
						{K: "tick", D: sec}, {K: "podEvent"}, {K: "queue"}, {K: "sync"}, {K: "start", M: m}}
					out = append(out, in)
				}
			}
		}
	}
	return out
}

func commandsLabels(raw json.RawMessage, out any) []string {
	var in HistIn
	_ = json.Unmarshal(raw, &in)
	l := []string{fmt.Sprintf("len<=%d", ((len(in.Events)/10)+1)*10)}
	seen := map[string]bool{}
	add := func(s string) {
		if !seen[s] {
			seen[s] = true
			l = append(l, s)
		}
	}
	for _, e := range in.Events {
		k := e.K
		switch k {
		case "record":
			switch {
			case e.Real > 0 && e.NewClaims*e.NewPods == 0:
				k += ":real-pods,no-new-nodeclaim-pods"
			case e.Real > 0:
				k += ":real-pods,new-nodeclaims"
			case e.Virt > 0:
				k += ":virtual-only"
			default:
				k += ":nothing-on-node"
			}
		case "queue":
			if e.QF != "" {
				k += "+" + e.QF
			}
		}
		add("ev:" + k)
	}
	m, _ := out.(map[string]any)
	dids, _ := m["did"].([]any)
	rows, _ := m["sel"].([]any)
	succeededAt := -1
	for i, d := range dids {
		s, _ := d.(string)
		if s != "" {
			add("did:" + in.Events[i].K + "=" + s)
		}
		if s == "succeeded" {
			succeededAt = i
		}
		if succeededAt >= 0 && i > succeededAt && in.Events[i].K != "sync" && in.Events[i].K != "claim" {
			add("looked-after-success-before-sync")
		}
		if in.Events[i].K == "sync" || in.Events[i].K == "claim" {
			succeededAt = -1
		}
	}
	flips, prev := 0, ""
	for _, r := range rows {
		s := fmt.Sprint(r)
		if prev != "" && s != prev {
			flips++
		}
		prev = s
	}
	l = append(l, fmt.Sprintf("flips=%d", min(flips, 4)))
	return l
}

func commandsNontrivial(raw json.RawMessage, out any) bool {
	// the real code did something with a scheduling result or a command, and the selection changed along the way
	m, ok := out.(map[string]any)
	if !ok {
		return false
	}
	dids, _ := m["did"].([]any)
	acted := false
	for _, d := range dids {
		if s, _ := d.(string); s == "recorded" || s == "started" || s == "succeeded" || s == "failed" {
			acted = true
		}
	}
	return acted && historyNontrivial(raw, map[string]any{"sel": m["sel"]})
}

func commandsOp() *core.Op {
	return &core.Op{
		Name: "c07.commands",
		Doc: "histories of the CALLERS of the in-memory protections against ONE real state.Cluster and ONE real disruption.Queue: scheduling.Results.Record (existing-node placements of real / virtual buffer pods, with and without new NodeClaims), " +
			"Queue.StartCommand on the candidate GetCandidates returns, Queue.Reconcile (waitOrTerminate / CompleteCommand: succeeds, API refuses the delete, replacement lost = command fails), informer delivery of what the queue wrote (sync) separate from the write, plus the NodeClaim/Node/pod-event/controller-run/tick events of c07.history: after every event disruption.GetCandidates for each method of NewMethods",
		N: func(t core.Tier) int {
			if t == core.Thorough {
				return 1500
			}
			return 300
		},
		Gen:            genCommands,
		Enum:           enumCommands,
		Impl:           implCommands,
		Rule:           "exhaustive: {dynamic, static pool} x {empty, busy node} x (every scheduling-result shape real 0-2 x virtual 0-1 x new NodeClaims {none, one without pods, one with a pod, two with two} followed by the clock at the last instant of / just after the nomination window; every method x {command succeeds, command fails} followed by a look BEFORE the informer delivers the deleted NodeClaim, a pod event, the delivery, a second start); random histories of 5-20 events (5-54 thorough): 18% record (half of them needing no new NodeClaim), 17% start, 17% queue (5% API refuses the delete, 20% replacement lost), 8% sync, 20% ticks aimed at the end of the nomination window, the rest NodeClaim/Node deliveries and deletions, pod events, controller runs; no raw mark/unmark (the queue is the only writer). non-trivial = the real code recorded a result / started / completed a command and the set of selecting methods changed at least twice",
		Nontrivial:     commandsNontrivial,
		Labels:         commandsLabels,
		Signature:      func(raw json.RawMessage, _ any) string { return "commands" },
		Shrink:         shrinkHistory,
		ExhaustiveNote: "2 pool kinds x 2 node loads x (24 scheduling-result shapes + 5 methods x 2 command endings)",
	}
}
