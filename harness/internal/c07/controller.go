package c07

import (
	"context"
	"encoding/json"
	"fmt"
	"math/rand/v2"
	"sort"
	"strings"
	"sync"
	"time"

	corev1 "k8s.io/api/core/v1"
	"k8s.io/apimachinery/pkg/types"
	clocktesting "k8s.io/utils/clock/testing"
	"sigs.k8s.io/controller-runtime/pkg/client"

	v1 "sigs.k8s.io/karpenter/pkg/apis/v1"
	"sigs.k8s.io/karpenter/pkg/controllers/disruption"
	"sigs.k8s.io/karpenter/pkg/controllers/provisioning"
	"sigs.k8s.io/karpenter/pkg/controllers/state"
	"sigs.k8s.io/karpenter/pkg/state/virtualpods"
	"sigs.k8s.io/karpenter/pkg/test"

	"verifharness/internal/core"
)

// ---- c07.controller: the whole disruption controller on a small cluster ----
//
// observe_at of the property: "candidate sets of all commands produced by the disruption controller".
// One real disruption.Controller.Reconcile with ONE method (WithMethods) over a cluster of a few nodes in
// assorted blocker states, real provisioner for the scheduling simulations, real orchestration queue; the fake
// clock is stepped whenever the controller waits (command validation delay).  Observed: the nodes of the commands
// the controller started.  Which of the eligible nodes a method picks is up to scheduling simulation, budgets,
// sorting and validation — the verdict is relational: every node in a command must be one the model selects (and
// the specification allows) at the instant the reconcile began.

type CtlNode struct {
	Claim       *ClaimIn `json:"claim"`
	Node        *NodeIn  `json:"node"`
	Marked      bool     `json:"marked"`
	NominatedAt *int64   `json:"nominatedAt"`
	InQueue     bool     `json:"inQueue"`
	Buffer      int      `json:"buffer"`
	Pods        []PodIn  `json:"pods"`
	Mods        []string `json:"mods,omitempty"`
}

// Inject is a change that arrives while the controller sits in its command-validation delay (pod churn): the
// validators must drop the node from the command.
//
//	pod-dnd  — a running DaemonSet pod annotated do-not-disrupt=true lands on the node
//	pdb-pod  — a running DaemonSet pod (app=a9, namespace ns5) lands on the node together with a PDB that allows 0 disruptions
//	mark     — the node is marked for deletion (by somebody else)
//	node-dnd — the Node gets the do-not-disrupt annotation
//	claim-delete      — somebody (expiration, a user, static scale-down, node repair …) deletes the NodeClaim; the informer
//	                    delivers the NodeClaim with its deletionTimestamp to the cluster state
//	claim-terminating — the NodeClaim reports InstanceTerminating=True; the informer delivers it
//
// When says at which point of the pass the change arrives:
//
//	"" / "validation" — while the controller sits in its first command-validation delay (only methods that validate ever wait)
//	"compute"         — after the controller listed the candidates of the method (GetCandidates) and before the method
//	                    computes its commands: the real method is wrapped (lateMethod) so that the real
//	                    Controller.Reconcile delivers the change at the moment it calls ComputeCommands
type Inject struct {
	Node int    `json:"node"`
	Kind string `json:"kind"`
	When string `json:"when,omitempty"`
}

// lateMethod is the real disruption.Method with one thing added: the event `before` is delivered at the moment the
// controller hands the candidates it listed to ComputeCommands.  Everything else (ShouldDisrupt, Class, Reason,
// ComputeCommands itself) is the real method's.
type lateMethod struct {
	disruption.Method
	before func() error
	err    error
}

func (l *lateMethod) ComputeCommands(ctx context.Context, budgets map[string]int, cands ...*disruption.Candidate) ([]disruption.Command, error) {
	if err := l.before(); err != nil {
		l.err = err
	}
	return l.Method.ComputeCommands(ctx, budgets, cands...)
}

// lateTotalsMethod: the same for methods that take the NodePool totals of the pass (balanced scoring)
type lateTotalsMethod struct {
	*lateMethod
	setter disruption.NodePoolTotalsSetter
}

func (l *lateTotalsMethod) SetNodePoolTotals(t map[string]disruption.NodePoolTotals) {
	l.setter.SetNodePoolTotals(t)
}

func wrapLate(m disruption.Method, before func() error) (disruption.Method, *lateMethod) {
	lm := &lateMethod{Method: m, before: before}
	if s, ok := m.(disruption.NodePoolTotalsSetter); ok {
		return &lateTotalsMethod{lateMethod: lm, setter: s}, lm
	}
	return lm, lm
}

type CtlIn struct {
	Now      int64     `json:"now"`
	BatchMax int64     `json:"batchMax"`
	Method   string    `json:"method"`
	Pool     PoolIn    `json:"pool"`
	Nodes    []CtlNode `json:"nodes"`
	Pdbs     []PdbIn   `json:"pdbs"`
	Inject   *Inject   `json:"inject"`
}

type CtlOut struct {
	Cands    []int  `json:"cands"`    // indexes of the nodes that are candidates of a command started by this reconcile
	Err      string `json:"err"`      // "" or "error" (Reconcile returned an error)
	Injected bool   `json:"injected"` // the controller did wait and the injection was delivered during the first wait
}

const injectNs, injectApp = 5, 9

// injectedPod is the pod the "pod-dnd" / "pdb-pod" injections add (the Lean side adds the same pod to its world).
func injectedPod(kind string, now int64) PodIn {
	p := PodIn{OnNode: true, Phase: "Running", Daemon: true, Start: i64(floorSec(now)), Dnd: Ann{K: "none"}}
	switch kind {
	case "pod-dnd":
		p.Dnd = Ann{K: "true"}
	case "pdb-pod":
		p.Ns, p.App = injectNs, iptr(injectApp)
	}
	return p
}

func nodeNameI(i int) string   { return fmt.Sprintf("n%d", i) }
func claimNameI(i int) string  { return fmt.Sprintf("nc%d", i) }
func providerIDI(i int) string { return fmt.Sprintf("fake://n%d", i) }

func implController(raw json.RawMessage) (any, error) {
	var in CtlIn
	if err := json.Unmarshal(raw, &in); err != nil {
		return nil, err
	}
	ctx := baseCtx(in.BatchMax)
	clk := clocktesting.NewFakeClock(at(in.Now))
	var objs []client.Object
	var nodes []*corev1.Node
	var claims []*v1.NodeClaim
	var pods []*corev1.Pod
	np, err := buildPool(in.Pool)
	if err != nil {
		return nil, err
	}
	np.StatusConditions().SetTrue(v1.ConditionTypeValidationSucceeded)
	np.StatusConditions().SetTrue(v1.ConditionTypeNodeClassReady)
	if in.Pool.Exists {
		objs = append(objs, np)
	}
	podIdx := 0
	for i, cn := range in.Nodes {
		w := &WorldIn{Now: in.Now, Claim: cn.Claim, Pods: cn.Pods}
		if err := storedTimesOK(w); err != nil {
			return nil, err
		}
		var n *corev1.Node
		var c *v1.NodeClaim
		if cn.Node != nil {
			if n, err = buildNode(cn.Node); err != nil {
				return nil, err
			}
			n.Name, n.UID = nodeNameI(i), types.UID("uid-node-"+nodeNameI(i))
			n.Labels[corev1.LabelHostname] = nodeNameI(i)
			n.Spec.ProviderID = providerIDI(i)
			objs = append(objs, n)
		}
		if cn.Claim != nil {
			if c, err = buildClaim(cn.Claim, cn.Node != nil); err != nil {
				return nil, err
			}
			c.Name, c.UID = claimNameI(i), types.UID("uid-claim-"+claimNameI(i))
			c.Status.ProviderID = providerIDI(i)
			if cn.Node != nil {
				c.Status.NodeName = nodeNameI(i)
			}
			objs = append(objs, c)
		}
		nodes, claims = append(nodes, n), append(claims, c)
		for _, p := range cn.Pods {
			po, err := buildPod(podIdx, p)
			if err != nil {
				return nil, err
			}
			podIdx++
			if p.OnNode {
				po.Spec.NodeName = nodeNameI(i)
			} else {
				po.Spec.NodeName = "elsewhere"
			}
			for k := range po.OwnerReferences {
				if po.OwnerReferences[k].Kind == "Node" {
					po.OwnerReferences[k].Name, po.OwnerReferences[k].UID = nodeNameI(i), types.UID("uid-node-"+nodeNameI(i))
				}
			}
			pods = append(pods, po)
			objs = append(objs, po)
		}
	}
	for i, b := range in.Pdbs {
		pb, err := buildPdb(i, b)
		if err != nil {
			return nil, err
		}
		objs = append(objs, pb)
	}
	c := newClient(objs...)
	cloud := newCloud(in.Pool.HasITs)
	recorder := test.NewEventRecorder()
	cluster := state.NewCluster(clk, c, cloud)
	for i := range in.Nodes {
		if claims[i] != nil {
			cluster.UpdateNodeClaim(claims[i].DeepCopy())
		}
		if nodes[i] != nil {
			if err := cluster.UpdateNode(ctx, nodes[i].DeepCopy()); err != nil {
				return nil, fmt.Errorf("UpdateNode: %w", err)
			}
		}
	}
	for _, p := range pods {
		_ = cluster.UpdatePod(ctx, p.DeepCopy())
	}
	buffers := map[string]int{}
	for i, cn := range in.Nodes {
		if cn.Marked {
			cluster.MarkForDeletion(providerIDI(i))
		}
		if cn.NominatedAt != nil {
			clk.SetTime(at(*cn.NominatedAt))
			cluster.NominateNodeForPod(ctx, providerIDI(i))
		}
		if cn.Buffer > 0 {
			buffers[providerIDI(i)] = cn.Buffer
		}
	}
	clk.SetTime(at(in.Now))
	cluster.UpdateBufferPodCounts(buffers)
	cluster.SetSynced(true)
	prov := provisioning.NewProvisioner(c, recorder, cloud, cluster, clk, nil, virtualpods.NewVirtualPodCache(c))
	queue := disruption.NewQueue(c, recorder, cluster, clk, prov)
	sentinel := &disruption.Command{}
	for i, cn := range in.Nodes {
		if cn.InQueue {
			queue.ProviderIDToCommand[providerIDI(i)] = sentinel
		}
	}
	var method disruption.Method
	for _, m := range disruption.NewMethods(clk, cluster, c, prov, cloud, recorder, queue) {
		if methodName(m) == in.Method {
			method = m
		}
	}
	if method == nil {
		return nil, fmt.Errorf("no method %q in NewMethods", in.Method)
	}
	// set before the controller goroutine starts / read after it finished (or from the stepping loop, under mu)
	var mu sync.Mutex
	injected := false
	var inject func() error
	atCompute := in.Inject != nil && in.Inject.When == "compute"
	if in.Inject != nil && in.Inject.When != "" && in.Inject.When != "validation" && in.Inject.When != "compute" {
		return nil, fmt.Errorf("bad injection point %q", in.Inject.When)
	}
	var late *lateMethod
	if atCompute {
		method, late = wrapLate(method, func() error { return inject() })
	}
	ctrl := disruption.NewController(clk, c, prov, cloud, recorder, cluster, queue, nil, disruption.WithMethods(method))
	done := make(chan error, 1)
	go func() {
		defer func() {
			if r := recover(); r != nil {
				done <- fmt.Errorf("panic: %v", r)
			}
		}()
		_, err := ctrl.Reconcile(ctx)
		done <- err
	}()
	var rerr error
	inject = func() error {
		mu.Lock()
		defer mu.Unlock()
		if in.Inject == nil || injected {
			return nil
		}
		injected = true
		i := in.Inject.Node
		if i < 0 || i >= len(in.Nodes) {
			return fmt.Errorf("inject: no node %d", i)
		}
		switch in.Inject.Kind {
		case "pod-dnd", "pdb-pod":
			po, err := buildPod(1000, injectedPod(in.Inject.Kind, in.Now))
			if err != nil {
				return err
			}
			po.Spec.NodeName = nodeNameI(i)
			if err := c.Create(ctx, po); err != nil {
				return err
			}
			_ = cluster.UpdatePod(ctx, po.DeepCopy())
			if in.Inject.Kind == "pdb-pod" {
				pb, err := buildPdb(1000, PdbIn{Ns: injectNs, Sel: "app", App: injectApp, Allowed: 0})
				if err != nil {
					return err
				}
				if err := c.Create(ctx, pb); err != nil {
					return err
				}
			}
		case "mark":
			cluster.MarkForDeletion(providerIDI(i))
		case "node-dnd":
			if nodes[i] == nil {
				return nil
			}
			n := &corev1.Node{}
			if err := c.Get(ctx, client.ObjectKey{Name: nodeNameI(i)}, n); err != nil {
				return err
			}
			if n.Annotations == nil {
				n.Annotations = map[string]string{}
			}
			n.Annotations[v1.DoNotDisruptAnnotationKey] = "true"
			if err := c.Update(ctx, n); err != nil {
				return err
			}
			if err := cluster.UpdateNode(ctx, n.DeepCopy()); err != nil {
				return err
			}
		case "claim-delete", "claim-terminating":
			if claims[i] == nil {
				return nil
			}
			nc := &v1.NodeClaim{}
			if err := c.Get(ctx, client.ObjectKey{Name: claimNameI(i)}, nc); err != nil {
				return err
			}
			if in.Inject.Kind == "claim-delete" {
				// the NodeClaim carries the termination finalizer: Delete only sets the deletionTimestamp
				if err := c.Delete(ctx, nc); err != nil {
					return err
				}
			} else {
				nc.StatusConditions().SetTrue(v1.ConditionTypeInstanceTerminating)
				if err := c.Status().Update(ctx, nc); err != nil {
					return err
				}
			}
			if err := c.Get(ctx, client.ObjectKey{Name: claimNameI(i)}, nc); err != nil {
				return err
			}
			if in.Inject.Kind == "claim-delete" && nc.DeletionTimestamp.IsZero() {
				return fmt.Errorf("inject: NodeClaim %s is not terminating after Delete", nc.Name)
			}
			cluster.UpdateNodeClaim(nc.DeepCopy())
		default:
			return fmt.Errorf("bad injection %q", in.Inject.Kind)
		}
		return nil
	}
	deadline := time.After(60 * time.Second)
wait:
	for {
		select {
		case rerr = <-done:
			break wait
		case <-deadline:
			return nil, fmt.Errorf("disruption reconcile did not finish")
		default:
			if clk.HasWaiters() {
				// the controller sits in a validation delay: deliver the churn, then let the delay elapse
				if !atCompute {
					if err := inject(); err != nil {
						return nil, err
					}
				}
				clk.Step(16 * time.Second)
			}
			time.Sleep(100 * time.Microsecond)
		}
	}
	if late != nil && late.err != nil {
		return nil, late.err
	}
	mu.Lock()
	defer mu.Unlock()
	out := &CtlOut{Cands: []int{}, Injected: injected}
	if rerr != nil {
		out.Err = "error"
	}
	for pid, cmd := range queue.ProviderIDToCommand {
		if cmd == sentinel {
			continue
		}
		var idx int
		if _, err := fmt.Sscanf(strings.TrimPrefix(pid, "fake://n"), "%d", &idx); err != nil {
			return nil, fmt.Errorf("unexpected provider id %q in the queue", pid)
		}
		out.Cands = append(out.Cands, idx)
	}
	sort.Ints(out.Cands)
	return out, nil
}

// a cluster of 2-5 nodes: mostly healthy nodes of the kind the method takes, each with 0-2 random modifiers
func genController(r *rand.Rand, t core.Tier) any {
	method := methodOrder[r.IntN(len(methodOrder))]
	in := CtlIn{Now: nowNs + pick(r, int64(0), 1, sec/2), BatchMax: pick(r, sec, 10*sec), Method: method}
	base := "busy"
	switch method {
	case "Emptiness":
		base = "empty"
	case "StaticDrift":
		base = "static"
	}
	tgp := r.IntN(2) == 0
	proto := baseWorld(base, tgp)
	in.Pool = proto.Pool
	if r.IntN(6) == 0 {
		in.Pool.Policy = pick(r, "WhenEmpty", "Balanced")
	}
	n := 2 + r.IntN(4)
	for i := 0; i < n; i++ {
		w := baseWorld(base, tgp)
		w.Now, w.BatchMax = in.Now, in.BatchMax
		for k := range w.Pods {
			w.Pods[k].Start = i64(floorSec(in.Now) - hour)
		}
		var names []string
		for k, m := 0, r.IntN(3); k < m; k++ {
			j := r.IntN(len(modifiers))
			md := modifiers[j]
			// pool-wide and harness-only modifiers do not apply per node
			if strings.HasPrefix(md.name, "pool-") || strings.HasPrefix(md.name, "policy-") || strings.HasPrefix(md.name, "consolidate-") ||
				strings.HasPrefix(md.name, "reconcile") || strings.HasPrefix(md.name, "batch-") || md.name == "static-flip" || md.name == "reupdate" || strings.HasPrefix(md.name, "pdb-") {
				continue
			}
			applyMods(w, j)
			names = append(names, md.name)
		}
		in.Nodes = append(in.Nodes, CtlNode{Claim: w.Claim, Node: w.Node, Marked: w.Marked, NominatedAt: w.NominatedAt, InQueue: w.InQueue, Buffer: w.Buffer, Pods: w.Pods, Mods: names})
	}
	if r.IntN(3) == 0 {
		// a PDB over app=1 in namespace 0 and a pod it selects on one node
		in.Pdbs = append(in.Pdbs, PdbIn{Sel: "app", App: 1, Allowed: int32(r.IntN(2))})
		k := r.IntN(n)
		p := runningPod()
		p.Start = i64(floorSec(in.Now) - hour)
		p.App = iptr(1)
		in.Nodes[k].Pods = append(in.Nodes[k].Pods, p)
		in.Nodes[k].Mods = append(in.Nodes[k].Mods, "pdb")
	}
	if r.IntN(5) < 3 {
		// the change goes to a node without modifiers (a likely candidate) three times out of four
		k := r.IntN(n)
		var plain []int
		for i, cn := range in.Nodes {
			if len(cn.Mods) == 0 {
				plain = append(plain, i)
			}
		}
		if len(plain) > 0 && r.IntN(4) != 0 {
			k = plain[r.IntN(len(plain))]
		}
		in.Inject = genInject(r, method, k)
	}
	return in
}

// deletionKinds: the node starts deleting (in the controller's own in-memory cluster state)
var deletionKinds = []string{"mark", "claim-delete", "claim-terminating"}

// validates: the method re-derives its candidates after a delay before it acts (consolidation); the drift methods
// act on the candidates they were given and never wait
func validates(method string) bool { return method != "Drift" && method != "StaticDrift" }

func genInject(r *rand.Rand, method string, k int) *Inject {
	inj := &Inject{Node: k}
	if !validates(method) || r.IntN(2) == 0 {
		inj.When = "compute"
	}
	if inj.When == "compute" && !validates(method) {
		// no validation phase: only what the in-memory state of the controller itself says about deletion is looked at again
		inj.Kind = deletionKinds[r.IntN(len(deletionKinds))]
		return inj
	}
	if r.IntN(2) == 0 {
		inj.Kind = deletionKinds[r.IntN(len(deletionKinds))]
	} else {
		inj.Kind = pick(r, "pod-dnd", "pod-dnd", "pdb-pod", "node-dnd")
	}
	return inj
}

func controllerLabels(raw json.RawMessage, out any) []string {
	var in CtlIn
	_ = json.Unmarshal(raw, &in)
	l := []string{"method:" + in.Method, fmt.Sprintf("nodes=%d", len(in.Nodes))}
	if m, ok := out.(map[string]any); ok {
		cs, _ := m["cands"].([]any)
		l = append(l, fmt.Sprintf("%s:cands=%d", in.Method, len(cs)))
		if e, _ := m["err"].(string); e != "" {
			l = append(l, "reconcile-error")
		}
		if inj, _ := m["injected"].(bool); inj && in.Inject != nil {
			when := in.Inject.When
			if when == "" {
				when = "validation"
			}
			l = append(l, "injected:"+in.Inject.Kind, "injected-at:"+when, fmt.Sprintf("%s:injected-at-%s:%s", in.Method, when, in.Inject.Kind))
		}
	}
	return l
}

func controllerOp() *core.Op {
	return &core.Op{
		Name: "c07.controller",
		Doc:  "the real disruption.Controller.Reconcile (one method via WithMethods, real provisioner, real orchestration queue, fake clock stepped through the validation delay) on a cluster of 2-5 nodes in assorted blocker states, with a change delivered during the validation delay or between GetCandidates and ComputeCommands of the same pass; the candidates of the commands it starts",
		N: func(t core.Tier) int {
			if t == core.Thorough {
				return 1800
			}
			return 250
		},
		Gen:  genController,
		Impl: implController,
		Rule: "random clusters of 2-5 nodes of the kind the method takes, each with 0-2 blocker/decoy/eligibility modifiers, optional PDB; in 60% of the cases a change is delivered to one node (3 times out of 4 a node without modifiers) either while the controller sits in its validation delay or (always for Drift/StaticDrift, half of the time otherwise) between the controller's listing of the candidates and the method's ComputeCommands (the real method wrapped so that the real Reconcile delivers it): half deletion events (mark, NodeClaim deleted, NodeClaim InstanceTerminating; the only kinds for the drift methods), half do-not-disrupt pod / PDB-covered pod / node annotation; relational verdict: every node of a started command must be allowed by the model (listed at the beginning, final look of the scheduling simulation / validation after the change) and allowed by the specification at the instant the reconcile began AND after the injected change. non-trivial = the controller started at least one command",
		Nontrivial: func(raw json.RawMessage, out any) bool {
			m, _ := out.(map[string]any)
			cs, _ := m["cands"].([]any)
			return len(cs) > 0
		},
		Labels:    controllerLabels,
		Signature: func(raw json.RawMessage, _ any) string { return "controller" },
		Shrink: func(raw json.RawMessage) []any {
			var in CtlIn
			if json.Unmarshal(raw, &in) != nil {
				return nil
			}
			var out []any
			for _, ns := range core.ShrinkList(in.Nodes) {
				c := in
				c.Nodes = ns
				out = append(out, c)
			}
			return out
		},
	}
}
