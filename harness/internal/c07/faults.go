package c07

import (
	"context"
	"errors"
	"fmt"
	"time"

	apierrors "k8s.io/apimachinery/pkg/api/errors"
	metav1 "k8s.io/apimachinery/pkg/apis/meta/v1"
	"k8s.io/apimachinery/pkg/runtime/schema"
	"k8s.io/utils/clock"
	"sigs.k8s.io/controller-runtime/pkg/client"

	v1 "sigs.k8s.io/karpenter/pkg/apis/v1"
	"sigs.k8s.io/karpenter/pkg/cloudprovider"
	fakecp "sigs.k8s.io/karpenter/pkg/cloudprovider/fake"
	nodeclaimdisruption "sigs.k8s.io/karpenter/pkg/controllers/nodeclaim/disruption"
)

// faults.go: fault injection for ONE run of the real nodeclaim.disruption controller (the controller that maintains
// the Consolidatable condition).  Every external call of Controller.Reconcile is a fault position:
//
//	drift   — the cloud provider call(s) of the Drift sub-reconciler, which runs BEFORE the Consolidation sub-reconciler
//	          "isDrifted"     CloudProvider.IsDrifted returns an error (throttling, expired credentials, …)
//	          "notFound"      CloudProvider.IsDrifted returns a NodeClaimNotFoundError (swallowed by the sub-reconciler)
//	          "instanceTypes" CloudProvider.GetInstanceTypes returns an error (the NodeClaim handed to the controller is
//	                          made older than one hour, the age from which the sub-reconciler looks at instance types)
//	poolGet — "error": kubeClient.Get of the NodePool returns a server error
//	patch   — the status patch is refused: "conflict" | "notFound" | "error"
//
// The property's view: only poolGet and patch take the Consolidatable condition out of the controller's hands; a
// failing drift check must not keep a stale Consolidatable=True alive.
type RFault struct {
	Drift   string `json:"drift,omitempty"`
	PoolGet string `json:"poolGet,omitempty"`
	Patch   string `json:"patch,omitempty"`
}

var (
	driftFaultKinds = []string{"isDrifted", "notFound", "instanceTypes"}
	patchFaultKinds = []string{"conflict", "notFound", "error"}
)

func (f *RFault) none() bool { return f == nil || (f.Drift == "" && f.PoolGet == "" && f.Patch == "") }

func (f *RFault) validate() error {
	if f == nil {
		return nil
	}
	ok := func(v string, allowed ...string) bool {
		if v == "" {
			return true
		}
		for _, a := range allowed {
			if a == v {
				return true
			}
		}
		return false
	}
	if !ok(f.Drift, driftFaultKinds...) || !ok(f.PoolGet, "error") || !ok(f.Patch, patchFaultKinds...) {
		return fmt.Errorf("bad fault %+v", *f)
	}
	return nil
}

// label renders the fault positions hit (for the input-distribution histogram).
func (f *RFault) label() string {
	if f.none() {
		return "none"
	}
	l := ""
	add := func(s string) {
		if l != "" {
			l += "+"
		}
		l += s
	}
	if f.Drift != "" {
		add("drift:" + f.Drift)
	}
	if f.PoolGet != "" {
		add("poolGet")
	}
	if f.Patch != "" {
		add("patch:" + f.Patch)
	}
	return l
}

// faultyCloud is the fake cloud provider whose drift-related calls can be made to fail.
type faultyCloud struct {
	*fakecp.CloudProvider
	drift string
}

func (f *faultyCloud) IsDrifted(ctx context.Context, nc *v1.NodeClaim) (cloudprovider.DriftReason, error) {
	switch f.drift {
	case "isDrifted":
		return "", errors.New("RequestLimitExceeded: request limit exceeded")
	case "notFound":
		return "", cloudprovider.NewNodeClaimNotFoundError(errors.New("instance not found"))
	}
	return f.CloudProvider.IsDrifted(ctx, nc)
}

func (f *faultyCloud) GetInstanceTypes(ctx context.Context, np *v1.NodePool) ([]*cloudprovider.InstanceType, error) {
	if f.drift == "instanceTypes" {
		return nil, errors.New("UnauthorizedOperation: describing instance types")
	}
	return f.CloudProvider.GetInstanceTypes(ctx, np)
}

// faultClient fails the NodePool read and/or the status patch; everything else goes to the wrapped client.
type faultClient struct {
	client.Client
	f *RFault
}

func (c *faultClient) Get(ctx context.Context, key client.ObjectKey, obj client.Object, opts ...client.GetOption) error {
	if _, ok := obj.(*v1.NodePool); ok && c.f.PoolGet != "" {
		return apierrors.NewInternalError(errors.New("etcdserver: request timed out"))
	}
	return c.Client.Get(ctx, key, obj, opts...)
}

func (c *faultClient) Status() client.SubResourceWriter {
	return &faultStatus{SubResourceWriter: c.Client.Status(), f: c.f}
}

type faultStatus struct {
	client.SubResourceWriter
	f *RFault
}

func (s *faultStatus) Patch(ctx context.Context, obj client.Object, patch client.Patch, opts ...client.SubResourcePatchOption) error {
	gr := schema.GroupResource{Group: "karpenter.sh", Resource: "nodeclaims"}
	switch s.f.Patch {
	case "conflict":
		return apierrors.NewConflict(gr, obj.GetName(), errors.New("the object has been modified"))
	case "notFound":
		return apierrors.NewNotFound(gr, obj.GetName())
	case "error":
		return apierrors.NewInternalError(errors.New("etcdserver: request timed out"))
	}
	return s.SubResourceWriter.Patch(ctx, obj, patch, opts...)
}

// runClaimController runs the REAL nodeclaim.disruption Controller.Reconcile (Drift + Consolidation sub-reconcilers)
// once on the stored NodeClaim `claimName`, with the faults `f` injected, and returns the NodeClaim as PERSISTED
// afterwards.  `drifted` is what the (working) cloud provider answers to IsDrifted — the callers keep it equal to the
// NodeClaim's Drifted condition so that the Drift sub-reconciler leaves that condition alone.
func runClaimController(ctx context.Context, clk clock.Clock, c client.Client, cloud *fakecp.CloudProvider, drifted bool, f *RFault) (*v1.NodeClaim, error) {
	if err := f.validate(); err != nil {
		return nil, err
	}
	if drifted {
		cloud.Drifted = "CloudProviderDrifted"
	} else {
		cloud.Drifted = ""
	}
	var kc client.Client = c
	var cp cloudprovider.CloudProvider = cloud
	if !f.none() {
		kc = &faultClient{Client: c, f: f}
		cp = &faultyCloud{CloudProvider: cloud, drift: f.Drift}
	}
	ctrl := nodeclaimdisruption.NewController(clk, kc, cp)
	nc := &v1.NodeClaim{}
	if err := c.Get(ctx, client.ObjectKey{Name: claimName}, nc); err != nil {
		return nil, err
	}
	if f != nil && f.Drift == "instanceTypes" {
		// only the in-memory copy handed to the controller: creationTimestamp is not part of the status patch
		nc.CreationTimestamp = metav1.Time{Time: clk.Now().Add(-2 * time.Hour)}
	}
	if _, err := ctrl.Reconcile(ctx, nc); err != nil && f.none() {
		// without an injected fault the controller has no reason to fail
		return nil, fmt.Errorf("nodeclaim.disruption reconcile: %w", err)
	}
	out := &v1.NodeClaim{}
	if err := c.Get(ctx, client.ObjectKey{Name: claimName}, out); err != nil {
		return nil, err
	}
	return out, nil
}
