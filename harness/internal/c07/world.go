// Package c07: "Disruption never targets protected or ineligible nodes" — real code vs Lean model.
//
// world.go builds REAL objects (Node, NodeClaim, NodePool, Pods, PDBs) on the controller-runtime fake
// client and a REAL state.Cluster fed through the informer-style Update* entry points, from a small
// JSON description that the Lean model reads as well.
package c07

import (
	"context"
	"fmt"
	"sync"
	"time"

	"github.com/awslabs/operatorpkg/object"
	"github.com/awslabs/operatorpkg/status"
	corev1 "k8s.io/api/core/v1"
	policyv1 "k8s.io/api/policy/v1"
	"k8s.io/apimachinery/pkg/api/resource"
	metav1 "k8s.io/apimachinery/pkg/apis/meta/v1"
	"k8s.io/apimachinery/pkg/runtime"
	"k8s.io/apimachinery/pkg/types"
	"k8s.io/apimachinery/pkg/util/managedfields"
	clientgoapplyconfigurations "k8s.io/client-go/applyconfigurations"
	"k8s.io/client-go/kubernetes/scheme"
	clocktesting "k8s.io/utils/clock/testing"
	"sigs.k8s.io/controller-runtime/pkg/client"
	"sigs.k8s.io/controller-runtime/pkg/client/fake"

	_ "sigs.k8s.io/karpenter/pkg/apis"
	v1 "sigs.k8s.io/karpenter/pkg/apis/v1"
	"sigs.k8s.io/karpenter/pkg/cloudprovider"
	fakecp "sigs.k8s.io/karpenter/pkg/cloudprovider/fake"
	"sigs.k8s.io/karpenter/pkg/controllers/disruption"
	"sigs.k8s.io/karpenter/pkg/controllers/state"
	"sigs.k8s.io/karpenter/pkg/operator/options"
	"sigs.k8s.io/karpenter/pkg/test"
	"sigs.k8s.io/karpenter/pkg/test/v1alpha1"
)

// T0 is the origin of every time value of the protocol (int64 nanoseconds after T0).
var T0 = time.Date(2026, 1, 1, 0, 0, 0, 0, time.UTC)

func at(ns int64) time.Time { return T0.Add(time.Duration(ns)) }

const (
	nodeName      = "n1"
	otherNodeName = "n2"
	claimName     = "nc1"
	providerID    = "fake://n1"
	poolName      = "pool-a"
	ghostPool     = "pool-ghost"
	knownIT       = "c07-it-known"
	unknownIT     = "c07-it-unknown"
)

// Ann is a do-not-disrupt annotation value: absent | "true" | a Go duration string | something else.
type Ann struct {
	K   string `json:"k"`             // "none" | "true" | "dur" | "bad"
	Ns  int64  `json:"ns"`            // for "dur": the duration; rendered by time.Duration.String()
	Raw string `json:"raw,omitempty"` // for "bad": the literal annotation value
}

// badValues: strings that are neither "true" nor a positive Go duration (checked in init).
var badValues = []string{"false", "", "True", "TRUE", "yes", "5", "abc", "1d", "5 m", "0", "t", "true ", "-"}

func init() {
	for _, s := range badValues {
		if s == "true" {
			panic("badValues contains true")
		}
		if d, err := time.ParseDuration(s); err == nil && d > 0 {
			panic("badValues contains a positive duration: " + s)
		}
	}
}

func (a Ann) value() (string, bool, error) {
	switch a.K {
	case "", "none":
		return "", false, nil
	case "true":
		return "true", true, nil
	case "dur":
		return time.Duration(a.Ns).String(), true, nil
	case "bad":
		if a.Raw == "true" {
			return "", false, fmt.Errorf("bad annotation literal is \"true\"")
		}
		if d, err := time.ParseDuration(a.Raw); err == nil && d > 0 {
			return "", false, fmt.Errorf("bad annotation literal %q is a positive duration", a.Raw)
		}
		return a.Raw, true, nil
	}
	return "", false, fmt.Errorf("bad annotation kind %q", a.K)
}

// Meta is the label/annotation view of a Node or NodeClaim that the anchored code reads.
type Meta struct {
	Dnd  Ann    `json:"dnd"`
	Pool string `json:"pool"` // "" (no karpenter.sh/nodepool label) | "this" | "ghost" (names a pool that does not exist)
	IT   string `json:"it"`   // "" | "known" | "unknown"  (node.kubernetes.io/instance-type)
	CT   bool   `json:"ct"`   // has karpenter.sh/capacity-type
	Zone bool   `json:"zone"` // has topology.kubernetes.io/zone
}

type NodeIn struct {
	Meta
	Init     string `json:"init"` // karpenter.sh/initialized label: "" | "true" | "false"
	Reg      string `json:"reg"`  // karpenter.sh/registered label:  "" | "true" | "false"
	Deleting bool   `json:"deleting"`
}

type ClaimIn struct {
	Meta
	Deleting       bool   `json:"deleting"`       // metadata.deletionTimestamp set
	Terminating    string `json:"terminating"`    // InstanceTerminating condition: "" | "True" | "False" | "Unknown"
	TGP            bool   `json:"tgp"`            // spec.terminationGracePeriod != nil
	Drifted        string `json:"drifted"`        // Drifted condition
	Consolidatable string `json:"consolidatable"` // Consolidatable condition (before the optional reconcile)
	Initialized    string `json:"initialized"`    // Initialized condition
	InitAt         int64  `json:"initAt"`         // its lastTransitionTime
	LastPodEvent   *int64 `json:"lastPodEvent"`   // status.lastPodEventTime (nil = zero)
}

type PoolIn struct {
	Exists           bool   `json:"exists"`
	Managed          bool   `json:"managed"` // nodeClassRef kind supported by the cloud provider
	Static           bool   `json:"static"`  // spec.replicas set
	ConsolidateAfter *int64 `json:"consolidateAfter"`
	Policy           string `json:"policy"` // WhenEmpty | WhenEmptyOrUnderutilized | Balanced
	HasITs           bool   `json:"hasITs"` // the provider returns instance types for the pool
}

type PodIn struct {
	OnNode      bool   `json:"onNode"`
	Ns          int    `json:"ns"`
	App         *int   `json:"app"`
	Phase       string `json:"phase"` // Running | Pending | Succeeded | Failed
	Terminating bool   `json:"terminating"`
	Daemon      bool   `json:"daemon"`
	Mirror      bool   `json:"mirror"`
	Sts         bool   `json:"sts"`
	Tol         string `json:"tol"` // none | key-exists | key-equal | all | other-key | key-noexecute | key-noschedule
	Dnd         Ann    `json:"dnd"`
	Start       *int64 `json:"start"`
	NotReady    bool   `json:"notReady"`
	DelCost     *int64 `json:"delCost"`
	Prio        *int64 `json:"prio"`
}

type PdbIn struct {
	Ns          int    `json:"ns"`
	Sel         string `json:"sel"` // "nil" | "all" | "app"
	App         int    `json:"app"`
	Allowed     int32  `json:"allowed"`
	AlwaysAllow bool   `json:"alwaysAllow"`
}

type WorldIn struct {
	Now         int64    `json:"now"`
	BatchMax    int64    `json:"batchMax"`
	Claim       *ClaimIn `json:"claim"`
	Node        *NodeIn  `json:"node"`
	Marked      bool     `json:"marked"`
	NominatedAt *int64   `json:"nominatedAt"`
	InQueue     bool     `json:"inQueue"`
	Buffer      int      `json:"buffer"`
	Reupdate    bool     `json:"reupdate"`         // deliver the Node and NodeClaim events once more after mark/nominate
	Reconcile   bool     `json:"reconcile"`        // run the real nodeclaim.disruption controller before looking for candidates
	Fault       *RFault  `json:"rfault,omitempty"` // ... with these faults injected into that run
	Pool        PoolIn   `json:"pool"`
	Pods        []PodIn  `json:"pods"`
	Pdbs        []PdbIn  `json:"pdbs"`
}

var (
	itOnce sync.Once
	itList []*cloudprovider.InstanceType
)

func instanceTypes() []*cloudprovider.InstanceType {
	itOnce.Do(func() {
		itList = []*cloudprovider.InstanceType{
			fakecp.NewInstanceType(knownIT, fakecp.WithResources(corev1.ResourceList{
				corev1.ResourceCPU:    resource.MustParse("4"),
				corev1.ResourceMemory: resource.MustParse("8Gi"),
				corev1.ResourcePods:   resource.MustParse("20"),
			})),
		}
	})
	return itList
}

func nsName(i int) string { return fmt.Sprintf("ns%d", i) }

func condition(t, st string, when time.Time) status.Condition {
	return status.Condition{Type: t, Status: metav1.ConditionStatus(st), Reason: t, LastTransitionTime: metav1.Time{Time: when}}
}

func (m Meta) apply(labels, anns map[string]string) error {
	v, ok, err := m.Dnd.value()
	if err != nil {
		return err
	}
	if ok {
		anns[v1.DoNotDisruptAnnotationKey] = v
	}
	switch m.Pool {
	case "":
	case "this":
		labels[v1.NodePoolLabelKey] = poolName
	case "ghost":
		labels[v1.NodePoolLabelKey] = ghostPool
	default:
		return fmt.Errorf("bad pool %q", m.Pool)
	}
	switch m.IT {
	case "":
	case "known":
		labels[corev1.LabelInstanceTypeStable] = knownIT
	case "unknown":
		labels[corev1.LabelInstanceTypeStable] = unknownIT
	default:
		return fmt.Errorf("bad it %q", m.IT)
	}
	if m.CT {
		labels[v1.CapacityTypeLabelKey] = v1.CapacityTypeOnDemand
	}
	if m.Zone {
		labels[corev1.LabelTopologyZone] = "test-zone-1"
	}
	return nil
}

func buildNode(in *NodeIn) (*corev1.Node, error) {
	n := &corev1.Node{
		ObjectMeta: metav1.ObjectMeta{
			Name: nodeName, UID: types.UID("uid-node-" + nodeName), CreationTimestamp: metav1.Time{Time: T0},
			Labels: map[string]string{corev1.LabelHostname: nodeName}, Annotations: map[string]string{},
			Finalizers: []string{v1.TerminationFinalizer},
		},
		Spec: corev1.NodeSpec{ProviderID: providerID},
		Status: corev1.NodeStatus{
			Capacity:    corev1.ResourceList{corev1.ResourceCPU: resource.MustParse("4"), corev1.ResourceMemory: resource.MustParse("8Gi"), corev1.ResourcePods: resource.MustParse("20")},
			Allocatable: corev1.ResourceList{corev1.ResourceCPU: resource.MustParse("4"), corev1.ResourceMemory: resource.MustParse("8Gi"), corev1.ResourcePods: resource.MustParse("20")},
			Conditions:  []corev1.NodeCondition{{Type: corev1.NodeReady, Status: corev1.ConditionTrue}},
		},
	}
	if err := in.Meta.apply(n.Labels, n.Annotations); err != nil {
		return nil, err
	}
	if in.Init != "" {
		n.Labels[v1.NodeInitializedLabelKey] = in.Init
	}
	if in.Reg != "" {
		n.Labels[v1.NodeRegisteredLabelKey] = in.Reg
	}
	if in.Deleting {
		n.DeletionTimestamp = &metav1.Time{Time: T0.Add(time.Minute)}
	}
	return n, nil
}

func buildClaim(in *ClaimIn, hasNode bool) (*v1.NodeClaim, error) {
	nc := &v1.NodeClaim{
		ObjectMeta: metav1.ObjectMeta{
			// created "in the future" so that the drift sub-reconciler's instance-type check (older than 1 h) stays out of the way
			Name: claimName, UID: types.UID("uid-claim-" + claimName), CreationTimestamp: metav1.Time{Time: T0.Add(100000 * time.Hour)},
			Labels: map[string]string{}, Annotations: map[string]string{},
			Finalizers: []string{v1.TerminationFinalizer},
		},
		Spec: v1.NodeClaimSpec{
			NodeClassRef: &v1.NodeClassReference{
				Group: object.GVK(&v1alpha1.TestNodeClass{}).Group,
				Kind:  object.GVK(&v1alpha1.TestNodeClass{}).Kind,
				Name:  "default",
			},
			Requirements: []v1.NodeSelectorRequirementWithMinValues{},
		},
		Status: v1.NodeClaimStatus{
			ProviderID:  providerID,
			Capacity:    corev1.ResourceList{corev1.ResourceCPU: resource.MustParse("4"), corev1.ResourceMemory: resource.MustParse("8Gi"), corev1.ResourcePods: resource.MustParse("20")},
			Allocatable: corev1.ResourceList{corev1.ResourceCPU: resource.MustParse("4"), corev1.ResourceMemory: resource.MustParse("8Gi"), corev1.ResourcePods: resource.MustParse("20")},
		},
	}
	if hasNode {
		nc.Status.NodeName = nodeName
	}
	if err := in.Meta.apply(nc.Labels, nc.Annotations); err != nil {
		return nil, err
	}
	if in.Deleting {
		nc.DeletionTimestamp = &metav1.Time{Time: T0.Add(time.Minute)}
	}
	if in.TGP {
		nc.Spec.TerminationGracePeriod = &metav1.Duration{Duration: 30 * time.Minute}
	}
	var conds []status.Condition
	conds = append(conds, condition(v1.ConditionTypeLaunched, "True", T0))
	if in.Initialized != "" {
		conds = append(conds, condition(v1.ConditionTypeInitialized, in.Initialized, at(in.InitAt)))
	}
	if in.Terminating != "" {
		conds = append(conds, condition(v1.ConditionTypeInstanceTerminating, in.Terminating, T0))
	}
	if in.Drifted != "" {
		conds = append(conds, condition(v1.ConditionTypeDrifted, in.Drifted, T0))
	}
	if in.Consolidatable != "" {
		conds = append(conds, condition(v1.ConditionTypeConsolidatable, in.Consolidatable, T0))
	}
	nc.Status.Conditions = conds
	if in.LastPodEvent != nil {
		nc.Status.LastPodEventTime = metav1.Time{Time: at(*in.LastPodEvent)}
	}
	return nc, nil
}

func buildPool(in PoolIn) (*v1.NodePool, error) {
	np := &v1.NodePool{
		ObjectMeta: metav1.ObjectMeta{Name: poolName, UID: types.UID("uid-pool-" + poolName), CreationTimestamp: metav1.Time{Time: T0}},
		Spec: v1.NodePoolSpec{
			Template: v1.NodeClaimTemplate{Spec: v1.NodeClaimTemplateSpec{
				NodeClassRef: &v1.NodeClassReference{
					Group: object.GVK(&v1alpha1.TestNodeClass{}).Group,
					Kind:  object.GVK(&v1alpha1.TestNodeClass{}).Kind,
					Name:  "default",
				},
				Requirements: []v1.NodeSelectorRequirementWithMinValues{},
			}},
			Disruption: v1.Disruption{
				Budgets: []v1.Budget{{Nodes: "100%"}},
			},
		},
	}
	if !in.Managed {
		np.Spec.Template.Spec.NodeClassRef.Kind = "SomebodyElsesNodeClass"
		np.Spec.Template.Spec.NodeClassRef.Group = "example.com"
	}
	if in.Static {
		r := int64(3)
		np.Spec.Replicas = &r
	}
	if in.ConsolidateAfter != nil {
		d := time.Duration(*in.ConsolidateAfter)
		np.Spec.Disruption.ConsolidateAfter = v1.NillableDuration{Duration: &d}
	}
	switch in.Policy {
	case "WhenEmpty":
		np.Spec.Disruption.ConsolidationPolicy = v1.ConsolidationPolicyWhenEmpty
	case "WhenEmptyOrUnderutilized":
		np.Spec.Disruption.ConsolidationPolicy = v1.ConsolidationPolicyWhenEmptyOrUnderutilized
	case "Balanced":
		np.Spec.Disruption.ConsolidationPolicy = v1.ConsolidationPolicyBalanced
	default:
		return nil, fmt.Errorf("bad policy %q", in.Policy)
	}
	return np, nil
}

func buildPod(i int, in PodIn) (*corev1.Pod, error) {
	p := &corev1.Pod{
		ObjectMeta: metav1.ObjectMeta{
			Name: fmt.Sprintf("p%d", i), Namespace: nsName(in.Ns), UID: types.UID(fmt.Sprintf("uid-pod-%d", i)),
			CreationTimestamp: metav1.Time{Time: T0.Add(time.Duration(i) * time.Second)},
			Labels:            map[string]string{}, Annotations: map[string]string{},
		},
		Spec: corev1.PodSpec{
			Containers: []corev1.Container{{Name: "c", Image: "img", Resources: corev1.ResourceRequirements{
				Requests: corev1.ResourceList{corev1.ResourceCPU: resource.MustParse("100m")}}}},
		},
	}
	if in.OnNode {
		p.Spec.NodeName = nodeName
	} else {
		p.Spec.NodeName = otherNodeName
	}
	if in.App != nil {
		p.Labels["app"] = fmt.Sprintf("a%d", *in.App)
	}
	switch in.Phase {
	case "Running", "Pending", "Succeeded", "Failed":
		p.Status.Phase = corev1.PodPhase(in.Phase)
	default:
		return nil, fmt.Errorf("bad phase %q", in.Phase)
	}
	if in.Terminating {
		p.DeletionTimestamp = &metav1.Time{Time: T0.Add(time.Minute)}
		p.Finalizers = []string{"c07/hold"} // the fake client refuses objects with a deletionTimestamp and no finalizer
	}
	t := true
	if in.Daemon {
		p.OwnerReferences = append(p.OwnerReferences, metav1.OwnerReference{APIVersion: "apps/v1", Kind: "DaemonSet", Name: "ds", UID: "uid-ds", Controller: &t})
	}
	if in.Mirror {
		p.OwnerReferences = append(p.OwnerReferences, metav1.OwnerReference{APIVersion: "v1", Kind: "Node", Name: nodeName, UID: "uid-node-" + nodeName})
	}
	if in.Sts {
		p.OwnerReferences = append(p.OwnerReferences, metav1.OwnerReference{APIVersion: "apps/v1", Kind: "StatefulSet", Name: "sts", UID: "uid-sts"})
	}
	switch in.Tol {
	case "", "none":
	case "key-exists":
		p.Spec.Tolerations = []corev1.Toleration{{Key: v1.DisruptedTaintKey, Operator: corev1.TolerationOpExists}}
	case "key-equal":
		p.Spec.Tolerations = []corev1.Toleration{{Key: v1.DisruptedTaintKey, Operator: corev1.TolerationOpEqual, Value: ""}}
	case "all":
		p.Spec.Tolerations = []corev1.Toleration{{Operator: corev1.TolerationOpExists}}
	case "other-key":
		p.Spec.Tolerations = []corev1.Toleration{{Key: "example.com/other", Operator: corev1.TolerationOpExists}}
	case "key-noexecute":
		p.Spec.Tolerations = []corev1.Toleration{{Key: v1.DisruptedTaintKey, Operator: corev1.TolerationOpExists, Effect: corev1.TaintEffectNoExecute}}
	case "key-noschedule":
		p.Spec.Tolerations = []corev1.Toleration{{Key: v1.DisruptedTaintKey, Operator: corev1.TolerationOpExists, Effect: corev1.TaintEffectNoSchedule}}
	default:
		return nil, fmt.Errorf("bad tol %q", in.Tol)
	}
	v, ok, err := in.Dnd.value()
	if err != nil {
		return nil, err
	}
	if ok {
		p.Annotations[v1.DoNotDisruptAnnotationKey] = v
	}
	if in.Start != nil {
		p.Status.StartTime = &metav1.Time{Time: at(*in.Start)}
	}
	if in.NotReady {
		p.Status.Conditions = append(p.Status.Conditions, corev1.PodCondition{Type: corev1.PodReady, Status: corev1.ConditionFalse})
	} else {
		p.Status.Conditions = append(p.Status.Conditions, corev1.PodCondition{Type: corev1.PodReady, Status: corev1.ConditionTrue})
	}
	if in.DelCost != nil {
		p.Annotations[corev1.PodDeletionCost] = fmt.Sprintf("%d", *in.DelCost)
	}
	if in.Prio != nil {
		pr := int32(*in.Prio)
		p.Spec.Priority = &pr
	}
	return p, nil
}

func buildPdb(i int, in PdbIn) (*policyv1.PodDisruptionBudget, error) {
	b := &policyv1.PodDisruptionBudget{
		ObjectMeta: metav1.ObjectMeta{Name: fmt.Sprintf("pdb%d", i), Namespace: nsName(in.Ns), UID: types.UID(fmt.Sprintf("uid-pdb-%d", i)), CreationTimestamp: metav1.Time{Time: T0}},
		Status:     policyv1.PodDisruptionBudgetStatus{DisruptionsAllowed: in.Allowed},
	}
	switch in.Sel {
	case "nil":
	case "all":
		b.Spec.Selector = &metav1.LabelSelector{}
	case "app":
		b.Spec.Selector = &metav1.LabelSelector{MatchLabels: map[string]string{"app": fmt.Sprintf("a%d", in.App)}}
	default:
		return nil, fmt.Errorf("bad selector %q", in.Sel)
	}
	if in.AlwaysAllow {
		pol := policyv1.AlwaysAllow
		b.Spec.UnhealthyPodEvictionPolicy = &pol
	}
	return b, nil
}

// World is the running system for one case.
type World struct {
	Ctx      context.Context
	Clock    *clocktesting.FakeClock
	Client   client.Client
	Cloud    *fakecp.CloudProvider
	Cluster  *state.Cluster
	Queue    *disruption.Queue
	Recorder *test.EventRecorder
	Node     *corev1.Node
	Claim    *v1.NodeClaim
	Pool     *v1.NodePool
	Pods     []*corev1.Pod
}

// the fake client builder constructs a fresh client-go scheme for its default type converters on every Build (half
// of the cost of a case); the converters are stateless, so build them once
var (
	tcOnce sync.Once
	tcs    []managedfields.TypeConverter
)

func typeConverters() []managedfields.TypeConverter {
	tcOnce.Do(func() {
		s := runtime.NewScheme()
		if err := scheme.AddToScheme(s); err != nil {
			panic(err)
		}
		tcs = []managedfields.TypeConverter{clientgoapplyconfigurations.NewTypeConverter(s), managedfields.NewDeducedTypeConverter()}
	})
	return tcs
}

func newClient(objs ...client.Object) client.Client {
	return fake.NewClientBuilder().WithScheme(scheme.Scheme).WithTypeConverters(typeConverters()...).
		WithStatusSubresource(&v1.NodeClaim{}, &v1.NodePool{}).
		WithIndex(&corev1.Pod{}, "spec.nodeName", func(o client.Object) []string { return []string{o.(*corev1.Pod).Spec.NodeName} }).
		WithIndex(&corev1.Node{}, "spec.providerID", func(o client.Object) []string { return []string{o.(*corev1.Node).Spec.ProviderID} }).
		WithIndex(&v1.NodeClaim{}, "status.providerID", func(o client.Object) []string { return []string{o.(*v1.NodeClaim).Status.ProviderID} }).
		WithObjects(objs...).Build()
}

func newCloud(hasITs bool) *fakecp.CloudProvider {
	cp := fakecp.NewCloudProvider()
	if hasITs {
		cp.InstanceTypes = instanceTypes()
	} else {
		cp.InstanceTypes = []*cloudprovider.InstanceType{}
	}
	return cp
}

func baseCtx(batchMax int64) context.Context {
	o := test.Options()
	if batchMax > 0 {
		o.BatchMaxDuration = time.Duration(batchMax)
	}
	return options.ToContext(context.Background(), o)
}

// storedTimesOK: the API server (and the fake client) keep metav1.Time at one-second resolution, so every time
// that lives in an API object must be a whole number of seconds; only the clock and durations have nanoseconds.
func storedTimesOK(in *WorldIn) error {
	chk := func(what string, v int64) error {
		if v%int64(time.Second) != 0 {
			return fmt.Errorf("%s=%d is not a whole number of seconds (metav1.Time resolution)", what, v)
		}
		return nil
	}
	if in.Claim != nil {
		if err := chk("claim.initAt", in.Claim.InitAt); err != nil {
			return err
		}
		if in.Claim.LastPodEvent != nil {
			if err := chk("claim.lastPodEvent", *in.Claim.LastPodEvent); err != nil {
				return err
			}
		}
	}
	for i, p := range in.Pods {
		if p.Start != nil {
			if err := chk(fmt.Sprintf("pods[%d].start", i), *p.Start); err != nil {
				return err
			}
		}
	}
	return nil
}

// BuildWorld creates the objects and feeds the cluster state the way the informer controllers do.
func BuildWorld(in *WorldIn) (*World, error) {
	if err := storedTimesOK(in); err != nil {
		return nil, err
	}
	w := &World{Ctx: baseCtx(in.BatchMax), Clock: clocktesting.NewFakeClock(at(in.Now)), Recorder: test.NewEventRecorder()}
	var objs []client.Object
	var err error
	if in.Node != nil {
		if w.Node, err = buildNode(in.Node); err != nil {
			return nil, err
		}
		objs = append(objs, w.Node)
	}
	if in.Claim != nil {
		if w.Claim, err = buildClaim(in.Claim, in.Node != nil); err != nil {
			return nil, err
		}
		objs = append(objs, w.Claim)
	}
	if in.Pool.Exists {
		if w.Pool, err = buildPool(in.Pool); err != nil {
			return nil, err
		}
		objs = append(objs, w.Pool)
	}
	for i, p := range in.Pods {
		po, err := buildPod(i, p)
		if err != nil {
			return nil, err
		}
		w.Pods = append(w.Pods, po)
		objs = append(objs, po)
	}
	for i, b := range in.Pdbs {
		pb, err := buildPdb(i, b)
		if err != nil {
			return nil, err
		}
		objs = append(objs, pb)
	}
	w.Client = newClient(objs...)
	w.Cloud = newCloud(in.Pool.HasITs)
	w.Cluster = state.NewCluster(w.Clock, w.Client, w.Cloud)
	w.Queue = disruption.NewQueue(w.Client, w.Recorder, w.Cluster, w.Clock, nil)
	return w, nil
}

// Ingest delivers the NodeClaim / Node / Pod events to the cluster state (as the state informer controllers do).
func (w *World) Ingest() error {
	if w.Claim != nil {
		w.Cluster.UpdateNodeClaim(w.Claim.DeepCopy())
	}
	if w.Node != nil {
		if err := w.Cluster.UpdateNode(w.Ctx, w.Node.DeepCopy()); err != nil {
			return fmt.Errorf("UpdateNode: %w", err)
		}
	}
	for _, p := range w.Pods {
		// pods bound to a node the cluster state does not track are reported as an error by the real
		// informer too (it retries); irrelevant here
		_ = w.Cluster.UpdatePod(w.Ctx, p.DeepCopy())
	}
	return nil
}

// StateNode returns the deep copy of the tracked state node (what GetCandidates iterates over), or nil.
func (w *World) StateNode() *state.StateNode {
	for _, n := range w.Cluster.DeepCopyNodes() {
		if n.ProviderID() == providerID {
			return n
		}
	}
	return nil
}
