package c07

import (
	"encoding/json"
	"fmt"
	"strings"

	v1 "sigs.k8s.io/karpenter/pkg/apis/v1"
	"sigs.k8s.io/karpenter/pkg/controllers/disruption"
	"sigs.k8s.io/karpenter/pkg/controllers/state"
	"sigs.k8s.io/karpenter/pkg/utils/pdb"
)

// CandOut is what the real code decided for one world.
type CandOut struct {
	Tracked bool `json:"tracked"` // the cluster state tracks a StateNode for the provider id
	HasNode bool `json:"hasNode"` // ... with a Node object
	// StateNode.ValidateNodeDisruptable: "ok" | "blocked"
	Node string `json:"node"`
	// StateNode.ValidatePodsDisruptable with the real pdb.NewLimits: "ok" | "blocked" (PodBlockEvictionError) | "error"
	Pods string `json:"pods"`
	// disruption.NewCandidate per disruption class: "ok" | "pod-blocked" (PodBlockEvictionError) | "blocked"
	Cand map[string]string `json:"cand"`
	// per method of disruption.NewMethods (keyed by its Go type name): Class()
	Class map[string]string `json:"class"`
	// per method: NewCandidate(class of the method) succeeded and method.ShouldDisrupt(candidate)
	Sel map[string]bool `json:"sel"`
	// per method: the node is in disruption.GetCandidates(…, method.ShouldDisrupt, method.Class(), queue)
	Get map[string]bool `json:"get"`
	// Consolidatable condition after the optional run of the nodeclaim.disruption controller
	Consolidatable string `json:"consolidatable"`
}

func methodName(m disruption.Method) string {
	return strings.TrimPrefix(fmt.Sprintf("%T", m), "*disruption.")
}

func condStatus(nc *v1.NodeClaim, t string) string {
	if nc == nil {
		return ""
	}
	c := nc.StatusConditions().Get(t)
	if c == nil {
		return ""
	}
	return string(c.Status)
}

// reconcileClaim runs the REAL nodeclaim.disruption controller (Drift + Consolidation sub-reconcilers) on the
// stored NodeClaim, with the faults `f` injected into that run, and returns the NodeClaim as persisted afterwards.
func (w *World) reconcileClaim(drifted bool, f *RFault) (*v1.NodeClaim, error) {
	return runClaimController(w.Ctx, w.Clock, w.Client, w.Cloud, drifted, f)
}

func implCandidate(raw json.RawMessage) (any, error) {
	var in WorldIn
	if err := json.Unmarshal(raw, &in); err != nil {
		return nil, err
	}
	return runWorld(&in)
}

func runWorld(in *WorldIn) (*CandOut, error) {
	if in.Claim == nil && in.Node == nil {
		// nothing to deliver: the cluster state tracks nothing
		return &CandOut{Cand: map[string]string{}, Class: map[string]string{}, Sel: map[string]bool{}, Get: map[string]bool{}}, nil
	}
	w, err := BuildWorld(in)
	if err != nil {
		return nil, err
	}
	if in.Reconcile && w.Claim != nil {
		nc, err := w.reconcileClaim(in.Claim.Drifted == "True", in.Fault)
		if err != nil {
			return nil, err
		}
		w.Claim = nc
	}
	if err := w.Ingest(); err != nil {
		return nil, err
	}
	if in.Marked {
		w.Cluster.MarkForDeletion(providerID)
	}
	if in.NominatedAt != nil {
		w.Clock.SetTime(at(*in.NominatedAt))
		w.Cluster.NominateNodeForPod(w.Ctx, providerID)
		w.Clock.SetTime(at(in.Now))
	}
	if in.Reupdate {
		// a later Node / NodeClaim event must not lose the in-memory protection windows
		if err := w.Ingest(); err != nil {
			return nil, err
		}
	}
	if in.Buffer > 0 {
		w.Cluster.UpdateBufferPodCounts(map[string]int{providerID: in.Buffer})
	}
	if in.InQueue {
		w.Queue.ProviderIDToCommand[providerID] = &disruption.Command{}
	}
	out := &CandOut{Cand: map[string]string{}, Class: map[string]string{}, Sel: map[string]bool{}, Get: map[string]bool{}}
	out.Consolidatable = condStatus(w.Claim, v1.ConditionTypeConsolidatable)
	sn := w.StateNode()
	if sn == nil {
		return out, nil
	}
	out.Tracked = true
	out.HasNode = sn.Node != nil

	if err := sn.ValidateNodeDisruptable(w.Clock); err != nil {
		out.Node = "blocked"
	} else {
		out.Node = "ok"
	}
	limits, err := pdb.NewLimits(w.Ctx, w.Client)
	if err != nil {
		return nil, fmt.Errorf("pdb.NewLimits: %w", err)
	}
	if _, err := sn.ValidatePodsDisruptable(w.Ctx, w.Client, limits, w.Clock, w.Recorder); err != nil {
		if state.IsPodBlockEvictionError(err) {
			out.Pods = "blocked"
		} else {
			out.Pods = "error"
		}
	} else {
		out.Pods = "ok"
	}

	nodePoolMap, itMap, err := disruption.BuildNodePoolMap(w.Ctx, w.Client, w.Cloud)
	if err != nil {
		return nil, fmt.Errorf("BuildNodePoolMap: %w", err)
	}
	newCand := func(class string) (*disruption.Candidate, string) {
		c, err := disruption.NewCandidate(w.Ctx, w.Client, w.Recorder, w.Clock, w.StateNode(), limits, nodePoolMap, itMap, w.Queue, class)
		switch {
		case err == nil:
			return c, "ok"
		case state.IsPodBlockEvictionError(err):
			return nil, "pod-blocked"
		default:
			return nil, "blocked"
		}
	}
	for _, class := range []string{disruption.GracefulDisruptionClass, disruption.EventualDisruptionClass} {
		_, out.Cand[class] = newCand(class)
	}
	methods := disruption.NewMethods(w.Clock, w.Cluster, w.Client, nil, w.Cloud, w.Recorder, w.Queue)
	for _, m := range methods {
		name := methodName(m)
		out.Class[name] = m.Class()
		c, verdict := newCand(m.Class())
		out.Sel[name] = verdict == "ok" && m.ShouldDisrupt(w.Ctx, c)
		cands, err := disruption.GetCandidates(w.Ctx, w.Cluster, w.Client, w.Recorder, w.Clock, w.Cloud, m.ShouldDisrupt, m.Class(), w.Queue)
		if err != nil {
			return nil, fmt.Errorf("GetCandidates: %w", err)
		}
		found := false
		for _, cn := range cands {
			if cn.ProviderID() == providerID {
				found = true
			}
		}
		out.Get[name] = found
	}
	return out, nil
}
