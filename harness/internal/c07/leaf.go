package c07

import (
	"context"
	"encoding/json"
	"fmt"
	"math/rand/v2"

	corev1 "k8s.io/api/core/v1"
	clocktesting "k8s.io/utils/clock/testing"
	"sigs.k8s.io/controller-runtime/pkg/client"

	v1 "sigs.k8s.io/karpenter/pkg/apis/v1"
	"sigs.k8s.io/karpenter/pkg/test"
	disruptionutils "sigs.k8s.io/karpenter/pkg/utils/disruption"
	"sigs.k8s.io/karpenter/pkg/utils/pdb"
	podutils "sigs.k8s.io/karpenter/pkg/utils/pod"

	"verifharness/internal/core"
)

// ---------------- c07.pod: the pod predicates ----------------

type PodCaseIn struct {
	Now int64 `json:"now"`
	Pod PodIn `json:"pod"`
}

type PodOut struct {
	Active        bool `json:"active"`
	Reschedulable bool `json:"reschedulable"`
	Evictable     bool `json:"evictable"`
	Disruptable   bool `json:"disruptable"`
	DndActive     bool `json:"dndActive"`
	DndActiveNoRe bool `json:"dndActiveNilRecorder"`
	Tolerates     bool `json:"tolerates"`
	CostPositive  bool `json:"costPositive"`
}

func implPod(raw json.RawMessage) (any, error) {
	var in PodCaseIn
	if err := json.Unmarshal(raw, &in); err != nil {
		return nil, err
	}
	p, err := buildPod(0, in.Pod)
	if err != nil {
		return nil, err
	}
	clk := clocktesting.NewFakeClock(at(in.Now))
	rec := test.NewEventRecorder()
	return PodOut{
		Active:        podutils.IsActive(p),
		Reschedulable: podutils.IsReschedulable(p),
		Evictable:     podutils.IsEvictable(p, clk, rec),
		Disruptable:   podutils.IsDisruptable(p, clk, rec),
		DndActive:     podutils.IsDoNotDisruptActive(p, clk, rec),
		DndActiveNoRe: podutils.IsDoNotDisruptActive(p, clk, nil),
		Tolerates:     podutils.ToleratesDisruptedNoScheduleTaint(p),
		CostPositive:  disruptionutils.EvictionCost(context.Background(), p) > 0,
	}, nil
}

var tolKinds = []string{"none", "key-exists", "key-equal", "all", "other-key", "key-noexecute", "key-noschedule"}

func dndVariants(now int64) []struct {
	a Ann
	s *int64
} {
	type v = struct {
		a Ann
		s *int64
	}
	out := []v{
		{Ann{K: "none"}, i64(floorSec(now) - minute)},
		{Ann{K: "true"}, i64(floorSec(now) - minute)},
		{Ann{K: "true"}, nil},
		{Ann{K: "bad", Raw: "false"}, i64(floorSec(now) - minute)},
		{Ann{K: "bad", Raw: "True"}, nil},
		{Ann{K: "bad", Raw: "1d"}, i64(floorSec(now) - minute)},
		{Ann{K: "bad", Raw: ""}, i64(floorSec(now) - minute)},
		{Ann{K: "dur", Ns: -minute}, nil},
		{Ann{K: "dur", Ns: 0}, nil},
		{Ann{K: "dur", Ns: 1}, nil},
		{Ann{K: "dur", Ns: minute}, nil},
		{Ann{K: "dur", Ns: -minute}, i64(floorSec(now) - minute)},
	}
	for _, ageBase := range []int64{0, 5 * minute} {
		s := floorSec(now) - ageBase
		age := now - s
		for _, d := range []int64{age - 1, age, age + 1} {
			out = append(out, v{Ann{K: "dur", Ns: d}, i64(s)})
		}
	}
	return out
}

func enumPods(core.Tier) []any {
	var out []any
	for _, now := range []int64{nowNs, nowNs + 1} {
		for _, phase := range []string{"Running", "Pending", "Succeeded", "Failed"} {
			for flags := 0; flags < 16; flags++ {
				for _, tol := range tolKinds {
					for _, dv := range dndVariants(now) {
						p := PodIn{OnNode: true, Phase: phase, Terminating: flags&1 != 0, Daemon: flags&2 != 0, Mirror: flags&4 != 0, Sts: flags&8 != 0,
							Tol: tol, Dnd: dv.a, Start: dv.s}
						out = append(out, PodCaseIn{Now: now, Pod: p})
					}
				}
			}
		}
	}
	// eviction cost grid
	dels := []*int64{nil, i64(-(1 << 27) - 1), i64(-(1 << 27)), i64(-(1 << 27) + 1), i64(-(1 << 27) + 4), i64(-1), i64(0), i64(1), i64(-(1 << 31)), i64((1 << 31) - 1)}
	prios := []*int64{nil, i64(-(1 << 25) - 1), i64(-(1 << 25)), i64(-(1 << 25) + 1), i64(-1), i64(0), i64(1), i64(1000000000), i64(-(1 << 31))}
	for _, d := range dels {
		for _, pr := range prios {
			out = append(out, PodCaseIn{Now: nowNs, Pod: PodIn{OnNode: true, Phase: "Running", Dnd: Ann{K: "none"}, DelCost: d, Prio: pr}})
		}
	}
	return out
}

func podLabels(raw json.RawMessage, out any) []string {
	var in PodCaseIn
	_ = json.Unmarshal(raw, &in)
	l := []string{"dnd:" + in.Pod.Dnd.K, "phase:" + in.Pod.Phase, "tol:" + in.Pod.Tol}
	if m, ok := out.(map[string]any); ok {
		for _, k := range []string{"active", "reschedulable", "evictable", "disruptable", "dndActive", "costPositive"} {
			l = append(l, fmt.Sprintf("%s=%v", k, m[k]))
		}
	}
	return l
}

// ---------------- c07.pdb: pdb.Limits.CanEvictPods ----------------

type PdbCaseIn struct {
	Now  int64   `json:"now"`
	Pods []PodIn `json:"pods"`
	Pdbs []PdbIn `json:"pdbs"`
}

type PdbOut struct {
	OK   bool `json:"ok"`
	Keys int  `json:"keys"` // number of PDB keys reported for the first pod that cannot be evicted
}

func implPdb(raw json.RawMessage) (any, error) {
	var in PdbCaseIn
	if err := json.Unmarshal(raw, &in); err != nil {
		return nil, err
	}
	var objs []client.Object
	for i, b := range in.Pdbs {
		pb, err := buildPdb(i, b)
		if err != nil {
			return nil, err
		}
		objs = append(objs, pb)
	}
	var pods []*corev1.Pod
	for i, p := range in.Pods {
		po, err := buildPod(i, p)
		if err != nil {
			return nil, err
		}
		pods = append(pods, po)
	}
	c := newClient(objs...)
	limits, err := pdb.NewLimits(context.Background(), c)
	if err != nil {
		return nil, err
	}
	keys, ok := limits.CanEvictPods(pods, clocktesting.NewFakeClock(at(in.Now)), test.NewEventRecorder())
	return PdbOut{OK: ok, Keys: len(keys)}, nil
}

var pdbUniverse = []PdbIn{
	{Ns: 0, Sel: "app", App: 0, Allowed: 0},
	{Ns: 0, Sel: "app", App: 0, Allowed: 1},
	{Ns: 0, Sel: "all", Allowed: 0},
	{Ns: 0, Sel: "all", Allowed: 2},
	{Ns: 1, Sel: "app", App: 0, Allowed: 0},
	{Ns: 0, Sel: "nil", Allowed: 0},
	{Ns: 0, Sel: "app", App: 0, Allowed: 0, AlwaysAllow: true},
	{Ns: 0, Sel: "app", App: 1, Allowed: 0},
}

func podKinds(now int64) []PodIn {
	s := i64(floorSec(now) - hour)
	base := PodIn{OnNode: true, Phase: "Running", Start: s, Dnd: Ann{K: "none"}}
	var out []PodIn
	add := func(f func(p *PodIn)) { p := base; f(&p); out = append(out, p) }
	add(func(p *PodIn) {})
	add(func(p *PodIn) { p.Tol = "key-exists" })
	add(func(p *PodIn) { p.Tol = "key-noexecute" })
	add(func(p *PodIn) { p.Mirror = true })
	add(func(p *PodIn) { p.Phase = "Succeeded" })
	add(func(p *PodIn) { p.Terminating = true })
	add(func(p *PodIn) { p.Dnd = Ann{K: "true"} })
	add(func(p *PodIn) { p.Dnd = Ann{K: "dur", Ns: 2 * hour} })
	add(func(p *PodIn) { p.Dnd = Ann{K: "dur", Ns: minute} })
	add(func(p *PodIn) { p.Daemon = true })
	return out
}

func enumPdbs(t core.Tier) []any {
	var out []any
	var sets [][]PdbIn
	sets = append(sets, nil)
	for i := range pdbUniverse {
		sets = append(sets, []PdbIn{pdbUniverse[i]})
		for j := i; j < len(pdbUniverse); j++ {
			sets = append(sets, []PdbIn{pdbUniverse[i], pdbUniverse[j]})
		}
	}
	for _, kind := range podKinds(nowNs) {
		for ns := 0; ns < 2; ns++ {
			for ai, app := range []*int{nil, iptr(0), iptr(1)} {
				if t != core.Thorough && (ns == 1 || ai == 2) {
					continue // quick: namespace 0, app label absent / a0 (the other namespace and label come from the PDB side)
				}
				for _, nr := range []bool{false, true} {
					p := kind
					p.Ns, p.App, p.NotReady = ns, app, nr
					for _, s := range sets {
						out = append(out, PdbCaseIn{Now: nowNs, Pods: []PodIn{p}, Pdbs: s})
					}
				}
			}
		}
	}
	return out
}

func genPdbCase(r *rand.Rand, _ core.Tier) any {
	in := PdbCaseIn{Now: nowNs + pick(r, int64(0), 1, sec/2)}
	for i, n := 0, 1+r.IntN(4); i < n; i++ {
		p := genPod(r, in.Now)
		if r.IntN(2) == 0 {
			p.Dnd = Ann{K: "none"}
		}
		if r.IntN(3) > 0 {
			p.Phase, p.Terminating, p.Mirror = "Running", false, false
		}
		in.Pods = append(in.Pods, p)
	}
	for i, n := 0, r.IntN(4); i < n; i++ {
		in.Pdbs = append(in.Pdbs, genPdb(r))
	}
	return in
}

func pdbLabels(raw json.RawMessage, out any) []string {
	var in PdbCaseIn
	_ = json.Unmarshal(raw, &in)
	l := []string{fmt.Sprintf("pods=%d", len(in.Pods)), fmt.Sprintf("pdbs=%d", len(in.Pdbs))}
	if m, ok := out.(map[string]any); ok {
		l = append(l, fmt.Sprintf("ok=%v", m["ok"]), fmt.Sprintf("keys=%v", m["keys"]))
	}
	return l
}

// ---------------- c07.consolidatable: the nodeclaim.disruption controller ----------------

type ConsIn struct {
	Now   int64   `json:"now"`
	Pool  PoolIn  `json:"pool"`
	Claim ClaimIn `json:"claim"`
	Fault *RFault `json:"fault,omitempty"` // faults injected into the run (drift check / NodePool read / status patch)
}

type ConsOut struct {
	Consolidatable string `json:"consolidatable"` // the persisted condition after Reconcile: "" | "True" | "False" | "Unknown"
}

func implConsolidatable(raw json.RawMessage) (any, error) {
	var in ConsIn
	if err := json.Unmarshal(raw, &in); err != nil {
		return nil, err
	}
	w := &WorldIn{Now: in.Now, Claim: &in.Claim, Pool: in.Pool}
	if err := storedTimesOK(w); err != nil {
		return nil, err
	}
	nc, err := buildClaim(&in.Claim, false)
	if err != nil {
		return nil, err
	}
	objs := []client.Object{nc}
	if in.Pool.Exists {
		np, err := buildPool(in.Pool)
		if err != nil {
			return nil, err
		}
		objs = append(objs, np)
	}
	c := newClient(objs...)
	after, err := runClaimController(baseCtx(0), clocktesting.NewFakeClock(at(in.Now)), c, newCloud(true), in.Claim.Drifted == "True", in.Fault)
	if err != nil {
		return nil, err
	}
	return ConsOut{Consolidatable: condStatus(after, v1.ConditionTypeConsolidatable)}, nil
}

// consFaults: every fault position of one run of the controller, each kind alone, plus the drift check failing
// together with each of the other two positions.
var consFaults = []*RFault{
	nil,
	{Drift: "isDrifted"}, {Drift: "notFound"}, {Drift: "instanceTypes"},
	{PoolGet: "error"},
	{Patch: "conflict"}, {Patch: "notFound"}, {Patch: "error"},
	{Drift: "isDrifted", Patch: "error"}, {Drift: "instanceTypes", PoolGet: "error"},
}

func enumConsolidatable(core.Tier) []any {
	var out []any
	conds := []string{"", "True", "False", "Unknown"}
	t := nowNs - minute // the reference instant (whole seconds)
	for _, caKind := range []string{"never", "zero", "pos"} {
		for _, init := range conds {
			for _, hasLPE := range []bool{false, true} {
				for _, delta := range []int64{-1, 0, 1} {
					for _, before := range conds {
						for variant := 0; variant < 5; variant++ {
							in := ConsIn{Now: nowNs,
								Pool:  PoolIn{Exists: true, Managed: true, Policy: "WhenEmptyOrUnderutilized", HasITs: true},
								Claim: ClaimIn{Meta: okMeta(), Initialized: init, Consolidatable: before}}
							switch caKind {
							case "never":
							case "zero":
								in.Pool.ConsolidateAfter = i64(0)
							case "pos":
								// now - t == consolidateAfter + delta
								in.Pool.ConsolidateAfter = i64(nowNs - t - delta)
							}
							if hasLPE {
								in.Claim.LastPodEvent = i64(t)
								in.Claim.InitAt = t - hour
							} else {
								in.Claim.InitAt = t
							}
							switch variant {
							case 1:
								in.Pool.Static = true
							case 2:
								in.Claim.Deleting = true
							case 3:
								in.Claim.Pool = ""
							case 4:
								in.Pool.Exists = false
							}
							for _, f := range consFaults {
								if f != nil && variant > 1 {
									continue // faults: on the dynamic and the static pool
								}
								c := in
								c.Fault = f
								out = append(out, c)
							}
						}
					}
				}
			}
		}
	}
	return out
}

func genConsolidatable(r *rand.Rand, _ core.Tier) any {
	now := pick(r, nowNs, nowNs+17*sec) + pick(r, int64(0), 1, -1, sec/2)
	in := ConsIn{Now: now,
		Pool: PoolIn{Exists: r.IntN(10) > 0, Managed: r.IntN(6) > 0, Static: r.IntN(8) == 0, Policy: pick(r, "WhenEmpty", "WhenEmptyOrUnderutilized", "Balanced"), HasITs: true},
		Claim: ClaimIn{Meta: okMeta(), Initialized: pick(r, "True", "True", "True", "", "False", "Unknown"),
			Consolidatable: pick(r, "", "True", "False", "Unknown"), Drifted: pick(r, "", "True"), Deleting: r.IntN(10) == 0}}
	if r.IntN(10) == 0 {
		in.Claim.Pool = ""
	}
	t := floorSec(now) - pick(r, int64(0), sec, 30*sec, 10*minute)
	switch r.IntN(8) {
	case 0:
	case 1:
		in.Pool.ConsolidateAfter = i64(0)
	default:
		ca := now - t + pick(r, int64(-1), 0, 1, -sec, sec, minute)
		if ca < 0 {
			ca = 0
		}
		in.Pool.ConsolidateAfter = i64(ca)
	}
	if r.IntN(2) == 0 {
		in.Claim.LastPodEvent = i64(t)
		in.Claim.InitAt = t - pick(r, int64(0), minute, hour)
	} else {
		in.Claim.InitAt = t
	}
	if r.IntN(2) == 0 {
		in.Fault = genFault(r)
	}
	return in
}

func consLabels(raw json.RawMessage, out any) []string {
	var in ConsIn
	_ = json.Unmarshal(raw, &in)
	l := []string{"before=" + in.Claim.Consolidatable, "initialized=" + in.Claim.Initialized, "fault:" + in.Fault.label()}
	switch {
	case in.Pool.ConsolidateAfter == nil:
		l = append(l, "consolidateAfter=Never")
	case *in.Pool.ConsolidateAfter == 0:
		l = append(l, "consolidateAfter=0")
	default:
		t := in.Claim.InitAt
		if in.Claim.LastPodEvent != nil {
			t = *in.Claim.LastPodEvent
		}
		switch d := in.Now - t - *in.Pool.ConsolidateAfter; {
		case d == -1:
			l = append(l, "edge:-1ns")
		case d == 0:
			l = append(l, "edge:0")
		case d == 1:
			l = append(l, "edge:+1ns")
		case d < 0:
			l = append(l, "under")
		default:
			l = append(l, "elapsed")
		}
	}
	if m, ok := out.(map[string]any); ok {
		l = append(l, fmt.Sprintf("after=%v", m["consolidatable"]))
	}
	return l
}

func leafOps() []*core.Op {
	return []*core.Op{
		{
			Name: "c07.pod",
			Doc:  "podutils.IsActive / IsReschedulable / IsEvictable / IsDisruptable / IsDoNotDisruptActive (with and without recorder) / ToleratesDisruptedNoScheduleTaint and the sign of disruptionutils.EvictionCost on real pods",
			N: func(t core.Tier) int {
				if t == core.Thorough {
					return 30000
				}
				return 1500
			},
			Gen: func(r *rand.Rand, _ core.Tier) any {
				now := nowNs + pick(r, int64(0), 1, -1, sec/2, 17*sec)
				return PodCaseIn{Now: now, Pod: genPod(r, now)}
			},
			Enum:           enumPods,
			Impl:           implPod,
			Rule:           "exhaustive: phase x terminating x daemon x mirror x statefulset x 7 toleration shapes x 18 annotation/start-time variants (duration = age-1ns, age, age+1ns; no start time; non-positive; unparsable) at two clock values, plus the deletion-cost x priority grid around cost 0; plus random pods. non-trivial = the pod carries a do-not-disrupt annotation or a cost annotation",
			ExhaustiveNote: "pod flag space x annotation variants (see rule)",
			Nontrivial: func(raw json.RawMessage, _ any) bool {
				var in PodCaseIn
				_ = json.Unmarshal(raw, &in)
				return in.Pod.Dnd.K != "none" || in.Pod.DelCost != nil || in.Pod.Prio != nil
			},
			Labels:    podLabels,
			Signature: func(raw json.RawMessage, _ any) string { return "pod" },
		},
		{
			Name: "c07.pdb",
			Doc:  "real pdb.NewLimits over PodDisruptionBudgets on the fake client, Limits.CanEvictPods on real pods",
			N: func(t core.Tier) int {
				if t == core.Thorough {
					return 30000
				}
				return 1000
			},
			Gen:            genPdbCase,
			Enum:           enumPdbs,
			Impl:           implPdb,
			Rule:           "exhaustive: 10 pod kinds x namespace x app label x readiness x every set of 0-2 PDBs from an 8-element universe (selector nil/all/label, other namespace, allowed 0/>0, AlwaysAllow); plus random lists of 1-4 pods and 0-3 PDBs. non-trivial = at least one PDB selects at least one pod's namespace",
			ExhaustiveNote: "single pod x PDB pairs (see rule)",
			Nontrivial: func(raw json.RawMessage, _ any) bool {
				var in PdbCaseIn
				_ = json.Unmarshal(raw, &in)
				for _, b := range in.Pdbs {
					for _, p := range in.Pods {
						if b.Ns == p.Ns {
							return true
						}
					}
				}
				return false
			},
			Labels:    pdbLabels,
			Signature: func(raw json.RawMessage, _ any) string { return "pdb" },
			Shrink: func(raw json.RawMessage) []any {
				var in PdbCaseIn
				if json.Unmarshal(raw, &in) != nil {
					return nil
				}
				var out []any
				for _, ps := range core.ShrinkList(in.Pods) {
					c := in
					c.Pods = ps
					out = append(out, c)
				}
				for _, bs := range core.ShrinkList(in.Pdbs) {
					c := in
					c.Pdbs = bs
					out = append(out, c)
				}
				return out
			},
		},
		{
			Name: "c07.consolidatable",
			Doc:  "the real nodeclaim.disruption Controller.Reconcile (Drift + Consolidation sub-reconcilers) on a NodeClaim + NodePool on the fake client, with faults injected at its external calls (cloud provider IsDrifted / GetInstanceTypes erroring, NodePool read failing, status patch refused); the persisted Consolidatable condition",
			N: func(t core.Tier) int {
				if t == core.Thorough {
					return 8000
				}
				return 400
			},
			Gen:            genConsolidatable,
			Enum:           enumConsolidatable,
			Impl:           implConsolidatable,
			Rule:           "exhaustive: consolidateAfter Never/0/positive x Initialized absent/True/False/Unknown x with/without lastPodEventTime x clock at consolidateAfter -1ns/0/+1ns x previous condition absent/True/False/Unknown x {dynamic, static pool, deleting NodeClaim, no nodepool label, missing NodePool}; the dynamic and static columns again under each of 9 fault settings (IsDrifted error, NodeClaimNotFound from IsDrifted, GetInstanceTypes error on a NodeClaim older than 1h, NodePool read error, status patch conflict / not found / server error, drift+patch, drift+pool read); plus random cases (half of them with a fault: 60% drift check, 10% pool read, 20% patch, 10% two). non-trivial = the sub-reconciler runs (live NodeClaim of an existing dynamic pool)",
			ExhaustiveNote: "condition maintenance matrix (see rule)",
			Nontrivial: func(raw json.RawMessage, _ any) bool {
				var in ConsIn
				_ = json.Unmarshal(raw, &in)
				return in.Pool.Exists && !in.Pool.Static && !in.Claim.Deleting && in.Claim.Pool == "this"
			},
			Labels:    consLabels,
			Signature: func(raw json.RawMessage, _ any) string { return "consolidatable" },
		},
	}
}
