// Package c07: correspondence ops for C07 (stub, not yet built).
package c07

import (
	"verifharness/internal/core"
	"verifharness/internal/registry"
)

func init() { registry.Register("C07", Ops) }

func Ops() []*core.Op { return nil }
