package c07

import (
	"encoding/json"
	"fmt"
	"math/rand/v2"
	"sort"
	"strings"

	"github.com/go-logr/logr"
	ctrllog "sigs.k8s.io/controller-runtime/pkg/log"

	"verifharness/internal/core"
	"verifharness/internal/registry"
)

func init() {
	registry.Register("C07", Ops)
	// the real controllers log through controller-runtime; without a logger it prints a stack trace once
	ctrllog.SetLogger(logr.Discard())
}

func anySel(out any) (sel []string) {
	m, _ := out.(map[string]any)
	s, _ := m["get"].(map[string]any)
	for k, v := range s {
		if b, _ := v.(bool); b {
			sel = append(sel, k)
		}
	}
	sort.Strings(sel)
	return sel
}

func candidateLabels(raw json.RawMessage, out any) []string {
	var in CaseIn
	_ = json.Unmarshal(raw, &in)
	l := []string{"base:" + in.Base, fmt.Sprintf("mods=%d", len(in.Mods))}
	for _, m := range in.Mods {
		l = append(l, "mod:"+m)
	}
	for _, s := range anySel(out) {
		l = append(l, "selected:"+s)
	}
	if len(anySel(out)) == 0 {
		l = append(l, "selected:none")
	}
	if m, ok := out.(map[string]any); ok {
		if c, ok := m["cand"].(map[string]any); ok {
			l = append(l, fmt.Sprintf("cand:graceful=%v", c["graceful"]), fmt.Sprintf("cand:eventual=%v", c["eventual"]))
		}
		l = append(l, fmt.Sprintf("node:%v", m["node"]), fmt.Sprintf("pods:%v", m["pods"]))
	}
	if in.Reconcile {
		l = append(l, "reconcile", "reconcile-fault:"+in.Fault.label())
	}
	return l
}

// candidateSignature classifies a failing world by what the implementation wrongly selected/accepted: the
// methods selected and the leaf verdicts.  (No known finding uses it; kept precise so that one can.)
func candidateSignature(raw json.RawMessage, out any) string {
	m, _ := out.(map[string]any)
	return fmt.Sprintf("selected=%s node=%v pods=%v", strings.Join(anySel(out), "+"), m["node"], m["pods"])
}

func shrinkWorld(raw json.RawMessage) []any {
	var in CaseIn
	if err := json.Unmarshal(raw, &in); err != nil {
		return nil
	}
	var out []any
	for _, ps := range core.ShrinkList(in.Pods) {
		c := in
		c.Pods = ps
		out = append(out, c)
	}
	for _, bs := range core.ShrinkList(in.Pdbs) {
		c := in
		c.Pdbs = bs
		out = append(out, c)
	}
	if in.NominatedAt != nil {
		c := in
		c.NominatedAt = nil
		out = append(out, c)
	}
	for _, f := range []func(c *CaseIn) bool{
		func(c *CaseIn) bool { r := c.Reupdate; c.Reupdate = false; return r },
		func(c *CaseIn) bool { r := c.Reconcile; c.Reconcile = false; c.Fault = nil; return r },
		func(c *CaseIn) bool { r := !c.Fault.none(); c.Fault = nil; return r },
		func(c *CaseIn) bool { r := c.Marked; c.Marked = false; return r },
		func(c *CaseIn) bool { r := c.InQueue; c.InQueue = false; return r },
		func(c *CaseIn) bool { r := c.Buffer > 0; c.Buffer = 0; return r },
		func(c *CaseIn) bool { r := len(c.Mods) > 0; c.Mods = nil; return r },
	} {
		c := in
		if f(&c) {
			out = append(out, c)
		}
	}
	return out
}

func Ops() []*core.Op {
	return append([]*core.Op{
		{
			Name: "c07.candidate",
			Doc: "one node (+NodeClaim, NodePool, pods, PDBs) on the fake client, real state.Cluster fed by UpdateNodeClaim/UpdateNode/UpdatePod (+MarkForDeletion, NominateNodeForPod, buffer counts, queue entry, optional real nodeclaim.disruption reconcile — also with a failing cloud-provider drift check / NodePool read / status patch injected into that run): " +
				"StateNode.ValidateNodeDisruptable, ValidatePodsDisruptable (real pdb.NewLimits), disruption.NewCandidate per class, every method of disruption.NewMethods: Class(), ShouldDisrupt, and disruption.GetCandidates",
			N: func(t core.Tier) int {
				if t == core.Thorough {
					return 25000
				}
				return 2500
			},
			Gen:  func(r *rand.Rand, t core.Tier) any { return genWorld(r, t == core.Thorough) },
			Enum: func(t core.Tier) []any { return enumMatrix(t == core.Thorough) },
			Impl: implCandidate,
			Rule: "exhaustive: 3 base worlds (busy/empty/static) x TGP x {no modifier, every single modifier} and every pair of modifiers (quick: each pair in one of the six base worlds, rotating; thorough: in all six) over the blocker/decoy/eligibility modifier list; plus random worlds (0-4 modifiers, random pods/PDBs, clock at the nomination / do-not-disrupt / consolidateAfter edges; a third of them with the real nodeclaim.disruption controller run first, half of those runs with a fault: 60% failing drift check (IsDrifted error / NodeClaimNotFound / GetInstanceTypes error), 10% unreadable NodePool, 20% refused status patch, 10% two faults). non-trivial = the state node is tracked and at least one blocker, decoy or eligibility modifier is present",
			Nontrivial: func(raw json.RawMessage, out any) bool {
				var in CaseIn
				_ = json.Unmarshal(raw, &in)
				m, _ := out.(map[string]any)
				tr, _ := m["tracked"].(bool)
				return tr && (len(in.Mods) > 0 || len(in.Pods) > 1 || len(in.Pdbs) > 0)
			},
			Labels:         candidateLabels,
			Signature:      candidateSignature,
			Shrink:         shrinkWorld,
			ExhaustiveNote: fmt.Sprintf("method x blocker matrix: 3 bases x 2 (TGP) x (1 + %d singles) worlds x 5 methods, complete in both tiers; %d modifier pairs (quick: one base world each, thorough: all six)", len(modifiers), len(modifiers)*(len(modifiers)-1)/2),
		},
		{
			Name: "c07.history",
			Doc: "event histories against ONE real state.Cluster (UpdateNodeClaim/DeleteNodeClaim, UpdateNode/DeleteNode, MarkForDeletion/UnmarkForDeletion, NominateNodeForPod, pod events, the real nodeclaim.disruption controller (also with a failing cloud-provider drift check / NodePool read / status patch injected into a run), clock ticks): " +
				"after every event disruption.GetCandidates for each method of NewMethods",
			N: func(t core.Tier) int {
				if t == core.Thorough {
					return 2500
				}
				return 400
			},
			Gen:        genHistory,
			Impl:       implHistory,
			Rule:       "random histories of 4-28 events (4-84 thorough) with ticks aimed at the end of the nomination window and of consolidateAfter; a third of the controller runs (two thirds of those that directly follow a pod event) have a fault injected: 60% failing drift check, 10% unreadable NodePool, 20% refused status patch, 10% two; non-trivial = the set of selecting methods changes at least twice along the history",
			Nontrivial: historyNontrivial,
			Labels:     historyLabels,
			Signature:  func(raw json.RawMessage, _ any) string { return "history" },
			Shrink:     shrinkHistory,
		},
	}, append(append(leafOps(), controllerOp()), commandsOp())...)
}
