package c07

import (
	"math/rand/v2"
	"time"
)

const (
	sec  = int64(time.Second)
	hour = int64(time.Hour)
	// the instant "now" of the enumerated worlds
	nowNs = 2 * hour
)

func i64(v int64) *int64 { return &v }
func iptr(v int) *int    { return &v }

// window mirrors state.nominationWindow for the GENERATOR only (to aim at the edge); the verdict never uses it.
func window(batchMax int64) int64 {
	w := 2 * batchMax
	if w < 10*sec {
		w = 10 * sec
	}
	return w
}

func floorSec(ns int64) int64 {
	f := ns - ns%sec
	if ns%sec < 0 {
		f -= sec
	}
	return f
}

func okMeta() Meta { return Meta{Dnd: Ann{K: "none"}, Pool: "this", IT: "known", CT: true, Zone: true} }

// baseWorld returns a world in which the expected methods select the node:
//
//	busy   — dynamic pool, one running default pod, Drifted + Consolidatable   -> Drift, MultiNode, SingleNode
//	empty  — dynamic pool, no pods (one DaemonSet pod)                          -> Emptiness, Drift
//	static — static pool, Drifted                                               -> StaticDrift
func baseWorld(kind string, tgp bool) *WorldIn {
	w := &WorldIn{
		Now: nowNs, BatchMax: 10 * sec,
		Claim: &ClaimIn{Meta: okMeta(), TGP: tgp, Drifted: "True", Consolidatable: "True", Initialized: "True", InitAt: 10 * sec},
		Node:  &NodeIn{Meta: okMeta(), Init: "true", Reg: "true"},
		Pool:  PoolIn{Exists: true, Managed: true, ConsolidateAfter: i64(30 * sec), Policy: "WhenEmptyOrUnderutilized", HasITs: true},
	}
	switch kind {
	case "busy":
		w.Pods = []PodIn{{OnNode: true, Phase: "Running", Start: i64(hour), Dnd: Ann{K: "none"}}}
	case "empty":
		w.Pods = []PodIn{{OnNode: true, Phase: "Running", Daemon: true, Start: i64(hour), Dnd: Ann{K: "none"}}}
	case "static":
		w.Pool.Static = true
		w.Pods = []PodIn{{OnNode: true, Phase: "Running", Start: i64(hour), Dnd: Ann{K: "none"}}}
	}
	return w
}

var baseKinds = []string{"busy", "empty", "static"}

type modifier struct {
	name  string
	kind  string // "node" (node-level blocker) | "pod" (pod-level blocker) | "method" (method eligibility) | "decoy" (must not block) | "env"
	apply func(w *WorldIn)
}

func runningPod() PodIn {
	return PodIn{OnNode: true, Phase: "Running", Start: i64(hour), Dnd: Ann{K: "none"}}
}

func addPod(w *WorldIn, p PodIn) { w.Pods = append(w.Pods, p) }

const minute = int64(time.Minute)

var modifiers = []modifier{
	// ---- node-level blockers ----
	{"no-claim", "node", func(w *WorldIn) { w.Claim = nil }},
	{"no-node", "node", func(w *WorldIn) { w.Node = nil }},
	{"init-absent", "node", func(w *WorldIn) {
		if w.Node != nil {
			w.Node.Init = ""
		}
	}},
	{"init-false", "node", func(w *WorldIn) {
		if w.Node != nil {
			w.Node.Init = "false"
		}
	}},
	{"marked", "node", func(w *WorldIn) { w.Marked = true }},
	{"claim-deleting", "node", func(w *WorldIn) {
		if w.Claim != nil {
			w.Claim.Deleting = true
		}
	}},
	{"claim-terminating", "node", func(w *WorldIn) {
		if w.Claim != nil {
			w.Claim.Terminating = "True"
		}
	}},
	{"nominated-now", "node", func(w *WorldIn) { w.NominatedAt = i64(w.Now) }},
	{"nominated-edge-in", "node", func(w *WorldIn) { w.NominatedAt = i64(w.Now - window(w.BatchMax) + 1) }},
	{"node-dnd-true", "node", func(w *WorldIn) {
		if w.Node != nil {
			w.Node.Dnd = Ann{K: "true"}
		}
	}},
	{"no-pool-label", "node", func(w *WorldIn) {
		if w.Node != nil {
			w.Node.Pool = ""
		}
	}},
	{"ghost-pool", "node", func(w *WorldIn) {
		if w.Node != nil {
			w.Node.Pool = "ghost"
		}
	}},
	{"pool-missing", "node", func(w *WorldIn) { w.Pool.Exists = false }},
	{"pool-unmanaged", "node", func(w *WorldIn) { w.Pool.Managed = false }},
	{"pool-no-its", "node", func(w *WorldIn) { w.Pool.HasITs = false }},
	{"in-queue", "node", func(w *WorldIn) { w.InQueue = true }},
	// ---- pod-level blockers ----
	{"pod-dnd-true", "pod", func(w *WorldIn) { p := runningPod(); p.Dnd = Ann{K: "true"}; addPod(w, p) }},
	{"pod-dnd-dur-active", "pod", func(w *WorldIn) {
		p := runningPod()
		p.Start = i64(floorSec(w.Now) - 10*sec)
		p.Dnd = Ann{K: "dur", Ns: minute}
		addPod(w, p)
	}},
	{"pod-dnd-dur-edge-in", "pod", func(w *WorldIn) {
		p := runningPod()
		p.Start = i64(floorSec(w.Now) - 5*minute)
		p.Dnd = Ann{K: "dur", Ns: w.Now - *p.Start + 1}
		addPod(w, p)
	}},
	{"pod-dnd-nostart", "pod", func(w *WorldIn) {
		p := runningPod()
		p.Start = nil
		p.Dnd = Ann{K: "dur", Ns: minute}
		addPod(w, p)
	}},
	{"pod-dnd-daemon", "pod", func(w *WorldIn) { p := runningPod(); p.Daemon = true; p.Dnd = Ann{K: "true"}; addPod(w, p) }},
	{"pod-dnd-mirror", "pod", func(w *WorldIn) { p := runningPod(); p.Mirror = true; p.Dnd = Ann{K: "true"}; addPod(w, p) }},
	{"pod-dnd-pending", "pod", func(w *WorldIn) { p := runningPod(); p.Phase = "Pending"; p.Dnd = Ann{K: "true"}; addPod(w, p) }},
	{"pdb-zero", "pod", func(w *WorldIn) {
		p := runningPod()
		p.App = iptr(1)
		addPod(w, p)
		w.Pdbs = append(w.Pdbs, PdbIn{Sel: "app", App: 1, Allowed: 0})
	}},
	{"pdb-two", "pod", func(w *WorldIn) {
		p := runningPod()
		p.App = iptr(2)
		p.Ns = 1
		addPod(w, p)
		w.Pdbs = append(w.Pdbs, PdbIn{Ns: 1, Sel: "app", App: 2, Allowed: 5}, PdbIn{Ns: 1, Sel: "all", Allowed: 5})
	}},
	{"pdb-all-zero-daemon", "pod", func(w *WorldIn) {
		// a DaemonSet pod is evicted by the drain as well: its PDB blocks
		p := runningPod()
		p.Daemon = true
		p.Ns = 2
		addPod(w, p)
		w.Pdbs = append(w.Pdbs, PdbIn{Ns: 2, Sel: "all", Allowed: 0})
	}},
	{"pdb-zero-always-allow-ready", "pod", func(w *WorldIn) {
		p := runningPod()
		p.App = iptr(3)
		addPod(w, p)
		w.Pdbs = append(w.Pdbs, PdbIn{Sel: "app", App: 3, Allowed: 0, AlwaysAllow: true})
	}},
	// ---- method eligibility ----
	{"not-consolidatable", "method", func(w *WorldIn) {
		if w.Claim != nil {
			w.Claim.Consolidatable = ""
		}
	}},
	{"consolidatable-false", "method", func(w *WorldIn) {
		if w.Claim != nil {
			w.Claim.Consolidatable = "False"
		}
	}},
	{"consolidatable-unknown", "method", func(w *WorldIn) {
		if w.Claim != nil {
			w.Claim.Consolidatable = "Unknown"
		}
	}},
	{"consolidate-never", "method", func(w *WorldIn) { w.Pool.ConsolidateAfter = nil }},
	{"consolidate-zero", "decoy", func(w *WorldIn) { w.Pool.ConsolidateAfter = i64(0) }},
	{"policy-whenempty", "method", func(w *WorldIn) { w.Pool.Policy = "WhenEmpty" }},
	{"policy-balanced", "decoy", func(w *WorldIn) { w.Pool.Policy = "Balanced" }},
	{"static-flip", "method", func(w *WorldIn) { w.Pool.Static = !w.Pool.Static }},
	{"buffer", "method", func(w *WorldIn) { w.Buffer = 2 }},
	{"it-unknown", "method", func(w *WorldIn) {
		if w.Node != nil {
			w.Node.IT = "unknown"
		}
	}},
	{"it-absent", "method", func(w *WorldIn) {
		if w.Node != nil {
			w.Node.IT = ""
		}
	}},
	{"no-ct", "method", func(w *WorldIn) {
		if w.Node != nil {
			w.Node.CT = false
		}
	}},
	{"no-zone", "method", func(w *WorldIn) {
		if w.Node != nil {
			w.Node.Zone = false
		}
	}},
	{"not-drifted", "method", func(w *WorldIn) {
		if w.Claim != nil {
			w.Claim.Drifted = ""
		}
	}},
	{"drifted-false", "method", func(w *WorldIn) {
		if w.Claim != nil {
			w.Claim.Drifted = "False"
		}
	}},
	{"tgp-flip", "method", func(w *WorldIn) {
		if w.Claim != nil {
			w.Claim.TGP = !w.Claim.TGP
		}
	}},
	{"add-running-pod", "method", func(w *WorldIn) { addPod(w, runningPod()) }},
	{"add-sts-terminating", "method", func(w *WorldIn) { p := runningPod(); p.Sts = true; p.Terminating = true; addPod(w, p) }},
	{"add-zero-cost-pod", "decoy", func(w *WorldIn) { p := runningPod(); p.DelCost = i64(-(1 << 27)); addPod(w, p) }},
	{"add-tiny-cost-pod", "method", func(w *WorldIn) { p := runningPod(); p.DelCost = i64(-(1 << 27) + 1); addPod(w, p) }},
	{"add-neg-prio-pod", "decoy", func(w *WorldIn) { p := runningPod(); p.Prio = i64(-(1 << 25)); addPod(w, p) }},
	{"add-mixed-cost-pod", "decoy", func(w *WorldIn) {
		p := runningPod()
		p.Prio = i64(-(1 << 25) - 1)
		p.DelCost = i64(4)
		addPod(w, p)
	}},
	{"drop-pods", "method", func(w *WorldIn) { w.Pods = nil }},
	// ---- decoys: look like blockers, must NOT block ----
	{"node-dnd-bad", "decoy", func(w *WorldIn) {
		if w.Node != nil {
			w.Node.Dnd = Ann{K: "bad", Raw: "True"}
		}
	}},
	{"node-dnd-dur", "decoy", func(w *WorldIn) {
		if w.Node != nil {
			w.Node.Dnd = Ann{K: "dur", Ns: hour}
		}
	}},
	{"claim-dnd-true", "decoy", func(w *WorldIn) {
		if w.Claim != nil {
			w.Claim.Dnd = Ann{K: "true"}
		}
	}},
	{"claim-terminating-false", "decoy", func(w *WorldIn) {
		if w.Claim != nil {
			w.Claim.Terminating = "False"
		}
	}},
	{"claim-no-pool-label", "decoy", func(w *WorldIn) {
		if w.Claim != nil {
			w.Claim.Pool = ""
		}
	}},
	{"node-deleting", "decoy", func(w *WorldIn) {
		if w.Node != nil {
			w.Node.Deleting = true
		}
	}},
	{"nominated-expired", "decoy", func(w *WorldIn) { w.NominatedAt = i64(w.Now - window(w.BatchMax)) }},
	{"nominated-long-ago", "decoy", func(w *WorldIn) { w.NominatedAt = i64(w.Now - hour) }},
	{"pod-dnd-expired", "decoy", func(w *WorldIn) {
		p := runningPod()
		p.Start = i64(floorSec(w.Now) - 5*minute)
		p.Dnd = Ann{K: "dur", Ns: w.Now - *p.Start} // age == duration: no longer protected
		addPod(w, p)
	}},
	{"pod-dnd-terminal", "decoy", func(w *WorldIn) { p := runningPod(); p.Phase = "Succeeded"; p.Dnd = Ann{K: "true"}; addPod(w, p) }},
	{"pod-dnd-terminating", "decoy", func(w *WorldIn) { p := runningPod(); p.Terminating = true; p.Dnd = Ann{K: "true"}; addPod(w, p) }},
	{"pod-dnd-bad", "decoy", func(w *WorldIn) { p := runningPod(); p.Dnd = Ann{K: "bad", Raw: "false"}; addPod(w, p) }},
	{"pod-dnd-negative", "decoy", func(w *WorldIn) { p := runningPod(); p.Dnd = Ann{K: "dur", Ns: -minute}; addPod(w, p) }},
	{"pod-dnd-zero", "decoy", func(w *WorldIn) { p := runningPod(); p.Start = nil; p.Dnd = Ann{K: "dur", Ns: 0}; addPod(w, p) }},
	{"pod-dnd-other-node", "decoy", func(w *WorldIn) { p := runningPod(); p.OnNode = false; p.Dnd = Ann{K: "true"}; addPod(w, p) }},
	{"pdb-other-ns", "decoy", func(w *WorldIn) {
		p := runningPod()
		p.App = iptr(4)
		addPod(w, p)
		w.Pdbs = append(w.Pdbs, PdbIn{Ns: 3, Sel: "app", App: 4, Allowed: 0})
	}},
	{"pdb-allowed", "decoy", func(w *WorldIn) {
		p := runningPod()
		p.App = iptr(5)
		addPod(w, p)
		w.Pdbs = append(w.Pdbs, PdbIn{Sel: "app", App: 5, Allowed: 1})
	}},
	{"pdb-nil-selector", "decoy", func(w *WorldIn) {
		p := runningPod()
		p.Ns = 4
		addPod(w, p)
		w.Pdbs = append(w.Pdbs, PdbIn{Ns: 4, Sel: "nil", Allowed: 0})
	}},
	{"pdb-tolerating-pod", "decoy", func(w *WorldIn) {
		p := runningPod()
		p.App = iptr(6)
		p.Tol = "key-exists"
		addPod(w, p)
		w.Pdbs = append(w.Pdbs, PdbIn{Sel: "app", App: 6, Allowed: 0})
	}},
	{"pdb-noexecute-tolerating-pod", "pod", func(w *WorldIn) {
		p := runningPod()
		p.App = iptr(7)
		p.Tol = "key-noexecute"
		addPod(w, p)
		w.Pdbs = append(w.Pdbs, PdbIn{Sel: "app", App: 7, Allowed: 0})
	}},
	{"pdb-always-allow-notready", "decoy", func(w *WorldIn) {
		p := runningPod()
		p.App = iptr(8)
		p.NotReady = true
		addPod(w, p)
		w.Pdbs = append(w.Pdbs, PdbIn{Sel: "app", App: 8, Allowed: 0, AlwaysAllow: true})
	}},
	{"pdb-on-terminal-pod", "decoy", func(w *WorldIn) {
		p := runningPod()
		p.App = iptr(9)
		p.Phase = "Failed"
		addPod(w, p)
		w.Pdbs = append(w.Pdbs, PdbIn{Sel: "app", App: 9, Allowed: 0})
	}},
	{"pdb-on-mirror-pod", "decoy", func(w *WorldIn) {
		p := runningPod()
		p.App = iptr(10)
		p.Mirror = true
		addPod(w, p)
		w.Pdbs = append(w.Pdbs, PdbIn{Sel: "app", App: 10, Allowed: 0})
	}},
	{"pdb-other-node", "decoy", func(w *WorldIn) {
		p := runningPod()
		p.App = iptr(11)
		p.OnNode = false
		addPod(w, p)
		w.Pdbs = append(w.Pdbs, PdbIn{Sel: "app", App: 11, Allowed: 0})
	}},
	{"add-daemon-pod", "decoy", func(w *WorldIn) { p := runningPod(); p.Daemon = true; addPod(w, p) }},
	{"add-mirror-pod", "decoy", func(w *WorldIn) { p := runningPod(); p.Mirror = true; addPod(w, p) }},
	{"add-terminal-pod", "decoy", func(w *WorldIn) { p := runningPod(); p.Phase = "Succeeded"; addPod(w, p) }},
	{"add-terminating-pod", "decoy", func(w *WorldIn) { p := runningPod(); p.Terminating = true; addPod(w, p) }},
	// ---- environment ----
	{"reg-absent", "env", func(w *WorldIn) {
		if w.Node != nil {
			w.Node.Reg = ""
		}
	}},
	{"reupdate", "env", func(w *WorldIn) { w.Reupdate = true }},
	{"reconcile", "env", func(w *WorldIn) { w.Reconcile = true }},
	{"reconcile-under", "method", func(w *WorldIn) {
		// one nanosecond short of consolidateAfter since the last pod event
		w.Reconcile = true
		if w.Claim != nil {
			w.Claim.LastPodEvent = i64(floorSec(w.Now) - 40*sec)
			w.Pool.ConsolidateAfter = i64(w.Now - *w.Claim.LastPodEvent + 1)
		}
	}},
	{"reconcile-edge", "env", func(w *WorldIn) {
		// exactly consolidateAfter since the last pod event
		w.Reconcile = true
		if w.Claim != nil {
			w.Claim.LastPodEvent = i64(floorSec(w.Now) - 40*sec)
			w.Pool.ConsolidateAfter = i64(w.Now - *w.Claim.LastPodEvent)
		}
	}},
	{"reconcile-under-init", "method", func(w *WorldIn) {
		// no pod event yet: the window runs from the Initialized transition
		w.Reconcile = true
		if w.Claim != nil {
			w.Claim.LastPodEvent = nil
			w.Claim.InitAt = floorSec(w.Now) - 40*sec
			w.Pool.ConsolidateAfter = i64(w.Now - w.Claim.InitAt + 1)
		}
	}},
	{"reconcile-fresh", "env", func(w *WorldIn) {
		// the controller must SET the condition
		w.Reconcile = true
		if w.Claim != nil {
			w.Claim.Consolidatable = ""
		}
	}},
	// ---- the same runs of the controller with a fault injected at one of its external calls ----
	{"reconcile-drift-fails", "env", func(w *WorldIn) {
		// the cloud provider's drift check errors; the Consolidation sub-reconciler still has to do its work
		w.Reconcile = true
		w.Fault = &RFault{Drift: "isDrifted"}
	}},
	{"reconcile-under-drift-fails", "method", func(w *WorldIn) {
		// a pod event younger than consolidateAfter on a NodeClaim that is (still) Consolidatable, while the drift
		// check of that run fails: the stale condition must be withdrawn all the same
		w.Reconcile = true
		w.Fault = &RFault{Drift: "isDrifted"}
		if w.Claim != nil {
			w.Claim.LastPodEvent = i64(floorSec(w.Now) - 40*sec)
			w.Pool.ConsolidateAfter = i64(w.Now - *w.Claim.LastPodEvent + 1)
		}
	}},
	{"reconcile-under-drift-notfound", "method", func(w *WorldIn) {
		w.Reconcile = true
		w.Fault = &RFault{Drift: "notFound"}
		if w.Claim != nil {
			w.Claim.LastPodEvent = i64(floorSec(w.Now) - 40*sec)
			w.Pool.ConsolidateAfter = i64(w.Now - *w.Claim.LastPodEvent + 1)
		}
	}},
	{"reconcile-under-its-fail", "method", func(w *WorldIn) {
		// the instance-type lookup of the drift check fails (NodeClaim older than an hour)
		w.Reconcile = true
		w.Fault = &RFault{Drift: "instanceTypes"}
		if w.Claim != nil {
			w.Claim.LastPodEvent = i64(floorSec(w.Now) - 40*sec)
			w.Pool.ConsolidateAfter = i64(w.Now - *w.Claim.LastPodEvent + 1)
		}
	}},
	{"reconcile-under-patch-refused", "env", func(w *WorldIn) {
		// the status write is refused: the controller cannot withdraw the condition in this run (the stale value stays)
		w.Reconcile = true
		w.Fault = &RFault{Patch: "conflict"}
		if w.Claim != nil {
			w.Claim.LastPodEvent = i64(floorSec(w.Now) - 40*sec)
			w.Pool.ConsolidateAfter = i64(w.Now - *w.Claim.LastPodEvent + 1)
		}
	}},
	{"reconcile-under-pool-unreadable", "env", func(w *WorldIn) {
		w.Reconcile = true
		w.Fault = &RFault{PoolGet: "error"}
		if w.Claim != nil {
			w.Claim.LastPodEvent = i64(floorSec(w.Now) - 40*sec)
			w.Pool.ConsolidateAfter = i64(w.Now - *w.Claim.LastPodEvent + 1)
		}
	}},
	{"reconcile-fresh-drift-fails", "env", func(w *WorldIn) {
		// the controller must SET the condition although the drift check fails
		w.Reconcile = true
		w.Fault = &RFault{Drift: "isDrifted"}
		if w.Claim != nil {
			w.Claim.Consolidatable = ""
		}
	}},
	{"claim-uninitialized-cond", "env", func(w *WorldIn) {
		if w.Claim != nil {
			w.Claim.Initialized = "False"
		}
	}},
	{"batch-1s", "env", func(w *WorldIn) { w.BatchMax = sec }},
	{"batch-30s", "env", func(w *WorldIn) { w.BatchMax = 30 * sec }},
}

// order matters for modifiers that read fields other modifiers set (batch before nominated-*, …): environment first.
func applyMods(w *WorldIn, idx ...int) {
	var env, rest []int
	for _, i := range idx {
		if modifiers[i].kind == "env" || modifiers[i].name == "consolidate-zero" || modifiers[i].name == "consolidate-never" {
			env = append(env, i)
		} else {
			rest = append(rest, i)
		}
	}
	for _, i := range env {
		modifiers[i].apply(w)
	}
	for _, i := range rest {
		modifiers[i].apply(w)
	}
}

// EnumIn wraps a world with the names of what was applied (ignored by the model; used for labels).
type CaseIn struct {
	WorldIn
	Base string   `json:"base,omitempty"`
	Mods []string `json:"mods,omitempty"`
}

func mkCase(base string, tgp bool, idx ...int) CaseIn {
	w := baseWorld(base, tgp)
	applyMods(w, idx...)
	c := CaseIn{WorldIn: *w, Base: base}
	if tgp {
		c.Base += "+tgp"
	}
	for _, i := range idx {
		c.Mods = append(c.Mods, modifiers[i].name)
	}
	return c
}

// enumMatrix: every base × tgp alone and with every single modifier (the complete method × blocker matrix), plus
// every pair of modifiers — in all six base worlds when `allBases`, otherwise each pair in one base world (rotating,
// so that every base sees a sixth of the pairs and every blocker meets every base through other partners).
func enumMatrix(allBases bool) []any {
	var out []any
	type bt struct {
		b   string
		tgp bool
	}
	var bases []bt
	for _, b := range baseKinds {
		for _, tgp := range []bool{false, true} {
			bases = append(bases, bt{b, tgp})
		}
	}
	for _, x := range bases {
		out = append(out, mkCase(x.b, x.tgp))
		for i := range modifiers {
			out = append(out, mkCase(x.b, x.tgp, i))
		}
	}
	for i := range modifiers {
		for j := i + 1; j < len(modifiers); j++ {
			if allBases {
				for _, x := range bases {
					out = append(out, mkCase(x.b, x.tgp, i, j))
				}
			} else {
				x := bases[(i+j)%len(bases)]
				out = append(out, mkCase(x.b, x.tgp, i, j))
			}
		}
	}
	return out
}

func pick[T any](r *rand.Rand, xs ...T) T { return xs[r.IntN(len(xs))] }

func genAnn(r *rand.Rand, now int64, start *int64) Ann {
	switch r.IntN(10) {
	case 0, 1, 2, 3:
		return Ann{K: "none"}
	case 4, 5:
		return Ann{K: "true"}
	case 6:
		return Ann{K: "bad", Raw: badValues[r.IntN(len(badValues))]}
	default:
		// a duration; aim at the edge now - start == d when there is a start time
		if start != nil && r.IntN(3) > 0 {
			age := now - *start
			return Ann{K: "dur", Ns: age + pick(r, int64(-1), 0, 1, -sec, sec)}
		}
		return Ann{K: "dur", Ns: pick(r, int64(-minute), 0, 1, sec, minute, hour, 100*hour)}
	}
}

// genFault: a fault for one run of the nodeclaim.disruption controller — mostly a failing drift check (the step
// that runs before the Consolidatable condition is maintained), sometimes an unreadable NodePool or a refused status
// patch, sometimes two at once.
func genFault(r *rand.Rand) *RFault {
	f := &RFault{}
	switch x := r.IntN(10); {
	case x < 6:
		f.Drift = pick(r, driftFaultKinds...)
	case x < 7:
		f.PoolGet = "error"
	case x < 9:
		f.Patch = pick(r, patchFaultKinds...)
	default:
		f.Drift = pick(r, driftFaultKinds...)
		if r.IntN(2) == 0 {
			f.Patch = pick(r, patchFaultKinds...)
		} else {
			f.PoolGet = "error"
		}
	}
	return f
}

func genPod(r *rand.Rand, now int64) PodIn {
	p := PodIn{OnNode: r.IntN(8) > 0, Ns: r.IntN(2), Phase: "Running"}
	if r.IntN(3) > 0 {
		p.App = iptr(r.IntN(3))
	}
	switch r.IntN(12) {
	case 0:
		p.Phase = "Pending"
	case 1:
		p.Phase = "Succeeded"
	case 2:
		p.Phase = "Failed"
	}
	p.Terminating = r.IntN(8) == 0
	p.Daemon = r.IntN(6) == 0
	p.Mirror = r.IntN(10) == 0
	p.Sts = r.IntN(6) == 0
	p.Tol = pick(r, "none", "none", "none", "none", "key-exists", "key-equal", "all", "other-key", "key-noexecute", "key-noschedule")
	if r.IntN(6) > 0 {
		p.Start = i64(floorSec(now) - pick(r, int64(0), sec, minute, 5*minute, hour))
	}
	p.Dnd = genAnn(r, now, p.Start)
	p.NotReady = r.IntN(5) == 0
	if r.IntN(4) == 0 {
		p.DelCost = i64(pick(r, int64(-(1 << 27)), -(1<<27)+1, -(1<<27)-1, -1, 0, 1, 1000, -(1 << 31), (1<<31)-1))
	}
	if r.IntN(4) == 0 {
		p.Prio = i64(pick(r, int64(-(1 << 25)), -(1<<25)+1, -(1<<25)-1, -1, 0, 1000, 1000000000, -(1 << 31)))
	}
	return p
}

func genPdb(r *rand.Rand) PdbIn {
	b := PdbIn{Ns: r.IntN(2), Sel: pick(r, "app", "app", "app", "all", "nil"), App: r.IntN(3), Allowed: int32(pick(r, 0, 0, 0, 1, 2))}
	b.AlwaysAllow = r.IntN(4) == 0
	return b
}

// genWorld: a base world, a few modifiers, extra random pods / PDBs and clock positions near the edges.
func genWorld(r *rand.Rand, thorough bool) any {
	base := baseKinds[r.IntN(len(baseKinds))]
	tgp := r.IntN(2) == 0
	w := baseWorld(base, tgp)
	w.Now = pick(r, nowNs, nowNs+17*sec, 3*hour) + pick(r, int64(0), 0, 1, -1, sec/2)
	for i := range w.Pods {
		w.Pods[i].Start = i64(floorSec(w.Now) - hour)
	}
	w.BatchMax = pick(r, sec, 5*sec, 5*sec+1, 10*sec, 30*sec)
	k := r.IntN(5)
	if thorough {
		k = r.IntN(8)
	}
	var idx []int
	for i := 0; i < k; i++ {
		idx = append(idx, r.IntN(len(modifiers)))
	}
	applyMods(w, idx...)
	for i, n := 0, r.IntN(4); i < n; i++ {
		w.Pods = append(w.Pods, genPod(r, w.Now))
	}
	for i, n := 0, r.IntN(3); i < n; i++ {
		w.Pdbs = append(w.Pdbs, genPdb(r))
	}
	// nomination around the edge of the window
	if r.IntN(3) == 0 {
		win := window(w.BatchMax)
		w.NominatedAt = i64(w.Now - win + pick(r, int64(-1), 0, 1, -sec, sec, win, win-1))
	}
	// consolidateAfter / last pod event around the edge, with the real controller maintaining the condition
	if r.IntN(3) == 0 && w.Claim != nil {
		w.Reconcile = true
		t := floorSec(w.Now) - pick(r, int64(0), sec, 30*sec, 10*minute)
		ca := w.Now - t + pick(r, int64(-1), 0, 1, -sec, sec)
		if ca < 0 || r.IntN(8) == 0 {
			ca = 0
		}
		w.Pool.ConsolidateAfter = i64(ca)
		if r.IntN(2) == 0 {
			w.Claim.LastPodEvent = i64(t)
		} else {
			w.Claim.LastPodEvent = nil
			w.Claim.InitAt = t
		}
		w.Claim.Consolidatable = pick(r, "", "True", "True", "False")
		// half of these runs with a fault at one (sometimes two) of the controller's external calls
		if r.IntN(2) == 0 {
			w.Fault = genFault(r)
		}
	}
	c := CaseIn{WorldIn: *w, Base: "rnd-" + base}
	for _, i := range idx {
		c.Mods = append(c.Mods, modifiers[i].name)
	}
	return c
}
