// Package c16: the four forceful reapers (expiration, garbage collection, liveness, node repair) —
// the REAL controllers on the controller-runtime fake client with a fake clock, a fault-injecting
// interceptor and the fake cloud provider, against the Lean model (Karp/Model/Reapers.lean) and the
// independent specification (Karp/Spec/Reapers.lean).
package c16

import (
	"context"
	"errors"
	"fmt"
	"sync"
	"time"

	"github.com/go-logr/logr"
	corev1 "k8s.io/api/core/v1"
	apierrors "k8s.io/apimachinery/pkg/api/errors"
	"k8s.io/apimachinery/pkg/api/meta"
	metav1 "k8s.io/apimachinery/pkg/apis/meta/v1"
	"k8s.io/apimachinery/pkg/runtime"
	"k8s.io/apimachinery/pkg/runtime/schema"
	"k8s.io/apimachinery/pkg/util/managedfields"
	clientgoapplyconfigurations "k8s.io/client-go/applyconfigurations"
	"k8s.io/client-go/kubernetes/scheme"
	"sigs.k8s.io/controller-runtime/pkg/client"
	"sigs.k8s.io/controller-runtime/pkg/client/fake"
	"sigs.k8s.io/controller-runtime/pkg/client/interceptor"
	crlog "sigs.k8s.io/controller-runtime/pkg/log"

	_ "sigs.k8s.io/karpenter/pkg/apis"
	v1 "sigs.k8s.io/karpenter/pkg/apis/v1"
	"sigs.k8s.io/karpenter/pkg/cloudprovider"
	fakecp "sigs.k8s.io/karpenter/pkg/cloudprovider/fake"
	"sigs.k8s.io/karpenter/pkg/operator/options"
	"sigs.k8s.io/karpenter/pkg/test"
	"sigs.k8s.io/karpenter/pkg/test/v1alpha1"
)

func init() {
	// controller-runtime prints a warning + stack trace if no logger is ever set
	crlog.SetLogger(logr.Discard())
}

// All times in the protocol are int64 nanoseconds relative to t0. Object timestamps (creation, condition
// transitions) are whole seconds, as the API server stores them; the clock has nanosecond resolution.
var t0 = time.Date(2026, 1, 1, 0, 0, 0, 0, time.UTC)

func at(ns int64) time.Time    { return t0.Add(time.Duration(ns)) }
func mt(ns int64) metav1.Time  { return metav1.NewTime(at(ns)) }
func sec(n int64) int64        { return n * int64(time.Second) }
func baseCtx() context.Context { return options.ToContext(context.Background(), test.Options()) }
func nodeClassRef() *v1.NodeClassReference {
	// the node class kind the fake cloud provider supports (=> "managed")
	return &v1.NodeClassReference{Group: "karpenter.test.sh", Kind: "TestNodeClass", Name: "default"}
}
func foreignNodeClassRef() *v1.NodeClassReference {
	return &v1.NodeClassReference{Group: "other.example.com", Kind: "OtherNodeClass", Name: "default"}
}

var _ = v1alpha1.TestNodeClass{}

// fault classes of an injected API failure
func faultErr(class, name string) error {
	switch class {
	case "":
		return nil
	case "notfound":
		return apierrors.NewNotFound(schema.GroupResource{Group: "karpenter.sh", Resource: "injected"}, name)
	case "conflict":
		return apierrors.NewConflict(schema.GroupResource{Group: "karpenter.sh", Resource: "injected"}, name, errors.New("injected conflict"))
	default:
		return apierrors.NewInternalError(errors.New("injected failure"))
	}
}

func nth(xs []string, i int) string {
	if i < len(xs) {
		return xs[i]
	}
	return ""
}

// recorder collects what the controller under test did through the client.
type recorder struct {
	mu      sync.Mutex
	deletes []string // names of NodeClaims for which Delete was called (in call order)
	counts  map[string]int
}

func (r *recorder) bump(k string) int {
	r.mu.Lock()
	defer r.mu.Unlock()
	if r.counts == nil {
		r.counts = map[string]int{}
	}
	n := r.counts[k]
	r.counts[k] = n + 1
	return n
}

func (r *recorder) deleted(name string) int {
	r.mu.Lock()
	defer r.mu.Unlock()
	r.deletes = append(r.deletes, name)
	return len(r.deletes) - 1
}

// clientScheme: only the kinds the four controllers touch (core/v1 + karpenter.sh/v1). The fake client rebuilds a
// REST mapper from its scheme on every Patch, which dominates the run time with the full client-go scheme.
// (karpenter's own GVK lookups keep using the global client-go scheme, as in production.)
var clientScheme = func() *runtime.Scheme {
	s := runtime.NewScheme()
	if err := corev1.AddToScheme(s); err != nil {
		panic(err)
	}
	gv := schema.GroupVersion{Group: "karpenter.sh", Version: "v1"}
	s.AddKnownTypes(gv, &v1.NodePool{}, &v1.NodePoolList{}, &v1.NodeClaim{}, &v1.NodeClaimList{})
	metav1.AddToGroupVersion(s, gv)
	return s
}()

// the fake client's default type converters, built once instead of on every Build()
var typeConverters = func() []managedfields.TypeConverter {
	cgs := runtime.NewScheme()
	if err := scheme.AddToScheme(cgs); err != nil {
		panic(err)
	}
	return []managedfields.TypeConverter{clientgoapplyconfigurations.NewTypeConverter(cgs), managedfields.NewDeducedTypeConverter()}
}()

func newClient(funcs interceptor.Funcs, objs ...client.Object) client.Client {
	return fake.NewClientBuilder().
		WithScheme(clientScheme).
		WithTypeConverters(typeConverters...).
		WithObjects(objs...).
		WithStatusSubresource(&v1.NodeClaim{}, &v1.NodePool{}).
		WithIndex(&corev1.Pod{}, "spec.nodeName", func(o client.Object) []string { return []string{o.(*corev1.Pod).Spec.NodeName} }).
		WithIndex(&corev1.Node{}, "spec.providerID", func(o client.Object) []string { return []string{o.(*corev1.Node).Spec.ProviderID} }).
		WithIndex(&v1.NodeClaim{}, "status.providerID", func(o client.Object) []string { return []string{o.(*v1.NodeClaim).Status.ProviderID} }).
		WithInterceptorFuncs(funcs).
		Build()
}

// fieldSelectorValue returns the value a List call selects `field` by ("" and false if it does not).
func fieldSelectorValue(opts []client.ListOption, field string) (string, bool) {
	lo := &client.ListOptions{}
	lo.ApplyOptions(opts)
	if lo.FieldSelector == nil {
		return "", false
	}
	for _, r := range lo.FieldSelector.Requirements() {
		if r.Field == field {
			return r.Value, true
		}
	}
	return "", false
}

func labelSelectorValue(opts []client.ListOption, key string) (string, bool) {
	lo := &client.ListOptions{}
	lo.ApplyOptions(opts)
	if lo.LabelSelector == nil {
		return "", false
	}
	if v, ok := lo.LabelSelector.RequiresExactMatch(key); ok {
		return v, true
	}
	return "", false
}

// provider wraps the repository's fake cloud provider; List is scripted (instances + failure).
type provider struct {
	*fakecp.CloudProvider
	listErr bool
	// class of the error a failing List returns (providerErrClasses; "" = "err")
	listErrClass string
	// a failing List also returns the instances it had already collected (Go APIs may return both)
	listPartial bool
	instances   []*v1.NodeClaim
}

func (p *provider) List(_ context.Context) ([]*v1.NodeClaim, error) {
	out := make([]*v1.NodeClaim, 0, len(p.instances))
	for _, i := range p.instances {
		out = append(out, i.DeepCopy())
	}
	if p.listErr {
		if p.listPartial {
			return out[:len(out)/2], providerErr(p.listErrClass)
		}
		return nil, providerErr(p.listErrClass)
	}
	return out, nil
}

// Error classes of a failing kube API call (what a real client can return from List / Delete): the typed API
// status errors controllers commonly filter with client.IgnoreNotFound / IsConflict / ..., transport-level
// failures, and the same wrapped once (errors.As / errors.Is see through the wrapping).
var apiErrClasses = []string{"err", "notfound", "notfound-wrapped", "conflict", "timeout", "throttled", "forbidden", "unavailable", "gone", "nomatch", "canceled", "deadline"}

func apiErr(class, name string) error {
	gr := schema.GroupResource{Group: "karpenter.sh", Resource: "injected"}
	switch class {
	case "", "err", "notfound", "conflict": // "" = the call succeeds
		return faultErr(class, name)
	case "notfound-wrapped":
		return fmt.Errorf("injected, %w", apierrors.NewNotFound(gr, name))
	case "timeout":
		return apierrors.NewTimeoutError("injected timeout", 1)
	case "throttled":
		return apierrors.NewTooManyRequests("injected throttling", 1)
	case "forbidden":
		return apierrors.NewForbidden(gr, name, errors.New("injected"))
	case "unavailable":
		return apierrors.NewServiceUnavailable("injected")
	case "gone":
		return apierrors.NewResourceExpired("injected")
	case "nomatch":
		return &meta.NoKindMatchError{GroupKind: schema.GroupKind{Group: "karpenter.sh", Kind: "Injected"}, SearchedVersions: []string{"v1"}}
	case "canceled":
		return context.Canceled
	case "deadline":
		return fmt.Errorf("injected, %w", context.DeadlineExceeded)
	}
	panic("unknown api error class " + class)
}

func orErr(class string) string {
	if class == "" {
		return "err"
	}
	return class
}

// Error classes of a failing cloudProvider call: karpenter's own typed provider errors (each has an
// Is.../Ignore... helper that call sites of Get / Delete / Create use), bare / wrapped / joined, a kube API
// NotFound (providers backed by API objects, e.g. kwok), transport-level failures and an untyped error.
var providerErrClasses = []string{"err", "nodeclaim-notfound", "nodeclaim-notfound-wrapped", "nodeclaim-notfound-joined",
	"insufficient-capacity", "nodeclass-not-ready", "create-error", "api-notfound", "api-notfound-wrapped", "canceled", "deadline"}

func providerErr(class string) error {
	base := errors.New("injected provider failure")
	switch class {
	case "", "err":
		return base
	case "nodeclaim-notfound":
		return cloudprovider.NewNodeClaimNotFoundError(base)
	case "nodeclaim-notfound-wrapped":
		return fmt.Errorf("listing instances, %w", cloudprovider.NewNodeClaimNotFoundError(base))
	case "nodeclaim-notfound-joined":
		return errors.Join(cloudprovider.NewNodeClaimNotFoundError(base), errors.New("second injected provider failure"))
	case "insufficient-capacity":
		return cloudprovider.NewInsufficientCapacityError(base)
	case "nodeclass-not-ready":
		return cloudprovider.NewNodeClassNotReadyError(base)
	case "create-error":
		return cloudprovider.NewCreateError(base, "Injected", "injected")
	case "api-notfound":
		return apierrors.NewNotFound(schema.GroupResource{Group: "karpenter.test.sh", Resource: "instances"}, "injected")
	case "api-notfound-wrapped":
		return fmt.Errorf("listing instances, %w", apierrors.NewNotFound(schema.GroupResource{Group: "karpenter.test.sh", Resource: "instances"}, "injected"))
	case "canceled":
		return context.Canceled
	case "deadline":
		return fmt.Errorf("listing instances, %w", context.DeadlineExceeded)
	}
	panic("unknown provider error class " + class)
}

func newProvider() *provider {
	return &provider{CloudProvider: fakecp.NewCloudProvider()}
}

func condStatus(s string) metav1.ConditionStatus {
	switch s {
	case "True":
		return metav1.ConditionTrue
	case "False":
		return metav1.ConditionFalse
	}
	return metav1.ConditionUnknown
}
