package c16

import (
	"context"
	"encoding/json"
	"fmt"
	"math/rand/v2"
	"time"

	corev1 "k8s.io/api/core/v1"
	apierrors "k8s.io/apimachinery/pkg/api/errors"
	metav1 "k8s.io/apimachinery/pkg/apis/meta/v1"
	"k8s.io/apimachinery/pkg/types"
	clocktesting "k8s.io/utils/clock/testing"
	"sigs.k8s.io/controller-runtime/pkg/client"
	"sigs.k8s.io/controller-runtime/pkg/client/interceptor"

	v1 "sigs.k8s.io/karpenter/pkg/apis/v1"
	"sigs.k8s.io/karpenter/pkg/cloudprovider"
	"sigs.k8s.io/karpenter/pkg/controllers/node/health"
	"sigs.k8s.io/karpenter/pkg/test"

	"verifharness/internal/core"
)

// c16.repair_seq: ONE node/health controller reconciling the Nodes of an evolving cluster again and again on one
// fake client: conditions flip, Nodes start terminating (deletion timestamp, kept by the finalizer while they
// drain - as after an earlier repair), Nodes and their NodeClaims disappear. Every Node has its own NodeClaim.

type SeqNode struct {
	RNode
	ClaimPool     string `json:"claimPool"`               // nodepool label on the Node's NodeClaim; "" = standalone
	NoClaim       bool   `json:"noClaim,omitempty"`       // a Node without a NodeClaim (not managed by karpenter)
	ClaimDeleting bool   `json:"claimDeleting,omitempty"` // the NodeClaim already has a deletion timestamp
}

type SeqEvent struct {
	Op string `json:"op"` // "reconcile" | "cond" | "terminate" | "gone"
	K  int    `json:"k"`  // index into nodes
	// reconcile: clock position and the outcome of the Node list / of the Delete, if issued
	Now           int64  `json:"now"`
	NodeListFault string `json:"nodeListFault,omitempty"`
	DeleteFault   string `json:"deleteFault,omitempty"`
	// cond: the condition set on the Node (replaces the condition of that type)
	Type   string `json:"type"`
	Status string `json:"status"`
	Since  int64  `json:"since"`
}

type RepairSeqIn struct {
	Policies []RPolicy  `json:"policies"`
	Nodes    []SeqNode  `json:"nodes"`
	Events   []SeqEvent `json:"events"`
}

type RepairSeqOut struct {
	Steps []ReapOut `json:"steps"` // one per reconcile event, in order
}

func setCond(conds []RCond, c RCond) []RCond {
	out := make([]RCond, 0, len(conds)+1)
	found := false
	for _, x := range conds {
		if x.Type == c.Type {
			out = append(out, c)
			found = true
		} else {
			out = append(out, x)
		}
	}
	if !found {
		out = append(out, c)
	}
	return out
}

// condition of a policy's type with a status that matches no policy for that type ("", false if there is none)
func healthyStatus(ps []RPolicy, typ string) (string, bool) {
	for _, st := range condStatuses {
		ok := true
		for _, p := range ps {
			if p.Type == typ && p.Status == st {
				ok = false
			}
		}
		if ok {
			return st, true
		}
	}
	return "", false
}

func genRepairSeq(r *rand.Rand, _ core.Tier) any {
	in := RepairSeqIn{Policies: []RPolicy{}, Nodes: []SeqNode{}, Events: []SeqEvent{}}
	np := 1 + r.IntN(2)
	for i := 0; i < np; i++ {
		in.Policies = append(in.Policies, RPolicy{Type: pick(r, condTypes), Status: pick(r, condStatuses), TolerationNs: pick(r, tolerations)})
	}
	base := sec(r.Int64N(100000))
	mode := "random"
	switch x := r.Float64(); {
	case x < 0.35:
		mode = "cascade" // repair up to the budget, the repaired Nodes start draining, more Nodes turn unhealthy
	case x < 0.5:
		mode = "mixed-pools"
	}
	n := 2 + r.IntN(11)
	thr := (n*20 + 99) / 100
	var u int
	switch x := r.Float64(); {
	case mode == "cascade" || x < 0.35:
		u = thr
	case x < 0.6:
		u = thr + 1
	case x < 0.7:
		u = thr - 1
	default:
		u = r.IntN(n + 1)
	}
	if u < 0 {
		u = 0
	}
	if u > n {
		u = n
	}
	for i := 0; i < n; i++ {
		pool := "a"
		if mode == "mixed-pools" {
			pool = pick(r, []string{"a", "a", "b", ""})
		}
		nd := SeqNode{RNode: RNode{Name: fmt.Sprintf("node-%02d", i), Pool: pool, Conds: genConds(r, in.Policies, i < u, base)}, ClaimPool: pool}
		if mode != "cascade" {
			if r.Float64() < 0.05 {
				nd.NoClaim = true
			}
			if r.Float64() < 0.05 { // the Node's own label differs from the claim's
				nd.Pool = pick(r, []string{"a", "b", ""})
			}
			if r.Float64() < 0.12 {
				nd.Terminating = true
				nd.ClaimDeleting = r.Float64() < 0.6
			}
		}
		in.Nodes = append(in.Nodes, nd)
	}
	r.Shuffle(len(in.Nodes), func(i, j int) { in.Nodes[i], in.Nodes[j] = in.Nodes[j], in.Nodes[i] })
	for i := range in.Nodes {
		in.Nodes[i].Name = fmt.Sprintf("node-%02d", i)
	}
	// generator-side view of the cluster (conditions / presence only), to aim the events
	conds := make([][]RCond, n)
	gone := make([]bool, n)
	for i := range in.Nodes {
		conds[i] = in.Nodes[i].Conds
	}
	unhealthyIdx := func() []int {
		var out []int
		for i := range conds {
			if !gone[i] && matchesPolicy(in.Policies, conds[i]) {
				out = append(out, i)
			}
		}
		return out
	}
	healthyIdx := func() []int {
		var out []int
		for i := range conds {
			if !gone[i] && !matchesPolicy(in.Policies, conds[i]) {
				out = append(out, i)
			}
		}
		return out
	}
	// the clock starts where every initial condition is past its toleration (cascade) or around the edge of one
	maxTol := int64(0)
	for _, p := range in.Policies {
		if p.TolerationNs > maxTol {
			maxTol = p.TolerationNs
		}
	}
	now := base + sec(600) + maxTol + r.Int64N(sec(600))
	if mode != "cascade" && r.Float64() < 0.4 {
		if us := unhealthyIdx(); len(us) > 0 {
			if t, ok := minTermination(in.Policies, conds[pick(r, us)]); ok {
				now = t + pick(r, []int64{-1, 0, 0, 1})
			}
		}
	}
	if now < 0 {
		now = 0
	}
	advance := func() {
		now += pick(r, []int64{0, 0, 1, sec(1), sec(1), sec(30), sec(300), sec(1800)})
	}
	reconcile := func(k int) {
		ev := SeqEvent{Op: "reconcile", K: k, Now: now}
		if mode != "cascade" {
			if r.Float64() < 0.04 {
				ev.NodeListFault = pick(r, []string{"err", "notfound", "err", "notfound", pick(r, apiErrClasses)})
			}
			if r.Float64() < 0.04 {
				ev.DeleteFault = pick(r, []string{"err", "notfound", "err", "notfound", pick(r, apiErrClasses)})
			}
		}
		in.Events = append(in.Events, ev)
	}
	sicken := func(k int) bool {
		if len(in.Policies) == 0 {
			return false
		}
		p := pick(r, in.Policies)
		// the transition lies in the past, often far enough for the toleration to have lasted already
		since := (now/int64(time.Second))*int64(time.Second) - sec(r.Int64N(3000))
		if since < 0 {
			since = 0
		}
		conds[k] = setCond(conds[k], RCond{Type: p.Type, Status: p.Status, Since: since})
		in.Events = append(in.Events, SeqEvent{Op: "cond", K: k, Type: p.Type, Status: p.Status, Since: since})
		return true
	}
	heal := func(k int) {
		for _, c := range conds[k] {
			for _, p := range in.Policies {
				if c.Type == p.Type && c.Status == p.Status {
					if st, ok := healthyStatus(in.Policies, c.Type); ok {
						since := (now / int64(time.Second)) * int64(time.Second)
						conds[k] = setCond(conds[k], RCond{Type: c.Type, Status: st, Since: since})
						in.Events = append(in.Events, SeqEvent{Op: "cond", K: k, Type: c.Type, Status: st, Since: since})
					}
					return
				}
			}
		}
	}
	if mode == "cascade" {
		us := unhealthyIdx()
		r.Shuffle(len(us), func(i, j int) { us[i], us[j] = us[j], us[i] })
		for _, k := range us {
			reconcile(k)
			advance()
		}
		for _, k := range us {
			if r.Float64() < 0.85 {
				in.Events = append(in.Events, SeqEvent{Op: "terminate", K: k})
			}
		}
		if r.Float64() < 0.2 && len(us) > 0 { // one of them is already gone
			k := pick(r, us)
			gone[k] = true
			in.Events = append(in.Events, SeqEvent{Op: "gone", K: k})
		}
		more := 1 + r.IntN(2)
		var fresh []int
		for i := 0; i < more; i++ {
			if hs := healthyIdx(); len(hs) > 0 {
				k := pick(r, hs)
				if sicken(k) {
					fresh = append(fresh, k)
				}
			}
		}
		now += maxTol + sec(3000) + r.Int64N(sec(100)) // every toleration has lasted
		for _, k := range fresh {
			reconcile(k)
			advance()
		}
		for _, k := range us { // the earlier ones are reconciled again
			if r.Float64() < 0.5 {
				reconcile(k)
			}
		}
	} else {
		for i, ne := 0, 4+r.IntN(14); i < ne; i++ {
			switch x := r.Float64(); {
			case x < 0.55:
				k := r.IntN(n)
				if us := unhealthyIdx(); len(us) > 0 && r.Float64() < 0.75 {
					k = pick(r, us)
				}
				reconcile(k)
			case x < 0.68:
				if hs := healthyIdx(); len(hs) > 0 {
					sicken(pick(r, hs))
				}
			case x < 0.74:
				if us := unhealthyIdx(); len(us) > 0 {
					heal(pick(r, us))
				}
			case x < 0.92:
				k := r.IntN(n)
				if us := unhealthyIdx(); len(us) > 0 && r.Float64() < 0.75 {
					k = pick(r, us)
				}
				in.Events = append(in.Events, SeqEvent{Op: "terminate", K: k})
			default:
				k := r.IntN(n)
				gone[k] = true
				in.Events = append(in.Events, SeqEvent{Op: "gone", K: k})
			}
			advance()
		}
	}
	return in
}

func implRepairSeq(raw json.RawMessage) (any, error) {
	var in RepairSeqIn
	if err := json.Unmarshal(raw, &in); err != nil {
		return nil, err
	}
	claimName := func(i int) string { return fmt.Sprintf("nc-%02d", i) }
	var objs []client.Object
	for i, n := range in.Nodes {
		node := &corev1.Node{
			// every Node carries the termination finalizer, as every Node karpenter registers does
			ObjectMeta: metav1.ObjectMeta{Name: n.Name, UID: types.UID("uid-" + n.Name), CreationTimestamp: mt(sec(int64(i))), Labels: map[string]string{"kubernetes.io/hostname": n.Name}, Finalizers: []string{v1.TerminationFinalizer}},
			Spec:       corev1.NodeSpec{ProviderID: fmt.Sprintf("fake://i-s%02d", i)},
		}
		if n.Pool != "" {
			node.Labels[v1.NodePoolLabelKey] = n.Pool
		}
		for _, c := range n.Conds {
			node.Status.Conditions = append(node.Status.Conditions, corev1.NodeCondition{Type: corev1.NodeConditionType(c.Type), Status: corev1.ConditionStatus(c.Status), LastTransitionTime: mt(c.Since)})
		}
		objs = append(objs, node)
		if !n.NoClaim {
			nc := &v1.NodeClaim{
				ObjectMeta: metav1.ObjectMeta{Name: claimName(i), UID: types.UID("uid-" + claimName(i)), CreationTimestamp: mt(0), Finalizers: []string{v1.TerminationFinalizer}, Labels: map[string]string{}},
				Spec:       v1.NodeClaimSpec{NodeClassRef: nodeClassRef()},
				Status:     v1.NodeClaimStatus{ProviderID: node.Spec.ProviderID, NodeName: n.Name},
			}
			if n.ClaimPool != "" {
				nc.Labels[v1.NodePoolLabelKey] = n.ClaimPool
			}
			objs = append(objs, nc)
		}
	}
	for _, p := range []string{"a", "b"} {
		objs = append(objs, &v1.NodePool{ObjectMeta: metav1.ObjectMeta{Name: p, UID: types.UID("uid-pool-" + p), CreationTimestamp: mt(0)}})
	}
	rec := &recorder{}
	armed := false
	var cur SeqEvent
	c := newClient(interceptor.Funcs{
		List: func(ctx context.Context, w client.WithWatch, list client.ObjectList, opts ...client.ListOption) error {
			if _, ok := list.(*corev1.NodeList); ok && armed {
				if err := apiErr(cur.NodeListFault, "nodes"); err != nil {
					return err
				}
			}
			return w.List(ctx, list, opts...)
		},
		Delete: func(ctx context.Context, w client.WithWatch, obj client.Object, opts ...client.DeleteOption) error {
			if _, ok := obj.(*v1.NodeClaim); ok && armed {
				rec.deleted(obj.GetName())
				if err := apiErr(cur.DeleteFault, obj.GetName()); err != nil {
					return err
				}
			}
			return w.Delete(ctx, obj, opts...)
		},
	}, objs...)
	ctx := baseCtx()
	getNode := func(k int) (*corev1.Node, error) {
		if k < 0 || k >= len(in.Nodes) {
			return nil, nil
		}
		node := &corev1.Node{}
		if err := c.Get(ctx, client.ObjectKey{Name: in.Nodes[k].Name}, node); err != nil {
			if apierrors.IsNotFound(err) {
				return nil, nil
			}
			return nil, fmt.Errorf("setup: %w", err)
		}
		return node, nil
	}
	terminate := func(k int) error {
		node, err := getNode(k)
		if err != nil || node == nil {
			return err
		}
		if node.DeletionTimestamp.IsZero() {
			if err := c.Delete(ctx, node); err != nil {
				return fmt.Errorf("setup: %w", err)
			}
		}
		return nil
	}
	// finalize removes an object for good: delete, then drop the finalizers
	finalize := func(obj client.Object) error {
		if err := c.Get(ctx, client.ObjectKeyFromObject(obj), obj); err != nil {
			return client.IgnoreNotFound(err)
		}
		if obj.GetDeletionTimestamp().IsZero() {
			if err := c.Delete(ctx, obj); err != nil {
				return err
			}
			if err := c.Get(ctx, client.ObjectKeyFromObject(obj), obj); err != nil {
				return client.IgnoreNotFound(err)
			}
		}
		obj.SetFinalizers(nil)
		return client.IgnoreNotFound(c.Update(ctx, obj))
	}
	for i, n := range in.Nodes {
		if n.Terminating {
			if err := terminate(i); err != nil {
				return nil, err
			}
		}
		if n.ClaimDeleting && !n.NoClaim {
			if err := c.Delete(ctx, &v1.NodeClaim{ObjectMeta: metav1.ObjectMeta{Name: claimName(i)}}); err != nil {
				return nil, fmt.Errorf("setup: %w", err)
			}
		}
	}
	cp := newProvider()
	cp.RepairPolicy = nil
	for _, p := range in.Policies {
		cp.RepairPolicy = append(cp.RepairPolicy, cloudprovider.RepairPolicy{ConditionType: corev1.NodeConditionType(p.Type), ConditionStatus: corev1.ConditionStatus(p.Status), TolerationDuration: time.Duration(p.TolerationNs)})
	}
	clk := clocktesting.NewFakeClock(at(0))
	ctrl := health.NewController(c, cp, clk, test.NewEventRecorder())
	out := RepairSeqOut{Steps: []ReapOut{}}
	for _, ev := range in.Events {
		switch ev.Op {
		case "reconcile":
			node, err := getNode(ev.K)
			if err != nil {
				return nil, err
			}
			if node == nil { // the Node is gone: there is nothing to reconcile
				out.Steps = append(out.Steps, ReapOut{})
				continue
			}
			clk.SetTime(at(ev.Now))
			before := len(rec.deletes)
			cur, armed = ev, true
			res, rerr := ctrl.Reconcile(ctx, node)
			armed = false
			out.Steps = append(out.Steps, ReapOut{Deletes: len(rec.deletes) - before, RequeueNs: int64(res.RequeueAfter), Err: rerr != nil})
		case "cond":
			node, err := getNode(ev.K)
			if err != nil {
				return nil, err
			}
			if node == nil {
				continue
			}
			nc := corev1.NodeCondition{Type: corev1.NodeConditionType(ev.Type), Status: corev1.ConditionStatus(ev.Status), LastTransitionTime: mt(ev.Since)}
			found := false
			for i := range node.Status.Conditions {
				if node.Status.Conditions[i].Type == nc.Type {
					node.Status.Conditions[i] = nc
					found = true
				}
			}
			if !found {
				node.Status.Conditions = append(node.Status.Conditions, nc)
			}
			// Node status is a subresource on the fake client as on the API server
			if err := c.Status().Update(ctx, node); err != nil {
				return nil, fmt.Errorf("setup: %w", err)
			}
			chk, err := getNode(ev.K)
			if err != nil || chk == nil {
				return nil, fmt.Errorf("setup: node %d vanished during a condition update (%v)", ev.K, err)
			}
			took := false
			for _, x := range chk.Status.Conditions {
				if x.Type == nc.Type {
					took = x.Status == nc.Status && x.LastTransitionTime.Equal(&nc.LastTransitionTime)
					break
				}
			}
			if !took {
				return nil, fmt.Errorf("setup: condition update of node %d did not take", ev.K)
			}
		case "terminate":
			if err := terminate(ev.K); err != nil {
				return nil, err
			}
		case "gone":
			if ev.K < 0 || ev.K >= len(in.Nodes) {
				continue
			}
			if err := finalize(&corev1.Node{ObjectMeta: metav1.ObjectMeta{Name: in.Nodes[ev.K].Name}}); err != nil {
				return nil, fmt.Errorf("setup: %w", err)
			}
			if err := finalize(&v1.NodeClaim{ObjectMeta: metav1.ObjectMeta{Name: claimName(ev.K)}}); err != nil {
				return nil, fmt.Errorf("setup: %w", err)
			}
		default:
			return nil, fmt.Errorf("bad event %q", ev.Op)
		}
	}
	return out, nil
}

// seqWalk replays the events on the harness-side view of the cluster (conditions, terminating, presence) and
// calls f at every reconcile of a present Node with: the event, the population the breaker counts (n), its
// unhealthy Nodes (u) and the terminating ones among them (ut), and whether the reconciled Node is unhealthy.
func seqWalk(in *RepairSeqIn, f func(ev SeqEvent, n, u, ut int, targetUnhealthy bool)) {
	type st struct {
		conds       []RCond
		term, gone  bool
		pool, cpool string
		noClaim     bool
	}
	s := make([]st, len(in.Nodes))
	for i, n := range in.Nodes {
		s[i] = st{conds: n.Conds, term: n.Terminating, pool: n.Pool, cpool: n.ClaimPool, noClaim: n.NoClaim}
	}
	for _, ev := range in.Events {
		if ev.K < 0 || ev.K >= len(s) || s[ev.K].gone {
			continue
		}
		switch ev.Op {
		case "reconcile":
			n, u, ut := 0, 0, 0
			for _, x := range s {
				if x.gone || (s[ev.K].cpool != "" && x.pool != s[ev.K].cpool) {
					continue
				}
				n++
				if matchesPolicy(in.Policies, x.conds) {
					u++
					if x.term {
						ut++
					}
				}
			}
			f(ev, n, u, ut, !s[ev.K].noClaim && matchesPolicy(in.Policies, s[ev.K].conds))
		case "cond":
			s[ev.K].conds = setCond(s[ev.K].conds, RCond{Type: ev.Type, Status: ev.Status, Since: ev.Since})
		case "terminate":
			s[ev.K].term = true
		case "gone":
			s[ev.K].gone = true
		}
	}
}

func repairSeqLabels(raw json.RawMessage, impl any) []string {
	var in RepairSeqIn
	json.Unmarshal(raw, &in)
	l := []string{fmt.Sprintf("nodes=%d", len(in.Nodes))}
	kinds := map[string]int{}
	for _, ev := range in.Events {
		kinds[ev.Op]++
		if ev.NodeListFault != "" {
			l = append(l, "fault:nodeList", "fault:nodeList:"+ev.NodeListFault)
		}
		if ev.DeleteFault != "" {
			l = append(l, "fault:delete", "fault:delete:"+ev.DeleteFault)
		}
	}
	for k, v := range kinds {
		b := "1-2"
		switch {
		case v > 8:
			b = "9+"
		case v > 2:
			b = "3-8"
		}
		l = append(l, "events:"+k+"="+b)
	}
	seen := map[string]bool{}
	seqWalk(&in, func(ev SeqEvent, n, u, ut int, tu bool) {
		if !tu {
			seen["reconcile:target-healthy-or-unmanaged"] = true
			return
		}
		thr := (n*20 + 99) / 100
		switch {
		case u > thr && u-ut <= thr:
			seen["reconcile:breaker-open-only-with-terminating"] = true
		case u > thr:
			seen["reconcile:breaker-open"] = true
		case u == thr:
			seen["reconcile:breaker-at-threshold"] = true
		default:
			seen["reconcile:breaker-below"] = true
		}
		if ut > 0 {
			seen["reconcile:unhealthy-terminating-present"] = true
		}
	})
	for k := range seen {
		l = append(l, k)
	}
	dels := 0
	if m, ok := impl.(map[string]any); ok {
		if steps, ok := m["steps"].([]any); ok {
			for _, s := range steps {
				if implDeletes(s) {
					dels++
				}
			}
		}
	}
	switch {
	case dels == 0:
		l = append(l, "deletes=0")
	case dels == 1:
		l = append(l, "deletes=1")
	default:
		l = append(l, "deletes>=2")
	}
	return l
}

func repairSeqNontrivial(raw json.RawMessage, _ any) bool {
	var in RepairSeqIn
	json.Unmarshal(raw, &in)
	ok := false
	seqWalk(&in, func(ev SeqEvent, n, u, ut int, tu bool) {
		if tu {
			ok = true
		}
	})
	return ok
}

func repairSeqShrink(raw json.RawMessage) []any {
	var in RepairSeqIn
	json.Unmarshal(raw, &in)
	var out []any
	for _, e := range core.ShrinkList(in.Events) {
		x := in
		x.Events = e
		out = append(out, x)
	}
	// drop the last Node if no event refers to it
	if n := len(in.Nodes); n > 1 {
		used := false
		for _, ev := range in.Events {
			if ev.K == n-1 {
				used = true
			}
		}
		if !used {
			x := in
			x.Nodes = append([]SeqNode{}, in.Nodes[:n-1]...)
			out = append(out, x)
		}
	}
	return out
}
