package c16

import (
	"context"
	"encoding/json"
	"errors"
	"fmt"
	"math/rand/v2"
	"time"

	"github.com/awslabs/operatorpkg/status"
	metav1 "k8s.io/apimachinery/pkg/apis/meta/v1"
	"k8s.io/apimachinery/pkg/types"
	clocktesting "k8s.io/utils/clock/testing"
	"sigs.k8s.io/controller-runtime/pkg/client"
	"sigs.k8s.io/controller-runtime/pkg/client/interceptor"

	v1 "sigs.k8s.io/karpenter/pkg/apis/v1"
	"sigs.k8s.io/karpenter/pkg/controllers/nodeclaim/lifecycle"
	"sigs.k8s.io/karpenter/pkg/state/nodepoolhealth"
	"sigs.k8s.io/karpenter/pkg/test"

	"verifharness/internal/core"
)

// LiveIn: one NodeClaim handed to the lifecycle controller (launch, registration, initialization, liveness).
type LiveIn struct {
	Managed       bool     `json:"managed"`
	Deleting      bool     `json:"deleting"`
	Launched      string   `json:"launched"`   // "True" | "False" | "Unknown" | "" (condition absent)
	LaunchedAt    int64    `json:"launchedAt"` // last transition, ns since t0 (whole seconds)
	Registered    string   `json:"registered"`
	RegisteredAt  int64    `json:"registeredAt"`
	Created       int64    `json:"created"`
	Now           int64    `json:"now"`
	CreateOutcome string   `json:"createOutcome"` // "ok" | "err": what cloudProvider.Create does if the launch step calls it
	Pool          string   `json:"pool"`          // "" (no nodepool label) | "missing" | "owned" | "foreign"
	PoolCond      string   `json:"poolCond"`      // NodeRegistrationHealthy on the NodePool: "True" | "False" | "Unknown" | ""
	Prior         []bool   `json:"prior"`         // launch outcomes recorded earlier for the pool (oldest first)
	GetFaults     []string `json:"getFaults"`     // outcome of the i-th NodePool Get: "" | "err" | "notfound" | "conflict"
	PatchFaults   []string `json:"patchFaults"`   // outcome of the i-th NodePool status patch
	DeleteFaults  []string `json:"deleteFaults"`  // outcome of the i-th NodeClaim Delete: "" | "err" | "notfound"
	// frame: durations the NodeClaim carries that are no part of the liveness trigger (null = unset / Never)
	ClaimTGP         *int64 `json:"claimTgp,omitempty"`         // spec.terminationGracePeriod, ns
	ClaimExpireAfter *int64 `json:"claimExpireAfter,omitempty"` // spec.expireAfter, ns
}

type LiveOut struct {
	Deletes int  `json:"deletes"`
	Err     bool `json:"err"`
}

const regTimeoutHint = 15 * time.Minute // generator hint only; the model takes the value from the regenerated facts

var getFaultClasses = []string{"err", "notfound", "conflict"}
var delFaultClasses = []string{"err", "notfound"}

// the random stream draws the classes the code tells apart three times as often as the remaining apiErrClasses
// (Timeout, TooManyRequests, Forbidden, wrapped NotFound, context errors, ...: "just an error" for the model)
var getFaultClassesGen = append(append(append(append([]string{}, getFaultClasses...), getFaultClasses...), getFaultClasses...), apiErrClasses...)
var delFaultClassesGen = append(append(append(append([]string{}, delFaultClasses...), delFaultClasses...), delFaultClasses...), apiErrClasses...)

func genFaultList(r *rand.Rand, classes []string, p float64) []string {
	out := []string{}
	for i := 0; i < 2; i++ {
		if r.Float64() < p {
			out = append(out, pick(r, classes))
		} else {
			out = append(out, "")
		}
	}
	for len(out) > 0 && out[len(out)-1] == "" {
		out = out[:len(out)-1]
	}
	return out
}

func genLive(r *rand.Rand, _ core.Tier) any {
	in := LiveIn{Managed: r.Float64() < 0.95, Deleting: r.Float64() < 0.05, Created: sec(r.Int64N(100000)), Prior: []bool{}}
	switch x := r.Float64(); {
	case x < 0.40:
		in.Launched = "True"
	case x < 0.75:
		in.Launched = "Unknown"
	case x < 0.87:
		in.Launched = "False"
	default:
		in.Launched = ""
	}
	switch x := r.Float64(); {
	case x < 0.6:
		in.Registered = "Unknown"
	case x < 0.75:
		in.Registered = ""
	case x < 0.87:
		in.Registered = "False"
	default:
		in.Registered = "True"
	}
	in.LaunchedAt, in.RegisteredAt = in.Created, in.Created
	if in.Launched != "" && r.Float64() < 0.6 {
		in.LaunchedAt = in.Created + sec(r.Int64N(400))
	}
	if in.Registered != "" && r.Float64() < 0.5 {
		in.RegisteredAt = in.Created + sec(r.Int64N(700))
	}
	lEdge := in.LaunchedAt + int64(lifecycle.LaunchTimeout)
	rEdge := in.RegisteredAt + int64(regTimeoutHint)
	switch x := r.Float64(); {
	case x < 0.4:
		in.Now = lEdge + genDelta(r)
	case x < 0.8:
		in.Now = rEdge + genDelta(r)
	case x < 0.9:
		in.Now = in.Created + r.Int64N(sec(3600))
	default:
		in.Now = max(lEdge, rEdge) + r.Int64N(sec(3600))
	}
	// frame: 40% of the NodeClaims carry a terminationGracePeriod, 50% an expireAfter (also shorter than the
	// timeouts); with a grace period g, 25% of the clocks are drawn inside [edge - g, edge) of one of the timeouts
	if r.Float64() < 0.4 {
		g := pick(r, []int64{0, sec(1), sec(30), sec(120), sec(600), sec(3600)})
		in.ClaimTGP = &g
		if g > 0 && r.Float64() < 0.25 {
			in.Now = pick(r, []int64{lEdge, rEdge}) - g + r.Int64N(g)
		}
	}
	if r.Float64() < 0.5 {
		e := pick(r, []int64{0, sec(60), sec(299), sec(300), sec(600), sec(900), sec(3600), sec(720 * 3600)})
		in.ClaimExpireAfter = &e
	}
	if in.Now < in.Created {
		in.Now = in.Created
	}
	in.CreateOutcome = pick(r, []string{"ok", "err", "err"})
	in.Pool = pick(r, []string{"", "missing", "owned", "owned", "owned", "foreign"})
	in.PoolCond = pick(r, []string{"", "Unknown", "True", "False"})
	for i, n := 0, r.IntN(6); i < n; i++ {
		in.Prior = append(in.Prior, r.Float64() < 0.5)
	}
	in.GetFaults = genFaultList(r, getFaultClassesGen, 0.12)
	in.PatchFaults = genFaultList(r, getFaultClassesGen, 0.15)
	in.DeleteFaults = genFaultList(r, delFaultClassesGen, 0.12)
	return in
}

// launched x registered x clock at each timeout edge (-1ns, 0, +1ns) x every single fault position
func enumLive(_ core.Tier) []any {
	var out []any
	type fp struct{ get, patch, del []string }
	faults := []fp{{}}
	for _, c := range getFaultClasses {
		faults = append(faults, fp{get: []string{c}}, fp{get: []string{"", c}}, fp{patch: []string{c}}, fp{patch: []string{"", c}})
	}
	for _, c := range delFaultClasses {
		faults = append(faults, fp{del: []string{c}}, fp{del: []string{"", c}})
	}
	created := sec(5000)
	for _, launched := range []string{"True", "Unknown", "False", ""} {
		for _, registered := range []string{"Unknown", "False", "True", ""} {
			for _, edge := range []int64{int64(lifecycle.LaunchTimeout), int64(regTimeoutHint)} {
				for _, d := range []int64{-1, 0, 1} {
					for _, f := range faults {
						for _, prior := range [][]bool{{}, {false}} {
							in := LiveIn{Managed: true, Launched: launched, LaunchedAt: created, Registered: registered, RegisteredAt: created, Created: created,
								Now: created + edge + d, CreateOutcome: "err", Pool: "owned", PoolCond: "True", Prior: prior,
								GetFaults: f.get, PatchFaults: f.patch, DeleteFaults: f.del}
							out = append(out, in)
						}
					}
				}
			}
		}
	}
	return out
}

func implLive(raw json.RawMessage) (any, error) {
	var in LiveIn
	if err := json.Unmarshal(raw, &in); err != nil {
		return nil, err
	}
	const poolName = "pool-a"
	poolUID := types.UID("uid-pool-a")
	nc := &v1.NodeClaim{
		ObjectMeta: metav1.ObjectMeta{Name: "nc-0", UID: "uid-nc-0", Generation: 1, CreationTimestamp: mt(in.Created), Finalizers: []string{v1.TerminationFinalizer}, Labels: map[string]string{}},
		Spec:       v1.NodeClaimSpec{NodeClassRef: nodeClassRef(), Requirements: []v1.NodeSelectorRequirementWithMinValues{}},
	}
	if !in.Managed {
		nc.Spec.NodeClassRef = foreignNodeClassRef()
	}
	if in.ClaimTGP != nil {
		nc.Spec.TerminationGracePeriod = &metav1.Duration{Duration: time.Duration(*in.ClaimTGP)}
	}
	if in.ClaimExpireAfter != nil {
		nc.Spec.ExpireAfter = v1.NillableDuration{Duration: (*time.Duration)(in.ClaimExpireAfter)}
	}
	if in.Launched == "True" {
		nc.Status.ProviderID = "fake://i-0"
	}
	if in.Launched != "" {
		nc.Status.Conditions = append(nc.Status.Conditions, status.Condition{Type: v1.ConditionTypeLaunched, Status: condStatus(in.Launched), Reason: "r", LastTransitionTime: mt(in.LaunchedAt), ObservedGeneration: 1})
	}
	if in.Registered != "" {
		nc.Status.Conditions = append(nc.Status.Conditions, status.Condition{Type: v1.ConditionTypeRegistered, Status: condStatus(in.Registered), Reason: "r", LastTransitionTime: mt(in.RegisteredAt), ObservedGeneration: 1})
	}
	objs := []client.Object{nc}
	if in.Pool != "" {
		nc.Labels[v1.NodePoolLabelKey] = poolName
	}
	switch in.Pool {
	case "owned":
		nc.OwnerReferences = []metav1.OwnerReference{{APIVersion: "karpenter.sh/v1", Kind: "NodePool", Name: poolName, UID: poolUID}}
	case "foreign": // the pool was deleted and re-created under the same name
		nc.OwnerReferences = []metav1.OwnerReference{{APIVersion: "karpenter.sh/v1", Kind: "NodePool", Name: poolName, UID: "uid-pool-old"}}
	}
	if in.Pool == "owned" || in.Pool == "foreign" {
		np := &v1.NodePool{ObjectMeta: metav1.ObjectMeta{Name: poolName, UID: poolUID, Generation: 1, CreationTimestamp: mt(0)}}
		if in.PoolCond != "" {
			np.Status.Conditions = []status.Condition{{Type: v1.ConditionTypeNodeRegistrationHealthy, Status: condStatus(in.PoolCond), Reason: "r", LastTransitionTime: mt(in.Created)}}
		}
		objs = append(objs, np)
	}
	rec := &recorder{}
	armed := false
	c := newClient(interceptor.Funcs{
		Get: func(ctx context.Context, w client.WithWatch, key client.ObjectKey, obj client.Object, opts ...client.GetOption) error {
			if _, ok := obj.(*v1.NodePool); ok && armed {
				if err := apiErr(nth(in.GetFaults, rec.bump("get")), key.Name); err != nil {
					return err
				}
			}
			return w.Get(ctx, key, obj, opts...)
		},
		SubResourcePatch: func(ctx context.Context, cl client.Client, sub string, obj client.Object, patch client.Patch, opts ...client.SubResourcePatchOption) error {
			if _, ok := obj.(*v1.NodePool); ok && armed {
				if err := apiErr(nth(in.PatchFaults, rec.bump("patch")), obj.GetName()); err != nil {
					return err
				}
			}
			return cl.SubResource(sub).Patch(ctx, obj, patch, opts...)
		},
		Delete: func(ctx context.Context, w client.WithWatch, obj client.Object, opts ...client.DeleteOption) error {
			if _, ok := obj.(*v1.NodeClaim); ok && armed {
				i := rec.deleted(obj.GetName())
				if err := apiErr(nth(in.DeleteFaults, i), obj.GetName()); err != nil {
					return err
				}
			}
			return w.Delete(ctx, obj, opts...)
		},
	}, objs...)
	ctx := baseCtx()
	if in.Deleting {
		if err := c.Delete(ctx, nc); err != nil {
			return nil, fmt.Errorf("setup: %w", err)
		}
	}
	got := &v1.NodeClaim{}
	if err := c.Get(ctx, client.ObjectKeyFromObject(nc), got); err != nil {
		return nil, fmt.Errorf("setup: %w", err)
	}
	cp := newProvider()
	if in.CreateOutcome != "ok" {
		cp.NextCreateErr = errors.New("injected create failure")
	}
	nps := nodepoolhealth.NewState()
	for _, ok := range in.Prior {
		nps.Update(poolUID, ok)
	}
	clk := clocktesting.NewFakeClock(at(in.Now))
	ctrl := lifecycle.NewController(clk, c, cp, test.NewEventRecorder(), nps, nil)
	armed = true
	_, err := ctrl.Reconcile(ctx, got)
	return LiveOut{Deletes: len(rec.deletes), Err: err != nil}, nil
}

func liveLabels(raw json.RawMessage, impl any) []string {
	var in LiveIn
	json.Unmarshal(raw, &in)
	l := []string{"launched:" + in.Launched, "registered:" + in.Registered, "pool:" + in.Pool}
	edge := func(name string, d int64) {
		switch {
		case d == 0:
			l = append(l, name+":at-edge")
		case d == -1:
			l = append(l, name+":edge-1ns")
		case d == 1:
			l = append(l, name+":edge+1ns")
		case d == -sec(1):
			l = append(l, name+":edge-1s")
		case d == sec(1):
			l = append(l, name+":edge+1s")
		}
	}
	edge("launch", in.Now-in.LaunchedAt-int64(lifecycle.LaunchTimeout))
	edge("registration", in.Now-in.RegisteredAt-int64(regTimeoutHint))
	for _, f := range in.GetFaults {
		if f != "" {
			l = append(l, "fault:get:"+f)
		}
	}
	for _, f := range in.PatchFaults {
		if f != "" {
			l = append(l, "fault:patch:"+f)
		}
	}
	for _, f := range in.DeleteFaults {
		if f != "" {
			l = append(l, "fault:delete:"+f)
		}
	}
	if !in.Managed {
		l = append(l, "unmanaged")
	}
	if in.Deleting {
		l = append(l, "deleting")
	}
	if in.ClaimTGP != nil {
		l = append(l, "claim:tgp-set")
		for _, e := range []int64{in.LaunchedAt + int64(lifecycle.LaunchTimeout), in.RegisteredAt + int64(regTimeoutHint)} {
			if e-*in.ClaimTGP <= in.Now && in.Now < e {
				l = append(l, "clock:in-[tgp-window-before-a-timeout)")
				break
			}
		}
	}
	if in.ClaimExpireAfter != nil {
		l = append(l, "claim:expireAfter-set")
	}
	if m, ok := impl.(map[string]any); ok {
		l = append(l, "deletes="+fmt.Sprint(m["deletes"]))
	}
	return l
}
