package c16

import (
	"context"
	"encoding/json"
	"fmt"
	"math/rand/v2"
	"slices"
	"sort"

	"github.com/awslabs/operatorpkg/status"
	corev1 "k8s.io/api/core/v1"
	metav1 "k8s.io/apimachinery/pkg/apis/meta/v1"
	"k8s.io/apimachinery/pkg/types"
	clocktesting "k8s.io/utils/clock/testing"
	"sigs.k8s.io/controller-runtime/pkg/client"
	"sigs.k8s.io/controller-runtime/pkg/client/interceptor"

	v1 "sigs.k8s.io/karpenter/pkg/apis/v1"
	"sigs.k8s.io/karpenter/pkg/controllers/nodeclaim/garbagecollection"

	"verifharness/internal/core"
)

type GCClaim struct {
	Name       string `json:"name"`
	PID        string `json:"pid"`
	Registered string `json:"registered"` // "True" | "False" | "Unknown" | "" (condition absent)
	Deleting   bool   `json:"deleting"`
	Managed    bool   `json:"managed"`
}
type GCInst struct {
	PID      string `json:"pid"`
	Deleting bool   `json:"deleting"` // the provider reports the instance as terminating
}
type GCNode struct {
	Name  string `json:"name"`
	PID   string `json:"pid"`
	Ready string `json:"ready"` // "True" | "False" | "Unknown" | "" (no Ready condition)
	// the Node has a deletion timestamp but still exists (held by the termination finalizer while it drains)
	Terminating bool `json:"terminating,omitempty"`
}
type NamedFault struct {
	Name  string `json:"name"`
	Fault string `json:"fault"` // one of apiErrClasses
}
type GCIn struct {
	Claims            []GCClaim    `json:"claims"`
	Provider          []GCInst     `json:"provider"`
	Nodes             []GCNode     `json:"nodes"`
	ListClaimsFault   bool         `json:"listClaimsFault"`   // the NodeClaim list fails
	ProviderListFault bool         `json:"providerListFault"` // cloudProvider.List fails
	NodeListFaultPIDs []string     `json:"nodeListFaultPids"` // the Node lookup for these provider ids fails
	DeleteFaults      []NamedFault `json:"deleteFaults"`
	// WHICH error the failing reads return (the decision must not depend on it: a read that failed has
	// established nothing, whatever the type of its error). "" = "err" (an untyped / internal error).
	ListClaimsErr   string `json:"listClaimsErr,omitempty"`   // one of apiErrClasses
	ProviderListErr string `json:"providerListErr,omitempty"` // one of providerErrClasses
	NodeListErr     string `json:"nodeListErr,omitempty"`     // one of apiErrClasses
	// the failing cloudProvider.List also returns the first half of the instances (value AND error)
	ProviderListPartial bool `json:"providerListPartial,omitempty"`
}
type GCOut struct {
	Deleted []string `json:"deleted"` // sorted names of the NodeClaims Delete was called for
	Err     bool     `json:"err"`
}

func pid(i int) string { return fmt.Sprintf("fake://i-%02d", i) }

var triStates = []string{"True", "False", "Unknown", ""}

// genGCBase draws a cluster. dupReady: probability that a group of duplicate Nodes may contain a Ready one
// (the second known GC defect; exercised deterministically by the enumeration of c16.gc_lookup).
func genGCBase(r *rand.Rand, dupReady float64) GCIn {
	in := GCIn{Claims: []GCClaim{}, Provider: []GCInst{}, Nodes: []GCNode{}, NodeListFaultPIDs: []string{}, DeleteFaults: []NamedFault{}}
	n := r.IntN(7)
	npid := 1 + r.IntN(8)
	for i := 0; i < n; i++ {
		c := GCClaim{Name: fmt.Sprintf("nc-%02d", i), PID: pid(r.IntN(npid)), Registered: "True", Managed: true}
		if r.Float64() < 0.25 {
			c.Registered = pick(r, triStates[1:])
		}
		if r.Float64() < 0.12 {
			c.Deleting = true
		}
		if r.Float64() < 0.08 {
			c.Managed = false
		}
		if r.Float64() < 0.04 {
			c.PID = ""
		}
		in.Claims = append(in.Claims, c)
	}
	pInst := r.Float64() // how much of the fleet the provider still lists
	for k := 0; k < npid; k++ {
		if r.Float64() < pInst {
			in.Provider = append(in.Provider, GCInst{PID: pid(k), Deleting: r.Float64() < 0.2})
		}
	}
	if r.Float64() < 0.05 {
		in.Provider = append(in.Provider, GCInst{PID: ""})
	}
	// share of Nodes that are terminating (deletion timestamp set, still present): none in 40% of the clusters,
	// otherwise 15% / 50% / all of the Nodes
	pTerm := pick(r, []float64{0, 0, 0.15, 0.5, 1})
	nn := 0
	for k := 0; k < npid; k++ {
		cnt := 0
		switch x := r.Float64(); {
		case x < 0.25:
			cnt = 0
		case x < 0.9:
			cnt = 1
		default:
			cnt = 2
		}
		mayBeReady := cnt == 1 || r.Float64() < dupReady
		for j := 0; j < cnt; j++ {
			rd := "True"
			if r.Float64() < 0.5 || !mayBeReady {
				rd = pick(r, triStates[1:])
			}
			in.Nodes = append(in.Nodes, GCNode{Name: fmt.Sprintf("node-%02d", nn), PID: pid(k), Ready: rd, Terminating: r.Float64() < pTerm})
			nn++
		}
	}
	// a failing list call: 6% the NodeClaim list, 12% the provider list (2% both); the error class is uniform
	// over apiErrClasses / providerErrClasses; a failing provider List returns a partial result as well in 1/3
	if x := r.Float64(); x < 0.06 {
		in.ListClaimsFault = true
		in.ListClaimsErr = pick(r, apiErrClasses)
	}
	if x := r.Float64(); x < 0.12 || (in.ListClaimsFault && x < 0.33) {
		in.ProviderListFault = true
		in.ProviderListErr = pick(r, providerErrClasses)
		in.ProviderListPartial = r.IntN(3) == 0
	}
	for _, c := range in.Claims {
		if r.Float64() < 0.1 {
			in.DeleteFaults = append(in.DeleteFaults, NamedFault{Name: c.Name, Fault: pick(r, apiErrClasses)})
		}
	}
	return in
}

// enumGC: every error class at every guarding list call, on a small cluster that has something to lose:
// three Registered NodeClaims (Node Ready / Node NotReady / no Node) whose instances the provider
// {all still lists, lists none of, lists as terminating}. Whatever the class of the error, a failed list
// establishes nothing.
func enumGC(_ core.Tier) []any {
	var out []any
	base := func(prov string) GCIn {
		in := GCIn{Claims: []GCClaim{}, Provider: []GCInst{}, Nodes: []GCNode{}, NodeListFaultPIDs: []string{}, DeleteFaults: []NamedFault{}}
		for k, rd := range []string{"True", "False", ""} {
			in.Claims = append(in.Claims, GCClaim{Name: fmt.Sprintf("nc-%02d", k), PID: pid(k), Registered: "True", Managed: true})
			if k < 2 {
				in.Nodes = append(in.Nodes, GCNode{Name: fmt.Sprintf("node-%02d", k), PID: pid(k), Ready: rd})
			}
			switch prov {
			case "listed":
				in.Provider = append(in.Provider, GCInst{PID: pid(k)})
			case "terminating":
				in.Provider = append(in.Provider, GCInst{PID: pid(k), Deleting: true})
			}
		}
		return in
	}
	for _, prov := range []string{"listed", "absent", "terminating"} {
		out = append(out, base(prov))
		for _, cls := range apiErrClasses {
			in := base(prov)
			in.ListClaimsFault, in.ListClaimsErr = true, cls
			out = append(out, in)
		}
		for _, cls := range providerErrClasses {
			for _, partial := range []bool{false, true} {
				in := base(prov)
				in.ProviderListFault, in.ProviderListErr, in.ProviderListPartial = true, cls, partial
				out = append(out, in)
			}
		}
		// every Delete outcome class (the Delete is reached for the claims without a Ready Node)
		for _, cls := range apiErrClasses {
			in := base(prov)
			in.DeleteFaults = []NamedFault{{Name: "nc-01", Fault: cls}}
			out = append(out, in)
		}
	}
	return out
}

func genGC(r *rand.Rand, _ core.Tier) any { return genGCBase(r, 0) }

// eligible: the claim passes the controller's filter (so its Node is looked up)
func gcEligible(in *GCIn, c GCClaim) bool {
	if !c.Managed || c.Deleting || c.Registered != "True" {
		return false
	}
	for _, p := range in.Provider {
		if p.PID == c.PID && !p.Deleting {
			return false
		}
	}
	return true
}

func genGCLookup(r *rand.Rand, t core.Tier) any {
	// Node-lookup faults (error class uniform over apiErrClasses, one class per input) hit provider ids whose
	// claim would not be collected anyway (the lookup is not reached; "cold") or - 30% - one collectable claim
	// ("hot lookup": the collector returns on the failed lookup since the repair of the first GC finding, so
	// these no longer reproduce it). Rarely - the open defect is enumerated exhaustively by enumGCLookup - a
	// group of duplicate Nodes contains a Ready one ("hot dup"); never both in one input, so that every failing
	// input reproduces exactly one finding, and rarely enough that the known finding cannot crowd out the
	// engine's failure list (20 per op).
	hot := 0.001
	if t == core.Thorough {
		hot = 0.0001
	}
	mode := "cold"
	switch x := r.Float64(); {
	case x < hot:
		mode = "hot-dup"
	case x < 0.3:
		mode = "hot-lookup"
	}
	dupReady := 0.0
	if mode == "hot-dup" {
		dupReady = 1
	}
	in := genGCBase(r, dupReady)
	in.ListClaimsFault, in.ProviderListFault, in.ListClaimsErr, in.ProviderListErr, in.ProviderListPartial = false, false, "", "", false
	in.NodeListErr = pick(r, apiErrClasses)
	eligiblePID := map[string]bool{}
	for _, c := range in.Claims {
		if gcEligible(&in, c) {
			eligiblePID[c.PID] = true
		}
	}
	seen := map[string]bool{}
	hotDone := false
	for _, c := range in.Claims {
		if seen[c.PID] || c.PID == "" {
			continue
		}
		seen[c.PID] = true
		if eligiblePID[c.PID] {
			if mode == "hot-lookup" && !hotDone {
				in.NodeListFaultPIDs = append(in.NodeListFaultPIDs, c.PID)
				hotDone = true
			}
		} else if r.Float64() < 0.4 {
			in.NodeListFaultPIDs = append(in.NodeListFaultPIDs, c.PID)
		}
	}
	return in
}

// single-claim matrix: registered x provider lists it x node situation (incl. terminating Nodes) x lookup fault x deleting
func enumGCLookup(_ core.Tier) []any {
	var out []any
	type nd struct {
		ready string
		term  bool
	}
	nodeCases := [][]nd{{}, {{"True", false}}, {{"False", false}}, {{"Unknown", false}}, {{"", false}},
		{{"True", false}, {"True", false}}, {{"True", false}, {"False", false}}, {{"False", false}, {"True", false}}, {{"False", false}, {"Unknown", false}},
		// a Node with a deletion timestamp that still exists (draining under the termination finalizer)
		{{"True", true}}, {{"False", true}}, {{"Unknown", true}}, {{"", true}},
		{{"True", true}, {"False", false}}, {{"False", true}, {"Unknown", true}}}
	for _, reg := range triStates {
		for _, prov := range []string{"absent", "listed", "terminating"} {
			for _, nc := range nodeCases {
				for _, fault := range []bool{false, true} {
					for _, deleting := range []bool{false, true} {
						dupReady := len(nc) > 1 && (nc[0].ready == "True" || nc[1].ready == "True")
						if fault && !(len(nc) == 0 || (len(nc) == 1 && (nc[0].ready == "True" || nc[0].ready == "False"))) {
							continue // with the lookup failed the Nodes are never seen: a few representatives suffice
						}
						if prov == "terminating" && dupReady && reg == "True" && !deleting {
							continue // keep the number of inputs that reproduce the known finding small
						}
						in := GCIn{Claims: []GCClaim{{Name: "nc-00", PID: pid(0), Registered: reg, Deleting: deleting, Managed: true}},
							Provider: []GCInst{{PID: pid(1)}}, Nodes: []GCNode{{Name: "node-99", PID: pid(1), Ready: "True"}}, NodeListFaultPIDs: []string{}, DeleteFaults: []NamedFault{}}
						switch prov {
						case "listed":
							in.Provider = append(in.Provider, GCInst{PID: pid(0)})
						case "terminating":
							in.Provider = append(in.Provider, GCInst{PID: pid(0), Deleting: true})
						}
						for j, n := range nc {
							in.Nodes = append(in.Nodes, GCNode{Name: fmt.Sprintf("node-%02d", j), PID: pid(0), Ready: n.ready, Terminating: n.term})
						}
						if fault {
							// every error class the Node list can fail with
							for _, cls := range apiErrClasses {
								x := in
								x.NodeListFaultPIDs = []string{pid(0)}
								x.NodeListErr = cls
								out = append(out, x)
							}
							continue
						}
						out = append(out, in)
					}
				}
			}
		}
	}
	return out
}

func implGC(raw json.RawMessage) (any, error) {
	var in GCIn
	if err := json.Unmarshal(raw, &in); err != nil {
		return nil, err
	}
	var objs []client.Object
	for i, c := range in.Claims {
		nc := &v1.NodeClaim{
			ObjectMeta: metav1.ObjectMeta{Name: c.Name, UID: types.UID("uid-" + c.Name), CreationTimestamp: mt(sec(int64(i))), Finalizers: []string{v1.TerminationFinalizer}},
			Spec:       v1.NodeClaimSpec{NodeClassRef: nodeClassRef()},
			Status:     v1.NodeClaimStatus{ProviderID: c.PID, NodeName: "n-" + c.Name},
		}
		if !c.Managed {
			nc.Spec.NodeClassRef = foreignNodeClassRef()
		}
		if c.Registered != "" {
			nc.Status.Conditions = []status.Condition{{Type: v1.ConditionTypeRegistered, Status: condStatus(c.Registered), Reason: "r", LastTransitionTime: mt(sec(int64(i)))}}
		}
		objs = append(objs, nc)
	}
	for i, n := range in.Nodes {
		node := &corev1.Node{
			ObjectMeta: metav1.ObjectMeta{Name: n.Name, UID: types.UID("uid-" + n.Name), CreationTimestamp: mt(sec(int64(i)))},
			Spec:       corev1.NodeSpec{ProviderID: n.PID},
			Status:     corev1.NodeStatus{Conditions: []corev1.NodeCondition{{Type: corev1.NodeMemoryPressure, Status: corev1.ConditionFalse}}},
		}
		if n.Ready != "" {
			node.Status.Conditions = append(node.Status.Conditions, corev1.NodeCondition{Type: corev1.NodeReady, Status: corev1.ConditionStatus(n.Ready)})
		}
		if n.Terminating {
			// deleted in the setup below: the finalizer keeps the object, with a deletion timestamp
			node.Finalizers = []string{v1.TerminationFinalizer}
		}
		objs = append(objs, node)
	}
	failPID := map[string]bool{}
	for _, p := range in.NodeListFaultPIDs {
		failPID[p] = true
	}
	delFault := map[string]string{}
	for _, f := range in.DeleteFaults {
		delFault[f.Name] = f.Fault
	}
	rec := &recorder{}
	armed := false
	c := newClient(interceptor.Funcs{
		List: func(ctx context.Context, w client.WithWatch, list client.ObjectList, opts ...client.ListOption) error {
			if armed {
				switch list.(type) {
				case *v1.NodeClaimList:
					if in.ListClaimsFault {
						return apiErr(orErr(in.ListClaimsErr), "nodeclaims")
					}
				case *corev1.NodeList:
					if p, ok := fieldSelectorValue(opts, "spec.providerID"); ok && failPID[p] {
						return apiErr(orErr(in.NodeListErr), "nodes")
					}
				}
			}
			return w.List(ctx, list, opts...)
		},
		Delete: func(ctx context.Context, w client.WithWatch, obj client.Object, opts ...client.DeleteOption) error {
			if _, ok := obj.(*v1.NodeClaim); ok && armed {
				rec.deleted(obj.GetName())
				if err := apiErr(delFault[obj.GetName()], obj.GetName()); err != nil {
					return err
				}
			}
			return w.Delete(ctx, obj, opts...)
		},
	}, objs...)
	ctx := baseCtx()
	for _, cl := range in.Claims {
		if cl.Deleting {
			if err := c.Delete(ctx, &v1.NodeClaim{ObjectMeta: metav1.ObjectMeta{Name: cl.Name}}); err != nil {
				return nil, fmt.Errorf("setup: %w", err)
			}
		}
	}
	for _, n := range in.Nodes {
		if n.Terminating {
			if err := c.Delete(ctx, &corev1.Node{ObjectMeta: metav1.ObjectMeta{Name: n.Name}}); err != nil {
				return nil, fmt.Errorf("setup: %w", err)
			}
			got := &corev1.Node{}
			if err := c.Get(ctx, client.ObjectKey{Name: n.Name}, got); err != nil || got.DeletionTimestamp.IsZero() {
				return nil, fmt.Errorf("setup: node %s is not terminating (%v)", n.Name, err)
			}
		}
	}
	cp := newProvider()
	cp.listErr, cp.listErrClass, cp.listPartial = in.ProviderListFault, in.ProviderListErr, in.ProviderListPartial
	for i, p := range in.Provider {
		inst := &v1.NodeClaim{ObjectMeta: metav1.ObjectMeta{Name: fmt.Sprintf("inst-%d", i)}, Status: v1.NodeClaimStatus{ProviderID: p.PID}}
		if p.Deleting {
			ts := mt(sec(5))
			inst.DeletionTimestamp = &ts
		}
		cp.instances = append(cp.instances, inst)
	}
	clk := clocktesting.NewFakeClock(at(sec(100000)))
	armed = true
	_, err := garbagecollection.NewController(clk, c, cp).Reconcile(ctx)
	out := GCOut{Deleted: append([]string{}, rec.deletes...), Err: err != nil}
	sort.Strings(out.Deleted)
	return out, nil
}

// gcViolationClasses recomputes, independently of the Lean side, why a deleted claim is not a documented
// GC target; used only to classify a failing input for known-finding matching.
func gcViolationClasses(in *GCIn, deleted []string) []string {
	set := map[string]bool{}
	for _, d := range deleted {
		var cl *GCClaim
		for i := range in.Claims {
			if in.Claims[i].Name == d {
				cl = &in.Claims[i]
			}
		}
		if cl == nil {
			set["unknown-claim"] = true
			continue
		}
		if in.ListClaimsFault || in.ProviderListFault {
			set["list-failed"] = true
			continue
		}
		if !gcEligible(in, *cl) {
			set["not-a-target"] = true
			continue
		}
		lookupFailed := false
		for _, p := range in.NodeListFaultPIDs {
			if p == cl.PID && cl.PID != "" {
				lookupFailed = true
			}
		}
		if lookupFailed {
			set["node-lookup-failed"] = true
			continue
		}
		ready, cnt, term := 0, 0, false
		for _, n := range in.Nodes {
			if n.PID == cl.PID && cl.PID != "" {
				cnt++
				if n.Ready == "True" {
					ready++
					term = n.Terminating
				}
			}
		}
		if ready > 0 && cnt > 1 {
			set["duplicate-nodes-ready"] = true
		} else if ready > 0 && term {
			set["node-ready-terminating"] = true // the only Node is Ready, has a deletion timestamp, still exists
		} else if ready > 0 {
			set["node-ready"] = true
		}
	}
	var out []string
	for k := range set {
		out = append(out, k)
	}
	sort.Strings(out)
	return out
}

func gcSignature(raw json.RawMessage, impl any) string {
	var in GCIn
	json.Unmarshal(raw, &in)
	var deleted []string
	if m, ok := impl.(map[string]any); ok {
		if l, ok := m["deleted"].([]any); ok {
			for _, x := range l {
				deleted = append(deleted, fmt.Sprint(x))
			}
		}
	}
	cls := gcViolationClasses(&in, deleted)
	if len(cls) == 0 {
		return "gc:none"
	}
	s := "gc"
	for _, c := range cls {
		s += ":" + c
	}
	return s
}

func gcLabels(raw json.RawMessage, impl any) []string {
	var in GCIn
	json.Unmarshal(raw, &in)
	l := []string{fmt.Sprintf("claims=%d", len(in.Claims))}
	if in.ListClaimsFault {
		l = append(l, "fault:listClaims", "fault:listClaims:"+orErr(in.ListClaimsErr))
	}
	if in.ProviderListFault {
		l = append(l, "fault:providerList", "fault:providerList:"+orErr(in.ProviderListErr))
		if in.ProviderListPartial {
			l = append(l, "fault:providerList:partial-result")
		}
	}
	if len(in.NodeListFaultPIDs) > 0 {
		l = append(l, "fault:nodeLookup", "fault:nodeLookup:"+orErr(in.NodeListErr))
		for _, c := range in.Claims {
			if gcEligible(&in, c) && c.PID != "" && slices.Contains(in.NodeListFaultPIDs, c.PID) {
				l = append(l, "fault:nodeLookup:of-collectable-claim", "fault:nodeLookup:of-collectable-claim:"+orErr(in.NodeListErr))
				break
			}
		}
	}
	if len(in.DeleteFaults) > 0 {
		l = append(l, "fault:delete")
		for _, f := range in.DeleteFaults {
			l = append(l, "fault:delete:"+f.Fault)
		}
	}
	elig := 0
	for _, c := range in.Claims {
		if gcEligible(&in, c) {
			elig++
		}
		if c.Registered != "True" {
			l = append(l, "claim:unregistered")
		}
		if c.Deleting {
			l = append(l, "claim:deleting")
		}
		if !c.Managed {
			l = append(l, "claim:unmanaged")
		}
	}
	if elig > 0 {
		l = append(l, "has-collectable")
	}
	for _, p := range in.Provider {
		if p.Deleting {
			l = append(l, "provider:terminating-instance")
			break
		}
	}
	cnt := map[string]int{}
	eligPID := map[string]bool{}
	for _, c := range in.Claims {
		if gcEligible(&in, c) && c.PID != "" {
			eligPID[c.PID] = true
		}
	}
	for _, n := range in.Nodes {
		cnt[n.PID]++
		if n.Terminating {
			l = append(l, "node-terminating-ready:"+n.Ready)
			if eligPID[n.PID] {
				l = append(l, "collectable-claim:node-terminating-ready:"+n.Ready)
			}
		} else {
			l = append(l, "node-ready:"+n.Ready)
		}
	}
	for _, v := range cnt {
		if v > 1 {
			l = append(l, "duplicate-nodes")
			break
		}
	}
	if m, ok := impl.(map[string]any); ok {
		if d, ok := m["deleted"].([]any); ok && len(d) > 0 {
			l = append(l, "deleted>0")
		}
	}
	return l
}

func gcNontrivial(raw json.RawMessage, _ any) bool {
	var in GCIn
	json.Unmarshal(raw, &in)
	for _, c := range in.Claims {
		if gcEligible(&in, c) {
			return true
		}
	}
	return false
}

func gcShrink(raw json.RawMessage) []any {
	var in GCIn
	json.Unmarshal(raw, &in)
	var out []any
	for _, c := range core.ShrinkList(in.Claims) {
		x := in
		x.Claims = c
		out = append(out, x)
	}
	for _, c := range core.ShrinkList(in.Nodes) {
		x := in
		x.Nodes = c
		out = append(out, x)
	}
	for _, c := range core.ShrinkList(in.Provider) {
		x := in
		x.Provider = c
		out = append(out, x)
	}
	for _, c := range core.ShrinkList(in.DeleteFaults) {
		x := in
		x.DeleteFaults = c
		out = append(out, x)
	}
	for _, c := range core.ShrinkList(in.NodeListFaultPIDs) {
		x := in
		x.NodeListFaultPIDs = c
		out = append(out, x)
	}
	return out
}
