package c16

import (
	"encoding/json"
	"fmt"
	"os"
	"testing"

	"verifharness/internal/core"
)

// go test -tags verif ./internal/c16 -run Smoke -v   (prints a few generated cases and what the real code did)
func TestSmoke(t *testing.T) {
	n := 6
	if os.Getenv("C16_SMOKE_N") != "" {
		fmt.Sscan(os.Getenv("C16_SMOKE_N"), &n)
	}
	for _, op := range Ops() {
		hist := map[string]int{}
		for i := 0; i < n; i++ {
			v := op.Gen(core.RNG(1, op.Name, i), core.Quick)
			b, _ := json.Marshal(v)
			out, p := core.SafeImpl(op, b)
			ob, _ := json.Marshal(out)
			if i < 6 {
				t.Logf("%s\n  in  %s\n  out %s panic=%v", op.Name, b, ob, p)
			}
			hist[string(ob)]++
		}
		if op.Enum != nil {
			for _, v := range op.Enum(core.Quick) {
				b, _ := json.Marshal(v)
				out, _ := core.SafeImpl(op, b)
				ob, _ := json.Marshal(out)
				hist[string(ob)]++
			}
		}
		if n > 6 {
			for k, v := range hist {
				if v > 3 || len(hist) < 30 {
					t.Logf("%s  %6d  %s", op.Name, v, k)
				}
			}
		}
	}
}

// go test -tags verif ./internal/c16 -run Corpus -v   (what the real code does on the corpus witnesses)
func TestCorpus(t *testing.T) {
	for _, op := range Ops() {
		files, _ := os.ReadDir("../../../corpus/" + op.Name)
		for _, f := range files {
			b, err := os.ReadFile("../../../corpus/" + op.Name + "/" + f.Name())
			if err != nil {
				t.Fatal(err)
			}
			var c struct {
				In json.RawMessage `json:"in"`
			}
			if err := json.Unmarshal(b, &c); err != nil {
				t.Fatalf("%s: %v", f.Name(), err)
			}
			out, p := core.SafeImpl(op, c.In)
			ob, _ := json.Marshal(out)
			t.Logf("%s/%s\n  out %s panic=%v", op.Name, f.Name(), ob, p)
		}
	}
}
