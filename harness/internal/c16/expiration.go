package c16

import (
	"context"
	"encoding/json"
	"fmt"
	"math/rand/v2"
	"time"

	"github.com/awslabs/operatorpkg/status"
	metav1 "k8s.io/apimachinery/pkg/apis/meta/v1"
	clocktesting "k8s.io/utils/clock/testing"
	"sigs.k8s.io/controller-runtime/pkg/client"
	"sigs.k8s.io/controller-runtime/pkg/client/interceptor"

	v1 "sigs.k8s.io/karpenter/pkg/apis/v1"
	"sigs.k8s.io/karpenter/pkg/controllers/nodeclaim/expiration"

	"verifharness/internal/core"
)

// ExpIn: one NodeClaim, one clock position, one outcome for the Delete call.
type ExpIn struct {
	Managed     bool   `json:"managed"`
	Deleting    bool   `json:"deleting"`
	ExpireAfter *int64 `json:"expireAfter"` // ns; null = "Never" (expiry disabled)
	Created     int64  `json:"created"`     // ns since t0, whole seconds
	Now         int64  `json:"now"`         // ns since t0
	DeleteFault string `json:"deleteFault"` // "" | "notfound" | "err"
}

// ReapOut is the canonical observation for the single-object reapers.
type ReapOut struct {
	Deletes   int   `json:"deletes"`   // Delete calls on NodeClaims issued by the controller
	RequeueNs int64 `json:"requeueNs"` // Result.RequeueAfter
	Err       bool  `json:"err"`       // Reconcile returned an error
}

var expDurations = []int64{0, 1, sec(1), sec(30), sec(60), sec(300), sec(3600), sec(720 * 3600), sec(8760 * 3600)}
var edgeDeltas = []int64{-sec(1), -1, 0, 1, sec(1)}

func pick[T any](r *rand.Rand, xs []T) T { return xs[r.IntN(len(xs))] }

func genDelta(r *rand.Rand) int64 {
	switch x := r.Float64(); {
	case x < 0.6:
		return pick(r, edgeDeltas)
	case x < 0.8:
		return r.Int64N(sec(7200)) - sec(3600)
	default:
		return r.Int64N(2*int64(time.Millisecond)) - int64(time.Millisecond)
	}
}

func genExp(r *rand.Rand, _ core.Tier) any {
	in := ExpIn{Managed: r.Float64() < 0.9, Deleting: r.Float64() < 0.1, Created: sec(r.Int64N(100000))}
	switch x := r.Float64(); {
	case x < 0.2: // expiry disabled
	case x < 0.25: // malformed: negative duration (rejected at admission, not at run time)
		d := -pick(r, expDurations)
		in.ExpireAfter = &d
	case x < 0.85:
		d := pick(r, expDurations)
		in.ExpireAfter = &d
	default:
		d := r.Int64N(sec(100000))
		in.ExpireAfter = &d
	}
	d := int64(0)
	if in.ExpireAfter != nil {
		d = *in.ExpireAfter
	}
	in.Now = in.Created + d + genDelta(r)
	if in.ExpireAfter == nil {
		in.Now = in.Created + r.Int64N(sec(1000000)) // arbitrarily old
	}
	if x := r.Float64(); x < 0.1 {
		in.DeleteFault = "notfound"
	} else if x < 0.2 {
		in.DeleteFault = "err"
	}
	return in
}

// every flag combination x {disabled, 0, 1h} x clock at the edge -1s,-1ns,0,+1ns,+1s x delete outcome
func enumExp(_ core.Tier) []any {
	var out []any
	h := sec(3600)
	z := int64(0)
	for _, managed := range []bool{true, false} {
		for _, deleting := range []bool{false, true} {
			for _, ea := range []*int64{nil, &z, &h} {
				for _, dl := range edgeDeltas {
					for _, f := range []string{"", "notfound", "err"} {
						d := int64(0)
						if ea != nil {
							d = *ea
						}
						out = append(out, ExpIn{Managed: managed, Deleting: deleting, ExpireAfter: ea, Created: sec(1000), Now: sec(1000) + d + dl, DeleteFault: f})
					}
				}
			}
		}
	}
	return out
}

func implExp(raw json.RawMessage) (any, error) {
	var in ExpIn
	if err := json.Unmarshal(raw, &in); err != nil {
		return nil, err
	}
	nc := &v1.NodeClaim{
		ObjectMeta: metav1.ObjectMeta{Name: "nc-0", UID: "uid-nc-0", CreationTimestamp: mt(in.Created), Finalizers: []string{v1.TerminationFinalizer}, Labels: map[string]string{v1.NodePoolLabelKey: "pool-a"}},
		Spec:       v1.NodeClaimSpec{NodeClassRef: nodeClassRef()},
		Status:     v1.NodeClaimStatus{ProviderID: "fake://i-0", NodeName: "node-0"},
	}
	// lifecycle conditions with later transition times: expiry must be measured from creation, not from these
	for k, t := range []string{v1.ConditionTypeLaunched, v1.ConditionTypeRegistered, v1.ConditionTypeInitialized} {
		nc.Status.Conditions = append(nc.Status.Conditions, status.Condition{Type: t, Status: metav1.ConditionTrue, Reason: t, LastTransitionTime: mt(in.Created + sec(int64(37*(k+1))))})
	}
	if !in.Managed {
		nc.Spec.NodeClassRef = foreignNodeClassRef()
	}
	if in.ExpireAfter != nil {
		nc.Spec.ExpireAfter = v1.NillableDuration{Duration: (*time.Duration)(in.ExpireAfter)}
	}
	rec := &recorder{}
	armed := false
	c := newClient(interceptor.Funcs{
		Delete: func(ctx context.Context, w client.WithWatch, obj client.Object, opts ...client.DeleteOption) error {
			if _, ok := obj.(*v1.NodeClaim); ok && armed {
				rec.deleted(obj.GetName())
				if err := faultErr(in.DeleteFault, obj.GetName()); err != nil {
					return err
				}
			}
			return w.Delete(ctx, obj, opts...)
		},
	}, nc)
	ctx := baseCtx()
	if in.Deleting { // already being deleted (finalizer keeps it)
		if err := c.Delete(ctx, nc); err != nil {
			return nil, fmt.Errorf("setup: %w", err)
		}
	}
	// what reconcile.AsReconciler does: read the object, hand it to the controller
	got := &v1.NodeClaim{}
	if err := c.Get(ctx, client.ObjectKeyFromObject(nc), got); err != nil {
		return nil, fmt.Errorf("setup: %w", err)
	}
	if !got.CreationTimestamp.Time.Equal(at(in.Created)) {
		return nil, fmt.Errorf("setup: creation timestamp not preserved")
	}
	clk := clocktesting.NewFakeClock(at(in.Now))
	armed = true
	res, err := expiration.NewController(clk, c, newProvider()).Reconcile(ctx, got)
	return ReapOut{Deletes: len(rec.deletes), RequeueNs: int64(res.RequeueAfter), Err: err != nil}, nil
}

func expLabels(raw json.RawMessage, impl any) []string {
	var in ExpIn
	json.Unmarshal(raw, &in)
	l := []string{}
	if in.ExpireAfter == nil {
		l = append(l, "expiry:disabled")
	} else {
		switch d := in.Now - in.Created - *in.ExpireAfter; {
		case d == 0:
			l = append(l, "clock:at-edge")
		case d == -1:
			l = append(l, "clock:edge-1ns")
		case d == 1:
			l = append(l, "clock:edge+1ns")
		case d < 0:
			l = append(l, "clock:before")
		default:
			l = append(l, "clock:after")
		}
	}
	if !in.Managed {
		l = append(l, "unmanaged")
	}
	if in.Deleting {
		l = append(l, "deleting")
	}
	if in.DeleteFault != "" {
		l = append(l, "deleteFault:"+in.DeleteFault)
	}
	if m, ok := impl.(map[string]any); ok {
		if fmt.Sprint(m["deletes"]) != "0" {
			l = append(l, "deleted")
		}
	}
	return l
}

func implDeletes(impl any) bool {
	m, ok := impl.(map[string]any)
	return ok && m["deletes"] != nil && fmt.Sprint(m["deletes"]) != "0"
}
