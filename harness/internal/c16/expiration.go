package c16

import (
	"context"
	"encoding/json"
	"fmt"
	"math/rand/v2"
	"time"

	"github.com/awslabs/operatorpkg/status"
	corev1 "k8s.io/api/core/v1"
	metav1 "k8s.io/apimachinery/pkg/apis/meta/v1"
	"k8s.io/apimachinery/pkg/types"
	clocktesting "k8s.io/utils/clock/testing"
	"sigs.k8s.io/controller-runtime/pkg/client"
	"sigs.k8s.io/controller-runtime/pkg/client/interceptor"

	v1 "sigs.k8s.io/karpenter/pkg/apis/v1"
	"sigs.k8s.io/karpenter/pkg/controllers/nodeclaim/expiration"

	"verifharness/internal/core"
)

// ExpIn: one NodeClaim, one clock position, one outcome for the Delete call - and the FRAME of the decision:
// everything else a real NodeClaim and its surroundings carry (durations, instants, flags) that is not part of the
// documented trigger. All frame fields are optional; the zero value is the bare NodeClaim of the first version of
// this op (three lifecycle conditions, no terminationGracePeriod, no NodePool / Node / pods).
type ExpIn struct {
	Managed     bool   `json:"managed"`
	Deleting    bool   `json:"deleting"`
	ExpireAfter *int64 `json:"expireAfter"` // ns; null = "Never" (expiry disabled)
	Created     int64  `json:"created"`     // ns since t0, whole seconds
	Now         int64  `json:"now"`         // ns since t0
	DeleteFault string `json:"deleteFault"` // "" | "notfound" | "err"

	// --- frame ---
	TGP   *int64    `json:"tgp,omitempty"` // spec.terminationGracePeriod, ns; null = unset
	Conds []ExpCond `json:"conds"`         // status conditions of the NodeClaim; null = Launched/Registered/Initialized True
	// owning NodePool: "" = nodepool label, no NodePool object | "present" = label + NodePool object whose template
	// carries poolExpireAfter (null = Never) and poolTgp (null = unset) | "nolabel" = standalone NodeClaim
	Pool            string `json:"pool,omitempty"`
	PoolExpireAfter *int64 `json:"poolExpireAfter,omitempty"`
	PoolTGP         *int64 `json:"poolTgp,omitempty"`
	TermAnnotSec    *int64 `json:"termAnnotSec,omitempty"` // karpenter.sh/nodeclaim-termination-timestamp, whole seconds since t0
	DoNotDisrupt    bool   `json:"doNotDisrupt,omitempty"` // karpenter.sh/do-not-disrupt on the NodeClaim
	LastPodEvent    *int64 `json:"lastPodEvent,omitempty"` // status.lastPodEventTime, ns since t0 (whole seconds)
	Node            string `json:"node,omitempty"`         // the NodeClaim's Node: "" none | "present" | "terminating"
	NodeCreated     *int64 `json:"nodeCreated,omitempty"`  // its creation time, ns since t0 (whole seconds)
	Pods            int    `json:"pods,omitempty"`         // pods bound to the Node (the first one carries do-not-disrupt)
}

type ExpCond struct {
	Type   string `json:"type"`
	Status string `json:"status"`
	At     int64  `json:"at"` // last transition, ns since t0 (whole seconds)
}

// ReapOut is the canonical observation for the single-object reapers.
type ReapOut struct {
	Deletes   int   `json:"deletes"`   // Delete calls on NodeClaims issued by the controller
	RequeueNs int64 `json:"requeueNs"` // Result.RequeueAfter
	Err       bool  `json:"err"`       // Reconcile returned an error
}

var expDurations = []int64{0, 1, sec(1), sec(30), sec(60), sec(300), sec(3600), sec(720 * 3600), sec(8760 * 3600)}
var edgeDeltas = []int64{-sec(1), -1, 0, 1, sec(1)}

func pick[T any](r *rand.Rand, xs []T) T { return xs[r.IntN(len(xs))] }

func genDelta(r *rand.Rand) int64 {
	switch x := r.Float64(); {
	case x < 0.6:
		return pick(r, edgeDeltas)
	case x < 0.8:
		return r.Int64N(sec(7200)) - sec(3600)
	default:
		return r.Int64N(2*int64(time.Millisecond)) - int64(time.Millisecond)
	}
}

var tgpDurations = []int64{0, 1, sec(1), sec(30), sec(600), sec(3600), sec(7200), sec(48 * 3600)}
var expCondTypes = []string{v1.ConditionTypeLaunched, v1.ConditionTypeRegistered, v1.ConditionTypeInitialized, v1.ConditionTypeDrifted,
	v1.ConditionTypeConsolidatable, v1.ConditionTypeConsistentStateFound, v1.ConditionTypeDrained, v1.ConditionTypeDisruptionReason}

// a duration related to the NodeClaim's own expireAfter d (equal, just below / above, half, double) or from the table
func genRelatedDuration(r *rand.Rand, d int64, table []int64) int64 {
	if d > 0 && r.Float64() < 0.3 {
		return max(0, pick(r, []int64{d, d - sec(1), d + sec(1), d / 2, 2 * d, d - 1, d + 1}))
	}
	return pick(r, table)
}

// genExpFrame: 35% bare NodeClaims (as before); otherwise each frame item independently:
// terminationGracePeriod 70% (table 0..48h or related to expireAfter), custom conditions 50% (each of 8 types
// 45%, random status, transition 0..2h after creation), NodePool present 45% (template expireAfter Never 20% /
// related or table; template terminationGracePeriod 50%) or standalone 10%, termination-timestamp annotation 15%,
// do-not-disrupt 15%, lastPodEventTime 30%, Node present 50% (terminating 20% of those; created 0..10min after
// the NodeClaim) with 0..2 pods.
func genExpFrame(r *rand.Rand, in *ExpIn) {
	if r.Float64() < 0.35 {
		return
	}
	d := int64(0)
	if in.ExpireAfter != nil {
		d = *in.ExpireAfter
	}
	if r.Float64() < 0.7 {
		g := genRelatedDuration(r, d, tgpDurations)
		in.TGP = &g
	}
	if r.Float64() < 0.5 {
		in.Conds = []ExpCond{}
		for _, t := range expCondTypes {
			if r.Float64() < 0.45 {
				in.Conds = append(in.Conds, ExpCond{Type: t, Status: pick(r, condStatuses), At: in.Created + sec(r.Int64N(7200))})
			}
		}
	}
	switch x := r.Float64(); {
	case x < 0.45:
		in.Pool = "present"
		if r.Float64() >= 0.2 {
			e := genRelatedDuration(r, d, expDurations)
			in.PoolExpireAfter = &e
		}
		if r.Float64() < 0.5 {
			g := genRelatedDuration(r, d, tgpDurations)
			in.PoolTGP = &g
		}
	case x < 0.55:
		in.Pool = "nolabel"
	}
	if r.Float64() < 0.15 {
		a := (in.Created+d)/int64(time.Second) + pick(r, []int64{-3600, -600, -1, 0, 1, 600})
		in.TermAnnotSec = &a
	}
	in.DoNotDisrupt = r.Float64() < 0.15
	if r.Float64() < 0.3 {
		t := in.Created + sec(r.Int64N(7200))
		in.LastPodEvent = &t
	}
	if r.Float64() < 0.5 {
		in.Node = "present"
		if r.Float64() < 0.2 {
			in.Node = "terminating"
		}
		t := in.Created + sec(r.Int64N(600))
		in.NodeCreated = &t
		in.Pods = r.IntN(3)
	}
}

// Clock: with expiry enabled 55% around creation + expireAfter (60% of those at the edge -1s/-1ns/0/+1ns/+1s,
// 20% +-1h, 20% +-1ms); if the frame is not empty 45% of the clocks are placed around (same edge distribution) an
// "alternative deadline" a mistaken controller could use instead: for a frame duration x (terminationGracePeriod,
// the NodePool's expireAfter / terminationGracePeriod) creation + expireAfter - x (where a deadline "pulled
// forward by x" would start), a uniform point of [creation + expireAfter - x, creation + expireAfter), creation + x;
// for a frame instant t (condition transitions, lastPodEventTime, Node creation, termination-timestamp
// annotation) t itself; creation + expireAfter/2 and a uniform point of the NodeClaim's life. Those are clamped to
// be after the creation time.
func genExp(r *rand.Rand, _ core.Tier) any {
	in := ExpIn{Managed: r.Float64() < 0.9, Deleting: r.Float64() < 0.1, Created: sec(r.Int64N(100000))}
	switch x := r.Float64(); {
	case x < 0.2: // expiry disabled
	case x < 0.25: // malformed: negative duration (rejected at admission, not at run time)
		d := -pick(r, expDurations)
		in.ExpireAfter = &d
	case x < 0.85:
		d := pick(r, expDurations)
		in.ExpireAfter = &d
	default:
		d := r.Int64N(sec(100000))
		in.ExpireAfter = &d
	}
	d := int64(0)
	if in.ExpireAfter != nil {
		d = *in.ExpireAfter
	}
	genExpFrame(r, &in)
	in.Now = in.Created + d + genDelta(r)
	if in.ExpireAfter == nil {
		in.Now = in.Created + r.Int64N(sec(1000000)) // arbitrarily old
	} else if r.Float64() < 0.45 {
		// alternative deadlines a mistaken controller could use instead of creation + expireAfter
		var alts []int64
		for _, p := range []*int64{in.TGP, in.TGP, in.PoolExpireAfter, in.PoolTGP} {
			if p != nil && *p > 0 {
				x := *p
				alts = append(alts, in.Created+d-x, in.Created+d-x, in.Created+d-x+r.Int64N(x), in.Created+d-x+r.Int64N(x), in.Created+x)
			}
		}
		for _, c := range in.Conds {
			alts = append(alts, c.At)
		}
		for _, p := range []*int64{in.LastPodEvent, in.NodeCreated} {
			if p != nil {
				alts = append(alts, *p)
			}
		}
		if in.TermAnnotSec != nil {
			alts = append(alts, sec(*in.TermAnnotSec))
		}
		if d > 1 && (in.TGP != nil || in.Conds != nil || in.Pool != "" || in.Node != "") {
			alts = append(alts, in.Created+d/2, in.Created+r.Int64N(d))
		}
		if len(alts) > 0 {
			in.Now = pick(r, alts) + genDelta(r)
			if in.Now < in.Created { // e.g. terminationGracePeriod >= expireAfter: the window starts before the NodeClaim exists
				in.Now = in.Created + pick(r, []int64{0, 1, sec(1), sec(60), r.Int64N(sec(600) + 1)})
			}
		}
	}
	if x := r.Float64(); x < 0.1 {
		in.DeleteFault = "notfound"
	} else if x < 0.2 {
		in.DeleteFault = "err"
	} else if x < 0.25 {
		in.DeleteFault = pick(r, apiErrClasses)
	}
	return in
}

// every flag combination x {disabled, 0, 1h} x clock at the edge -1s,-1ns,0,+1ns,+1s x delete outcome (bare NodeClaim);
// then, for the managed, not deleting NodeClaim: terminationGracePeriod {0, 1ns, 10m, 1h = expireAfter, 2h} x
// {NodeClaim only, NodePool with the same / a shorter expireAfter + terminationGracePeriod} x clock at
// {creation + expireAfter, creation + expireAfter - terminationGracePeriod, creation + 1min} + edge x delete outcome
func enumExp(_ core.Tier) []any {
	var out []any
	h := sec(3600)
	z := int64(0)
	for _, managed := range []bool{true, false} {
		for _, deleting := range []bool{false, true} {
			for _, ea := range []*int64{nil, &z, &h} {
				for _, dl := range edgeDeltas {
					for _, f := range []string{"", "notfound", "err"} {
						d := int64(0)
						if ea != nil {
							d = *ea
						}
						out = append(out, ExpIn{Managed: managed, Deleting: deleting, ExpireAfter: ea, Created: sec(1000), Now: sec(1000) + d + dl, DeleteFault: f})
					}
				}
			}
		}
	}
	half := sec(1800)
	for _, ea := range []*int64{nil, &h} {
		for _, g := range []int64{0, 1, sec(600), sec(3600), sec(7200)} {
			for _, pool := range []string{"", "same", "shorter"} {
				d := int64(0)
				if ea != nil {
					d = *ea
				}
				anchors := []int64{sec(1000) + d, sec(1000) + d - g, sec(1000) + sec(60)}
				for ai, a := range anchors {
					if (ai == 1 && g == 0) || (ai > 0 && ea == nil) {
						continue
					}
					for _, dl := range edgeDeltas {
						for _, f := range []string{"", "notfound", "err"} {
							if f != "" && dl != 0 && dl != -1 {
								continue
							}
							g := g
							in := ExpIn{Managed: true, ExpireAfter: ea, Created: sec(1000), Now: max(a+dl, sec(1000)), DeleteFault: f, TGP: &g}
							switch pool {
							case "same":
								in.Pool, in.PoolExpireAfter, in.PoolTGP = "present", ea, &g
							case "shorter":
								in.Pool, in.PoolExpireAfter, in.PoolTGP = "present", &half, &g
							}
							out = append(out, in)
						}
					}
				}
			}
		}
	}
	return out
}

func implExp(raw json.RawMessage) (any, error) {
	var in ExpIn
	if err := json.Unmarshal(raw, &in); err != nil {
		return nil, err
	}
	const poolName, nodeName = "pool-a", "node-0"
	nc := &v1.NodeClaim{
		ObjectMeta: metav1.ObjectMeta{Name: "nc-0", UID: "uid-nc-0", CreationTimestamp: mt(in.Created), Finalizers: []string{v1.TerminationFinalizer}, Labels: map[string]string{v1.NodePoolLabelKey: poolName}, Annotations: map[string]string{}},
		Spec:       v1.NodeClaimSpec{NodeClassRef: nodeClassRef()},
		Status:     v1.NodeClaimStatus{ProviderID: "fake://i-0", NodeName: nodeName},
	}
	if in.Conds == nil {
		// lifecycle conditions with later transition times: expiry must be measured from creation, not from these
		for k, t := range []string{v1.ConditionTypeLaunched, v1.ConditionTypeRegistered, v1.ConditionTypeInitialized} {
			nc.Status.Conditions = append(nc.Status.Conditions, status.Condition{Type: t, Status: metav1.ConditionTrue, Reason: t, LastTransitionTime: mt(in.Created + sec(int64(37*(k+1))))})
		}
	}
	for _, c := range in.Conds {
		nc.Status.Conditions = append(nc.Status.Conditions, status.Condition{Type: c.Type, Status: condStatus(c.Status), Reason: c.Type, LastTransitionTime: mt(c.At)})
	}
	if !in.Managed {
		nc.Spec.NodeClassRef = foreignNodeClassRef()
	}
	if in.ExpireAfter != nil {
		nc.Spec.ExpireAfter = v1.NillableDuration{Duration: (*time.Duration)(in.ExpireAfter)}
	}
	if in.TGP != nil {
		nc.Spec.TerminationGracePeriod = &metav1.Duration{Duration: time.Duration(*in.TGP)}
	}
	if in.TermAnnotSec != nil {
		nc.Annotations[v1.NodeClaimTerminationTimestampAnnotationKey] = at(sec(*in.TermAnnotSec)).Format(time.RFC3339)
	}
	if in.DoNotDisrupt {
		nc.Annotations[v1.DoNotDisruptAnnotationKey] = "true"
	}
	if in.LastPodEvent != nil {
		nc.Status.LastPodEventTime = mt(*in.LastPodEvent)
	}
	objs := []client.Object{nc}
	switch in.Pool {
	case "present":
		np := &v1.NodePool{ObjectMeta: metav1.ObjectMeta{Name: poolName, UID: "uid-pool-a", CreationTimestamp: mt(0)}}
		np.Spec.Template.Spec.NodeClassRef = nodeClassRef()
		if in.PoolExpireAfter != nil {
			np.Spec.Template.Spec.ExpireAfter = v1.NillableDuration{Duration: (*time.Duration)(in.PoolExpireAfter)}
		}
		if in.PoolTGP != nil {
			np.Spec.Template.Spec.TerminationGracePeriod = &metav1.Duration{Duration: time.Duration(*in.PoolTGP)}
		}
		nc.OwnerReferences = []metav1.OwnerReference{{APIVersion: "karpenter.sh/v1", Kind: "NodePool", Name: poolName, UID: np.UID}}
		objs = append(objs, np)
	case "nolabel":
		delete(nc.Labels, v1.NodePoolLabelKey)
	}
	if in.Node != "" {
		node := &corev1.Node{
			ObjectMeta: metav1.ObjectMeta{Name: nodeName, UID: "uid-node-0", Labels: map[string]string{corev1.LabelHostname: nodeName, v1.NodeRegisteredLabelKey: "true"}, Finalizers: []string{v1.TerminationFinalizer}},
			Spec:       corev1.NodeSpec{ProviderID: nc.Status.ProviderID},
			Status:     corev1.NodeStatus{Conditions: []corev1.NodeCondition{{Type: corev1.NodeReady, Status: corev1.ConditionTrue, LastTransitionTime: mt(in.Created + sec(90))}}},
		}
		if in.NodeCreated != nil {
			node.CreationTimestamp = mt(*in.NodeCreated)
		}
		if in.Pool != "nolabel" {
			node.Labels[v1.NodePoolLabelKey] = poolName
		}
		objs = append(objs, node)
		for i := 0; i < in.Pods; i++ {
			pod := &corev1.Pod{
				ObjectMeta: metav1.ObjectMeta{Name: fmt.Sprintf("pod-%d", i), Namespace: "default", UID: types.UID(fmt.Sprintf("uid-pod-%d", i)), CreationTimestamp: mt(in.Created + sec(120))},
				Spec:       corev1.PodSpec{NodeName: nodeName, Containers: []corev1.Container{{Name: "c", Image: "i"}}},
				Status:     corev1.PodStatus{Phase: corev1.PodRunning},
			}
			if i == 0 {
				pod.Annotations = map[string]string{v1.DoNotDisruptAnnotationKey: "true"}
			}
			objs = append(objs, pod)
		}
	}
	rec := &recorder{}
	armed := false
	c := newClient(interceptor.Funcs{
		Delete: func(ctx context.Context, w client.WithWatch, obj client.Object, opts ...client.DeleteOption) error {
			if _, ok := obj.(*v1.NodeClaim); ok && armed {
				rec.deleted(obj.GetName())
				if err := apiErr(in.DeleteFault, obj.GetName()); err != nil {
					return err
				}
			}
			return w.Delete(ctx, obj, opts...)
		},
	}, objs...)
	ctx := baseCtx()
	if in.Deleting { // already being deleted (finalizer keeps it)
		if err := c.Delete(ctx, nc); err != nil {
			return nil, fmt.Errorf("setup: %w", err)
		}
	}
	if in.Node == "terminating" { // draining under the termination finalizer
		if err := c.Delete(ctx, &corev1.Node{ObjectMeta: metav1.ObjectMeta{Name: nodeName}}); err != nil {
			return nil, fmt.Errorf("setup: %w", err)
		}
	}
	// what reconcile.AsReconciler does: read the object, hand it to the controller
	got := &v1.NodeClaim{}
	if err := c.Get(ctx, client.ObjectKeyFromObject(nc), got); err != nil {
		return nil, fmt.Errorf("setup: %w", err)
	}
	if !got.CreationTimestamp.Time.Equal(at(in.Created)) {
		return nil, fmt.Errorf("setup: creation timestamp not preserved")
	}
	if (in.TGP == nil) != (got.Spec.TerminationGracePeriod == nil) || (in.TGP != nil && int64(got.Spec.TerminationGracePeriod.Duration) != *in.TGP) {
		return nil, fmt.Errorf("setup: terminationGracePeriod not preserved")
	}
	if (in.ExpireAfter == nil) != (got.Spec.ExpireAfter.Duration == nil) || (in.ExpireAfter != nil && int64(*got.Spec.ExpireAfter.Duration) != *in.ExpireAfter) {
		return nil, fmt.Errorf("setup: expireAfter not preserved")
	}
	clk := clocktesting.NewFakeClock(at(in.Now))
	armed = true
	res, err := expiration.NewController(clk, c, newProvider()).Reconcile(ctx, got)
	return ReapOut{Deletes: len(rec.deletes), RequeueNs: int64(res.RequeueAfter), Err: err != nil}, nil
}

// expShrink: drop the frame items one at a time (the witness keeps only what the failure needs)
func expShrink(raw json.RawMessage) []any {
	var in ExpIn
	json.Unmarshal(raw, &in)
	var out []any
	add := func(f func(x *ExpIn)) {
		x := in
		f(&x)
		out = append(out, x)
	}
	add(func(x *ExpIn) {
		*x = ExpIn{Managed: in.Managed, Deleting: in.Deleting, ExpireAfter: in.ExpireAfter, Created: in.Created, Now: in.Now, DeleteFault: in.DeleteFault}
	})
	add(func(x *ExpIn) { x.Conds = nil })
	if len(in.Conds) > 0 {
		for _, c := range core.ShrinkList(in.Conds) {
			add(func(x *ExpIn) { x.Conds = c })
		}
	}
	add(func(x *ExpIn) { x.Pool, x.PoolExpireAfter, x.PoolTGP = "", nil, nil })
	add(func(x *ExpIn) { x.PoolExpireAfter = nil })
	add(func(x *ExpIn) { x.PoolTGP = nil })
	add(func(x *ExpIn) { x.Node, x.NodeCreated, x.Pods = "", nil, 0 })
	add(func(x *ExpIn) { x.Pods = 0 })
	add(func(x *ExpIn) { x.TermAnnotSec = nil })
	add(func(x *ExpIn) { x.LastPodEvent = nil })
	add(func(x *ExpIn) { x.DoNotDisrupt = false })
	add(func(x *ExpIn) { x.TGP = nil })
	add(func(x *ExpIn) { x.DeleteFault = "" })
	return out
}

func expLabels(raw json.RawMessage, impl any) []string {
	var in ExpIn
	json.Unmarshal(raw, &in)
	l := []string{}
	if in.ExpireAfter == nil {
		l = append(l, "expiry:disabled")
	} else {
		switch d := in.Now - in.Created - *in.ExpireAfter; {
		case d == 0:
			l = append(l, "clock:at-edge")
		case d == -1:
			l = append(l, "clock:edge-1ns")
		case d == 1:
			l = append(l, "clock:edge+1ns")
		case d < 0:
			l = append(l, "clock:before")
		default:
			l = append(l, "clock:after")
		}
	}
	if !in.Managed {
		l = append(l, "unmanaged")
	}
	if in.Deleting {
		l = append(l, "deleting")
	}
	if in.DeleteFault != "" {
		l = append(l, "deleteFault:"+in.DeleteFault)
	}
	// the frame
	window := func(name string, x *int64) {
		if x == nil || in.ExpireAfter == nil || *x <= 0 {
			return
		}
		if e := in.Created + *in.ExpireAfter; e-*x <= in.Now && in.Now < e {
			l = append(l, "clock:in-["+name+"-window-before-expiry)")
		}
	}
	switch {
	case in.TGP == nil:
		l = append(l, "tgp:unset")
	case *in.TGP == 0:
		l = append(l, "tgp:0")
	case in.ExpireAfter != nil && *in.TGP >= *in.ExpireAfter:
		l = append(l, "tgp:>=expireAfter")
	default:
		l = append(l, "tgp:set")
	}
	window("tgp", in.TGP)
	switch in.Pool {
	case "present":
		switch {
		case in.PoolExpireAfter == nil:
			l = append(l, "nodepool:expireAfter-never")
		case in.ExpireAfter == nil:
			l = append(l, "nodepool:expireAfter-set,claim-never")
		case *in.PoolExpireAfter < *in.ExpireAfter:
			l = append(l, "nodepool:expireAfter-shorter")
		case *in.PoolExpireAfter > *in.ExpireAfter:
			l = append(l, "nodepool:expireAfter-longer")
		default:
			l = append(l, "nodepool:expireAfter-equal")
		}
		if in.PoolTGP != nil {
			l = append(l, "nodepool:tgp-set")
		}
		if in.PoolExpireAfter != nil && in.ExpireAfter != nil && in.Created+*in.PoolExpireAfter <= in.Now && in.Now < in.Created+*in.ExpireAfter {
			l = append(l, "clock:in-[nodepool-expiry,claim-expiry)")
		}
		window("nodepool-tgp", in.PoolTGP)
	case "nolabel":
		l = append(l, "nodepool:standalone-claim")
	}
	if in.Conds != nil {
		l = append(l, "conds:custom")
	}
	if in.TermAnnotSec != nil {
		l = append(l, "annot:termination-timestamp")
	}
	if in.DoNotDisrupt {
		l = append(l, "annot:do-not-disrupt")
	}
	if in.LastPodEvent != nil {
		l = append(l, "lastPodEventTime")
	}
	if in.Node != "" {
		l = append(l, "node:"+in.Node, fmt.Sprintf("pods:%d", in.Pods))
	}
	if m, ok := impl.(map[string]any); ok {
		if fmt.Sprint(m["deletes"]) != "0" {
			l = append(l, "deleted")
		}
	}
	return l
}

func implDeletes(impl any) bool {
	m, ok := impl.(map[string]any)
	return ok && m["deletes"] != nil && fmt.Sprint(m["deletes"]) != "0"
}
