package c16

import (
	"encoding/json"

	"verifharness/internal/core"
	"verifharness/internal/registry"
)

func init() { registry.Register("C16", Ops) }

func nq(quick, thorough int) func(core.Tier) int {
	return func(t core.Tier) int {
		if t == core.Thorough {
			return thorough
		}
		return quick
	}
}

func shrinkNone(json.RawMessage) []any { return nil }

func Ops() []*core.Op {
	return []*core.Op{
		{
			Name: "c16.expiration",
			Doc:  "nodeclaim/expiration Controller.Reconcile on the fake client: one NodeClaim x expireAfter x fake clock around creation+expireAfter x Delete outcome, inside a varied FRAME (spec.terminationGracePeriod, status conditions and their transition times, owning NodePool with its own expireAfter / terminationGracePeriod, termination-timestamp and do-not-disrupt annotations, lastPodEventTime, a present / terminating Node with pods) with the clock also placed relative to every frame duration (creation+expireAfter-x, inside [creation+expireAfter-x, creation+expireAfter), creation+x); observes Delete calls, RequeueAfter, error",
			N:    nq(3000, 40000),
			Gen:  genExp,
			Enum: enumExp,
			Impl: implExp,
			Rule: "non-trivial = managed, not deleting NodeClaim with expiry enabled (the threshold comparison is reached)",
			Nontrivial: func(raw json.RawMessage, _ any) bool {
				var in ExpIn
				json.Unmarshal(raw, &in)
				return in.Managed && !in.Deleting && in.ExpireAfter != nil
			},
			Labels:         expLabels,
			Signature:      func(json.RawMessage, any) string { return "expiration" },
			Shrink:         expShrink,
			ExhaustiveNote: "managed x deleting x {Never,0,1h} x clock at edge {-1s,-1ns,0,+1ns,+1s} x Delete outcome {ok,notfound,err}; managed, not deleting: {Never,1h} x terminationGracePeriod {0,1ns,10m,1h,2h} x NodePool {none, same, shorter expireAfter} x clock at {creation+expireAfter, creation+expireAfter-terminationGracePeriod, creation+1min} + edge x Delete outcome",
		},
		{
			Name:           "c16.gc",
			Doc:            "nodeclaim/garbagecollection Controller.Reconcile on the fake client: random clusters of NodeClaims / provider instances / Nodes (incl. terminating Nodes: deletion timestamp set, still present) with NodeClaim-list, provider-list and Delete failures of every error class (kube API: internal / NotFound (bare, wrapped) / Conflict / Timeout / TooManyRequests / Forbidden / ServiceUnavailable / Expired / NoKindMatch / context canceled / deadline; provider: untyped / NodeClaimNotFoundError (bare, wrapped, joined) / InsufficientCapacityError / NodeClassNotReadyError / CreateError / kube NotFound / context errors; a failing provider List may return a partial result too) (no Node-lookup failures); observes the set of NodeClaims Delete was called for",
			N:              nq(3000, 40000),
			Gen:            genGC,
			Enum:           enumGC,
			Impl:           implGC,
			ExhaustiveNote: "three Registered NodeClaims (Node Ready / NotReady / absent) x provider {lists all, lists none, lists all as terminating} x {no fault, NodeClaim list fails with each API error class, provider List fails with each provider error class x {nil, partial} result, Delete fails with each API error class}",
			Rule:           "non-trivial = at least one NodeClaim passes the registered / not-deleting / not-listed-by-provider filter (its Node is looked up)",
			Nontrivial:     gcNontrivial,
			Labels:         gcLabels,
			Signature:      gcSignature,
			Shrink:         gcShrink,
		},
		{
			Name:           "c16.gc_lookup",
			Doc:            "garbagecollection Controller.Reconcile with the Node lookup failed (client interceptor; every API error class, of collectable claims in 30% of the random clusters) and with duplicate Nodes: exhaustive single-claim matrix + random clusters",
			N:              nq(1500, 15000),
			Gen:            genGCLookup,
			Enum:           enumGCLookup,
			Impl:           implGC,
			Rule:           "non-trivial = at least one NodeClaim passes the controller's filter",
			Nontrivial:     gcNontrivial,
			Labels:         gcLabels,
			Signature:      gcSignature,
			Shrink:         gcShrink,
			ExhaustiveNote: "one NodeClaim: Registered {True,False,Unknown,absent} x provider {absent,listed,terminating} x Nodes {none, one (4 Ready states x terminating or not), two (6 mixes, 2 with terminating Nodes)} x Node lookup {ok, failed with each API error class} x deleting (failed lookups: 3 Node representatives)",
		},
		{
			Name: "c16.liveness",
			Doc:  "nodeclaim/lifecycle Controller.Reconcile (launch, registration, initialization, Liveness) on the fake client: Launched/Registered states x fake clock around LaunchTimeout / registrationTimeout x NodePool Get / status patch / Delete outcomes per call; observes Delete calls and error",
			N:    nq(2500, 30000),
			Gen:  genLive,
			Enum: enumLive,
			Impl: implLive,
			Rule: "non-trivial = managed, not deleting, Registered not True (the liveness timeouts are evaluated)",
			Nontrivial: func(raw json.RawMessage, _ any) bool {
				var in LiveIn
				json.Unmarshal(raw, &in)
				return in.Managed && !in.Deleting && in.Registered != "True"
			},
			Labels:         liveLabels,
			Signature:      func(json.RawMessage, any) string { return "liveness" },
			ExhaustiveNote: "Launched x Registered (4x4) x clock at each timeout edge {-1ns,0,+1ns} x every single fault position (Get/patch/Delete, 1st or 2nd call, each class) x registration-health window {empty,[fail]}",
		},
		{
			Name: "c16.repair",
			Doc:  "node/health Controller.Reconcile on the fake client: repair policies x Node conditions x fake clock around the toleration x pool / cluster population around the 20% breaker (incl. terminating Nodes: deletion timestamp set, still present) x NodeClaim-list / Node-list / annotate / Delete failures; observes Delete calls, RequeueAfter, error",
			N:    nq(3000, 40000),
			Gen:  genRepair,
			Enum: enumRepair,
			Impl: implRepair,
			Rule: "non-trivial = exactly one NodeClaim for the Node and the Node matches a repair policy (toleration and breaker are evaluated)",
			Nontrivial: func(raw json.RawMessage, _ any) bool {
				var in RepairIn
				json.Unmarshal(raw, &in)
				_, ok := minTermination(in.Policies, in.Node.Conds)
				return ok && in.Claims == "one" && !in.ClaimListFault
			},
			Labels:         repairLabels,
			Signature:      func(json.RawMessage, any) string { return "repair" },
			ExhaustiveNote: "pooled and standalone: population 1..11 x unhealthy 1..4 x clock at toleration edge {-1ns,0,+1ns} x terminating Nodes {none, one / all other unhealthy, all unhealthy + target, one healthy}; every single fault at populations 5/1 and 6/2",
		},
		{
			Name:       "c16.repair_seq",
			Doc:        "ONE node/health controller reconciling the Nodes of an evolving cluster again and again on one fake client (fake clock advancing): conditions flip, Nodes start terminating (deletion timestamp, kept by the finalizer - as after an earlier repair) and disappear, Node-list / Delete failures; every Node has its own NodeClaim; observes Delete calls, RequeueAfter, error of every reconcile; the spec is evaluated on every Delete against the cluster as it was at that moment",
			N:          nq(1200, 15000),
			Gen:        genRepairSeq,
			Impl:       implRepairSeq,
			Rule:       "non-trivial = some reconcile is of a present, managed Node that matches a repair policy",
			Nontrivial: repairSeqNontrivial,
			Labels:     repairSeqLabels,
			Signature:  func(json.RawMessage, any) string { return "repair_seq" },
			Shrink:     repairSeqShrink,
		},
		{
			Name:           "c16.repair_target",
			Doc:            "node/health Controller.Reconcile on the fake client, WHICH NodeClaim it acts on: the c16.repair clusters (policies x conditions x clock around the toleration x population around the 20% breaker x faults) with ALL NodeClaims of the cluster present - the Node's own, the other Nodes', stale ones and NodeClaims still launching (status.providerID \"\", no Node; some already deleting) - and Nodes without spec.providerID (the reconciled Node in 35% of the inputs); observes the NAMES of the NodeClaims Delete and Patch (termination timestamp) were called for, RequeueAfter, error; the spec is evaluated on every deleted name (it must be the reconciled Node's own NodeClaim - same, non-empty provider id - and the repair trigger must hold)",
			N:              nq(2500, 20000),
			Gen:            genRepairTarget,
			Enum:           enumRepairTarget,
			Impl:           implRepairTarget,
			Rule:           "non-trivial = the Node matches a repair policy and either exactly one NodeClaim carries its provider id or the Node has no provider id while some NodeClaim has none either",
			Nontrivial:     repairTargetNontrivial,
			Labels:         repairTargetLabels,
			Signature:      func(json.RawMessage, any) string { return "repair_target" },
			Shrink:         repairTargetShrink,
			ExhaustiveNote: "Node {with, without} provider id x own NodeClaim {present, absent, not launched yet} x launching NodeClaims {0,1,2} x {pooled, standalone} x {deleting or not} x clock at toleration edge {-1ns,0,+1ns} x breaker {closed, open} x target {unhealthy, healthy}",
		},
	}
}
