// Package c16: correspondence ops for C16 (stub, not yet built).
package c16

import (
	"verifharness/internal/core"
	"verifharness/internal/registry"
)

func init() { registry.Register("C16", Ops) }

func Ops() []*core.Op { return nil }
