package c16

import (
	"context"
	"encoding/json"
	"fmt"
	"math/rand/v2"
	"sort"
	"time"

	corev1 "k8s.io/api/core/v1"
	metav1 "k8s.io/apimachinery/pkg/apis/meta/v1"
	"k8s.io/apimachinery/pkg/types"
	clocktesting "k8s.io/utils/clock/testing"
	"sigs.k8s.io/controller-runtime/pkg/client"
	"sigs.k8s.io/controller-runtime/pkg/client/interceptor"

	v1 "sigs.k8s.io/karpenter/pkg/apis/v1"
	"sigs.k8s.io/karpenter/pkg/cloudprovider"
	"sigs.k8s.io/karpenter/pkg/controllers/node/health"
	"sigs.k8s.io/karpenter/pkg/test"

	"verifharness/internal/core"
)

// c16.repair_target: WHICH NodeClaim does node repair act on? The node/health controller starts from a Node and
// deletes a NodeClaim; the cluster around the reconciled Node holds the Node's own NodeClaim, the NodeClaims of the
// other Nodes, stale NodeClaims and NodeClaims that are still launching (status.providerID still "", no Node, no
// condition), and Nodes - the reconciled one included - may have no spec.providerID (yet). The observable is the
// NAMES of the NodeClaims Delete / Patch was called for.

type TNode struct {
	RNode
	PID string `json:"pid"` // spec.providerID; "" = not set (cloud-controller-manager has not populated it / foreign Node)
}

type TClaim struct {
	Name     string `json:"name"`
	PID      string `json:"pid"`  // status.providerID; "" = not launched yet
	Pool     string `json:"pool"` // nodepool label; "" = standalone
	Deleting bool   `json:"deleting,omitempty"`
}

type RepairTIn struct {
	Policies       []RPolicy `json:"policies"`
	Node           TNode     `json:"node"`   // the Node being reconciled
	Others         []TNode   `json:"others"` // the other Nodes of the cluster
	Claims         []TClaim  `json:"claims"` // ALL NodeClaims of the cluster
	Now            int64     `json:"now"`
	ClaimListFault string    `json:"claimListFault,omitempty"` // the NodeClaim list by provider id: "" | one of apiErrClasses
	NodeListFault  string    `json:"nodeListFault,omitempty"`
	PatchFault     string    `json:"patchFault,omitempty"`
	DeleteFault    string    `json:"deleteFault,omitempty"`
}

type RepairTOut struct {
	Deleted   []string `json:"deleted"` // NodeClaims Delete was called for (call order)
	Patched   []string `json:"patched"` // NodeClaims Patch was called for (termination-timestamp annotation)
	RequeueNs int64    `json:"requeueNs"`
	Err       bool     `json:"err"`
}

const tTargetPID = "fake://i-target"

// The population / policies / clock / faults come from the c16.repair generator (20% breaker edge, toleration
// edge); on top of it:
//   - the reconciled Node has no provider id in 35% of the inputs, every other Node in 10%;
//   - the Node's own NodeClaim exists as often as in c16.repair (a NodeClaim with the target instance's provider id
//     also exists when the Node does not carry the id yet);
//   - 0 (30%), 1 (45%), 2 (15%) or 3 (10%) NodeClaims are still launching (provider id ""), mostly in the Node's
//     pool, 10% of them already deleting;
//   - 80% of the other Nodes that have a provider id have their own NodeClaim; 20% of the clusters hold a stale
//     NodeClaim whose provider id no Node carries.
func genRepairTarget(r *rand.Rand, t core.Tier) any {
	base := genRepair(r, t).(RepairIn)
	in := RepairTIn{Policies: base.Policies, Others: []TNode{}, Claims: []TClaim{}, Now: base.Now,
		NodeListFault: base.NodeListFault, PatchFault: base.PatchFault, DeleteFault: base.DeleteFault}
	if base.ClaimListFault {
		in.ClaimListFault = orErr(base.ClaimListErr)
	}
	in.Node = TNode{RNode: base.Node, PID: tTargetPID}
	if r.Float64() < 0.35 {
		in.Node.PID = ""
	}
	switch base.Claims {
	case "one":
		in.Claims = append(in.Claims, TClaim{Name: "nc-own", PID: tTargetPID, Pool: base.ClaimPool, Deleting: base.ClaimDeleting})
	case "dup":
		in.Claims = append(in.Claims, TClaim{Name: "nc-own", PID: tTargetPID, Pool: base.ClaimPool, Deleting: base.ClaimDeleting},
			TClaim{Name: "nc-own-dup", PID: tTargetPID, Pool: base.ClaimPool})
	}
	nLaunching := 0
	switch x := r.Float64(); {
	case x < 0.30:
	case x < 0.75:
		nLaunching = 1
	case x < 0.90:
		nLaunching = 2
	default:
		nLaunching = 3
	}
	for i := 0; i < nLaunching; i++ {
		pool := base.ClaimPool
		if r.Float64() < 0.25 {
			pool = pick(r, []string{"a", "b", ""})
		}
		in.Claims = append(in.Claims, TClaim{Name: fmt.Sprintf("nc-launching-%d", i), PID: "", Pool: pool, Deleting: r.Float64() < 0.1})
	}
	for i, o := range base.Others {
		n := TNode{RNode: o, PID: fmt.Sprintf("fake://i-o%02d", i)}
		if r.Float64() < 0.1 {
			n.PID = ""
		}
		in.Others = append(in.Others, n)
		if n.PID != "" && r.Float64() < 0.8 {
			in.Claims = append(in.Claims, TClaim{Name: fmt.Sprintf("nc-o%02d", i), PID: n.PID, Pool: o.Pool})
		}
	}
	if r.Float64() < 0.2 {
		in.Claims = append(in.Claims, TClaim{Name: "nc-stale", PID: "fake://i-gone", Pool: pick(r, []string{"a", "b", ""})})
	}
	r.Shuffle(len(in.Claims), func(i, j int) { in.Claims[i], in.Claims[j] = in.Claims[j], in.Claims[i] })
	return in
}

// Node {with, without} provider id x own NodeClaim {present, absent, still without provider id} x launching
// NodeClaims {0, 1, 2} (pooled / standalone, deleting or not) x clock at the toleration edge x breaker closed / open
func enumRepairTarget(_ core.Tier) []any {
	var out []any
	pol := []RPolicy{{Type: "BadNode", Status: "False", TolerationNs: sec(1800)}, {Type: "Ready", Status: "Unknown", TolerationNs: sec(600)}}
	bad := []RCond{{Type: "BadNode", Status: "False", Since: sec(1000)}}
	good := []RCond{{Type: "BadNode", Status: "True", Since: sec(1000)}, {Type: "Ready", Status: "True", Since: sec(1000)}}
	for _, nodePID := range []string{tTargetPID, ""} {
		for _, own := range []string{"present", "absent", "unlaunched"} {
			for nl := 0; nl <= 2; nl++ {
				for _, lpool := range []string{"a", ""} {
					for _, ldel := range []bool{false, true} {
						if nl == 0 && (lpool != "a" || ldel) {
							continue
						}
						for _, d := range []int64{-1, 0, 1} {
							for _, unhealthyOthers := range []int{0, 2} { // of 6 nodes: 1 unhealthy <= 2 (closed), 3 > 2 (open)
								for _, targetBad := range []bool{true, false} {
									if !targetBad && (d != 0 || unhealthyOthers != 0) {
										continue
									}
									in := RepairTIn{Policies: pol, Others: []TNode{}, Claims: []TClaim{}, Now: sec(1000) + sec(1800) + d}
									in.Node = TNode{RNode: RNode{Name: "node-target", Pool: "a", Conds: bad}, PID: nodePID}
									if !targetBad {
										in.Node.Conds = good
									}
									switch own {
									case "present":
										in.Claims = append(in.Claims, TClaim{Name: "nc-own", PID: tTargetPID, Pool: "a"})
									case "unlaunched": // the Node's "own" NodeClaim has not been given its provider id yet
										in.Claims = append(in.Claims, TClaim{Name: "nc-own", PID: "", Pool: "a"})
									}
									for i := 0; i < nl; i++ {
										in.Claims = append(in.Claims, TClaim{Name: fmt.Sprintf("nc-launching-%d", i), PID: "", Pool: lpool, Deleting: ldel})
									}
									for i := 0; i < 5; i++ {
										o := TNode{RNode: RNode{Name: fmt.Sprintf("node-%02d", i), Pool: "a", Conds: good}, PID: fmt.Sprintf("fake://i-o%02d", i)}
										if i < unhealthyOthers {
											o.Conds = bad
										}
										in.Others = append(in.Others, o)
										in.Claims = append(in.Claims, TClaim{Name: fmt.Sprintf("nc-o%02d", i), PID: o.PID, Pool: "a"})
									}
									out = append(out, in)
								}
							}
						}
					}
				}
			}
		}
	}
	return out
}

func implRepairTarget(raw json.RawMessage) (any, error) {
	var in RepairTIn
	if err := json.Unmarshal(raw, &in); err != nil {
		return nil, err
	}
	mkNode := func(n TNode, i int) *corev1.Node {
		node := &corev1.Node{
			ObjectMeta: metav1.ObjectMeta{Name: n.Name, UID: types.UID("uid-" + n.Name), CreationTimestamp: mt(sec(int64(i))), Labels: map[string]string{"kubernetes.io/hostname": n.Name}},
			Spec:       corev1.NodeSpec{ProviderID: n.PID},
		}
		if n.Pool != "" {
			node.Labels[v1.NodePoolLabelKey] = n.Pool
		}
		for _, c := range n.Conds {
			node.Status.Conditions = append(node.Status.Conditions, corev1.NodeCondition{Type: corev1.NodeConditionType(c.Type), Status: corev1.ConditionStatus(c.Status), LastTransitionTime: mt(c.Since)})
		}
		if n.Terminating {
			node.Finalizers = []string{v1.TerminationFinalizer}
		}
		return node
	}
	target := mkNode(in.Node, 0)
	objs := []client.Object{target}
	names := map[string]bool{in.Node.Name: true}
	for i, o := range in.Others {
		if names[o.Name] {
			return nil, fmt.Errorf("duplicate node name %q", o.Name)
		}
		names[o.Name] = true
		objs = append(objs, mkNode(o, i+1))
	}
	for _, p := range []string{"a", "b"} {
		objs = append(objs, &v1.NodePool{ObjectMeta: metav1.ObjectMeta{Name: p, UID: types.UID("uid-pool-" + p), CreationTimestamp: mt(0)}})
	}
	cnames := map[string]bool{}
	for i, cl := range in.Claims {
		if cnames[cl.Name] || cl.Name == "" {
			return nil, fmt.Errorf("duplicate / empty nodeclaim name %q", cl.Name)
		}
		cnames[cl.Name] = true
		nc := &v1.NodeClaim{
			ObjectMeta: metav1.ObjectMeta{Name: cl.Name, UID: types.UID("uid-" + cl.Name), CreationTimestamp: mt(sec(int64(i))), Finalizers: []string{v1.TerminationFinalizer}, Labels: map[string]string{}},
			Spec:       v1.NodeClaimSpec{NodeClassRef: nodeClassRef()},
			Status:     v1.NodeClaimStatus{ProviderID: cl.PID},
		}
		if cl.Pool != "" {
			nc.Labels[v1.NodePoolLabelKey] = cl.Pool
		}
		objs = append(objs, nc)
	}
	rec := &recorder{}
	var patched []string
	armed := false
	c := newClient(interceptor.Funcs{
		List: func(ctx context.Context, w client.WithWatch, list client.ObjectList, opts ...client.ListOption) error {
			if armed {
				switch list.(type) {
				case *v1.NodeClaimList:
					if err := apiErr(in.ClaimListFault, "nodeclaims"); err != nil {
						return err
					}
				case *corev1.NodeList:
					if err := apiErr(in.NodeListFault, "nodes"); err != nil {
						return err
					}
				}
			}
			return w.List(ctx, list, opts...)
		},
		Patch: func(ctx context.Context, w client.WithWatch, obj client.Object, patch client.Patch, opts ...client.PatchOption) error {
			if _, ok := obj.(*v1.NodeClaim); ok && armed {
				rec.mu.Lock()
				patched = append(patched, obj.GetName())
				rec.mu.Unlock()
				if err := apiErr(in.PatchFault, obj.GetName()); err != nil {
					return err
				}
			}
			return w.Patch(ctx, obj, patch, opts...)
		},
		Delete: func(ctx context.Context, w client.WithWatch, obj client.Object, opts ...client.DeleteOption) error {
			if _, ok := obj.(*v1.NodeClaim); ok && armed {
				rec.deleted(obj.GetName())
				if err := apiErr(in.DeleteFault, obj.GetName()); err != nil {
					return err
				}
			}
			return w.Delete(ctx, obj, opts...)
		},
	}, objs...)
	ctx := baseCtx()
	for _, cl := range in.Claims {
		if cl.Deleting {
			if err := c.Delete(ctx, &v1.NodeClaim{ObjectMeta: metav1.ObjectMeta{Name: cl.Name}}); err != nil {
				return nil, fmt.Errorf("setup: %w", err)
			}
		}
	}
	for _, n := range append([]TNode{in.Node}, in.Others...) {
		if n.Terminating {
			if err := c.Delete(ctx, &corev1.Node{ObjectMeta: metav1.ObjectMeta{Name: n.Name}}); err != nil {
				return nil, fmt.Errorf("setup: %w", err)
			}
			chk := &corev1.Node{}
			if err := c.Get(ctx, client.ObjectKey{Name: n.Name}, chk); err != nil || chk.DeletionTimestamp.IsZero() {
				return nil, fmt.Errorf("setup: node %s is not terminating (%v)", n.Name, err)
			}
		}
	}
	got := &corev1.Node{}
	if err := c.Get(ctx, client.ObjectKeyFromObject(target), got); err != nil {
		return nil, fmt.Errorf("setup: %w", err)
	}
	cp := newProvider()
	cp.RepairPolicy = nil
	for _, p := range in.Policies {
		cp.RepairPolicy = append(cp.RepairPolicy, cloudprovider.RepairPolicy{ConditionType: corev1.NodeConditionType(p.Type), ConditionStatus: corev1.ConditionStatus(p.Status), TolerationDuration: time.Duration(p.TolerationNs)})
	}
	clk := clocktesting.NewFakeClock(at(in.Now))
	armed = true
	res, err := health.NewController(c, cp, clk, test.NewEventRecorder()).Reconcile(ctx, got)
	out := RepairTOut{Deleted: append([]string{}, rec.deletes...), Patched: append([]string{}, patched...), RequeueNs: int64(res.RequeueAfter), Err: err != nil}
	return out, nil
}

// the NodeClaims carrying the Node's provider id, as the specification sees them (a Node without provider id has none)
func ownClaims(in *RepairTIn) []TClaim {
	var out []TClaim
	for _, c := range in.Claims {
		if in.Node.PID != "" && c.PID == in.Node.PID {
			out = append(out, c)
		}
	}
	return out
}

func repairTargetNontrivial(raw json.RawMessage, _ any) bool {
	var in RepairTIn
	json.Unmarshal(raw, &in)
	_, unhealthy := minTermination(in.Policies, in.Node.Conds)
	if !unhealthy || in.ClaimListFault != "" {
		return false
	}
	if len(ownClaims(&in)) == 1 {
		return true
	}
	// a Node without provider id next to NodeClaims without provider id: the lookup must not resolve
	if in.Node.PID == "" {
		for _, c := range in.Claims {
			if c.PID == "" {
				return true
			}
		}
	}
	return false
}

func repairTargetLabels(raw json.RawMessage, impl any) []string {
	var in RepairTIn
	json.Unmarshal(raw, &in)
	l := []string{}
	if in.Node.PID == "" {
		l = append(l, "node:no-providerID")
	} else {
		l = append(l, "node:providerID")
	}
	nl, nld := 0, 0
	for _, c := range in.Claims {
		if c.PID == "" {
			nl++
			if c.Deleting {
				nld++
			}
		}
	}
	switch {
	case nl >= 2:
		l = append(l, "launching-claims:2+")
	default:
		l = append(l, fmt.Sprintf("launching-claims:%d", nl))
	}
	if nld > 0 {
		l = append(l, "launching-claims:some-deleting")
	}
	l = append(l, fmt.Sprintf("own-claims:%d", min(len(ownClaims(&in)), 2)))
	nop := 0
	for _, o := range in.Others {
		if o.PID == "" {
			nop++
		}
	}
	if nop > 0 {
		l = append(l, "others:some-without-providerID")
	}
	t, unhealthy := minTermination(in.Policies, in.Node.Conds)
	switch {
	case !unhealthy:
		l = append(l, "target:healthy")
	case in.Now < t:
		l = append(l, "clock:before-toleration-end")
	default:
		l = append(l, "clock:toleration-lasted")
	}
	if unhealthy && in.Now >= t && in.Node.PID == "" && nl == 1 {
		// what a lookup by the empty provider id would resolve to exactly one NodeClaim
		l = append(l, "circumstance:unhealthy-node-without-providerID+exactly-one-launching-claim")
	}
	if unhealthy && in.Now >= t && in.Node.PID == "" && nl > 1 {
		l = append(l, "circumstance:unhealthy-node-without-providerID+several-launching-claims")
	}
	if in.ClaimListFault != "" {
		l = append(l, "fault:claimList")
	}
	if in.NodeListFault != "" {
		l = append(l, "fault:nodeList")
	}
	if in.PatchFault != "" {
		l = append(l, "fault:patch")
	}
	if in.DeleteFault != "" {
		l = append(l, "fault:delete")
	}
	if m, ok := impl.(map[string]any); ok {
		if d, ok := m["deleted"].([]any); ok && len(d) > 0 {
			l = append(l, "deleted")
			own := map[string]bool{}
			for _, c := range ownClaims(&in) {
				own[c.Name] = true
			}
			for _, x := range d {
				if !own[fmt.Sprint(x)] {
					l = append(l, "deleted:NOT-the-node's-claim")
					break
				}
			}
		}
		if p, ok := m["patched"].([]any); ok && len(p) > 0 {
			l = append(l, "patched")
		}
	}
	sort.Strings(l)
	return l
}

func repairTargetShrink(raw json.RawMessage) []any {
	var in RepairTIn
	json.Unmarshal(raw, &in)
	var out []any
	for _, cs := range core.ShrinkList(in.Claims) {
		x := in
		x.Claims = cs
		if x.Claims == nil {
			x.Claims = []TClaim{}
		}
		out = append(out, x)
	}
	for _, os := range core.ShrinkList(in.Others) {
		x := in
		x.Others = os
		if x.Others == nil {
			x.Others = []TNode{}
		}
		out = append(out, x)
	}
	for _, f := range []func(*RepairTIn) bool{
		func(x *RepairTIn) bool { ok := x.NodeListFault != ""; x.NodeListFault = ""; return ok },
		func(x *RepairTIn) bool { ok := x.PatchFault != ""; x.PatchFault = ""; return ok },
		func(x *RepairTIn) bool { ok := x.DeleteFault != ""; x.DeleteFault = ""; return ok },
		func(x *RepairTIn) bool { ok := x.ClaimListFault != ""; x.ClaimListFault = ""; return ok },
		func(x *RepairTIn) bool {
			if len(x.Policies) <= 1 {
				return false
			}
			x.Policies = x.Policies[:1]
			return true
		},
	} {
		x := in
		if f(&x) {
			out = append(out, x)
		}
	}
	return out
}
