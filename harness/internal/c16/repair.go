package c16

import (
	"context"
	"encoding/json"
	"fmt"
	"math/rand/v2"
	"time"

	corev1 "k8s.io/api/core/v1"
	metav1 "k8s.io/apimachinery/pkg/apis/meta/v1"
	"k8s.io/apimachinery/pkg/types"
	clocktesting "k8s.io/utils/clock/testing"
	"sigs.k8s.io/controller-runtime/pkg/client"
	"sigs.k8s.io/controller-runtime/pkg/client/interceptor"

	v1 "sigs.k8s.io/karpenter/pkg/apis/v1"
	"sigs.k8s.io/karpenter/pkg/cloudprovider"
	"sigs.k8s.io/karpenter/pkg/controllers/node/health"
	"sigs.k8s.io/karpenter/pkg/test"

	"verifharness/internal/core"
)

type RPolicy struct {
	Type         string `json:"type"`
	Status       string `json:"status"`
	TolerationNs int64  `json:"tolerationNs"`
}
type RCond struct {
	Type   string `json:"type"`
	Status string `json:"status"`
	Since  int64  `json:"since"` // last transition, ns since t0 (whole seconds)
}
type RNode struct {
	Name  string  `json:"name"`
	Pool  string  `json:"pool"` // value of the nodepool label on the Node; "" = no label
	Conds []RCond `json:"conds"`
	// the Node has a deletion timestamp but still exists (e.g. draining under the termination finalizer after an
	// earlier repair / disruption)
	Terminating bool `json:"terminating,omitempty"`
}
type RepairIn struct {
	Policies       []RPolicy `json:"policies"`
	Node           RNode     `json:"node"`          // the Node being reconciled
	Claims         string    `json:"claims"`        // NodeClaims matching the node's provider id: "one" | "none" | "dup"
	ClaimPool      string    `json:"claimPool"`     // nodepool label on the NodeClaim; "" = standalone claim (no label)
	ClaimDeleting  bool      `json:"claimDeleting"` // the NodeClaim already has a deletion timestamp
	Annot          string    `json:"annot"`         // termination-timestamp annotation: "" none | "time" | "garbage"
	AnnotSec       int64     `json:"annotSec"`      // for "time": whole seconds since t0
	Others         []RNode   `json:"others"`        // the other Nodes of the cluster
	Now            int64     `json:"now"`
	ClaimListFault bool      `json:"claimListFault"`         // listing the NodeClaim of the node fails
	ClaimListErr   string    `json:"claimListErr,omitempty"` // ... with this error class (apiErrClasses; "" = "err")
	NodeListFault  string    `json:"nodeListFault"`          // listing the pool's / cluster's nodes: "" | one of apiErrClasses
	PatchFault     string    `json:"patchFault"`             // annotating the NodeClaim
	DeleteFault    string    `json:"deleteFault"`
	// frame: durations the NodeClaim carries that are no part of the repair trigger (null = unset / Never)
	ClaimTGP         *int64 `json:"claimTgp,omitempty"`         // spec.terminationGracePeriod, ns
	ClaimExpireAfter *int64 `json:"claimExpireAfter,omitempty"` // spec.expireAfter, ns
}

var condTypes = []string{"BadNode", "Ready", "NetworkUnavailable", "DiskPressure"}
var condStatuses = []string{"True", "False", "Unknown"}
var tolerations = []int64{0, sec(1), sec(300), sec(600), sec(1800)}

func matchesPolicy(ps []RPolicy, conds []RCond) bool {
	for _, p := range ps {
		for _, c := range conds {
			if c.Type == p.Type { // first condition of that type (GetCondition)
				if c.Status == p.Status {
					return true
				}
				break
			}
		}
	}
	return false
}

// earliest termination time among matching policies, ok=false if none matches
func minTermination(ps []RPolicy, conds []RCond) (int64, bool) {
	best, ok := int64(0), false
	for _, p := range ps {
		for _, c := range conds {
			if c.Type == p.Type {
				if c.Status == p.Status {
					t := c.Since + p.TolerationNs
					if !ok || t < best {
						best, ok = t, true
					}
				}
				break
			}
		}
	}
	return best, ok
}

func genConds(r *rand.Rand, ps []RPolicy, unhealthy bool, base int64) []RCond {
	conds := []RCond{}
	used := map[string]bool{}
	if unhealthy && len(ps) > 0 {
		k := 1
		if r.Float64() < 0.3 {
			k = 2
		}
		for i := 0; i < k; i++ {
			p := pick(r, ps)
			if used[p.Type] {
				continue
			}
			used[p.Type] = true
			conds = append(conds, RCond{Type: p.Type, Status: p.Status, Since: base + sec(r.Int64N(600))})
		}
	}
	for _, t := range condTypes {
		if used[t] || r.Float64() < 0.5 {
			continue
		}
		// a status that matches no policy for that type
		var st string
		okSt := false
		for try := 0; try < 6 && !okSt; try++ {
			st = pick(r, condStatuses)
			okSt = true
			for _, p := range ps {
				if p.Type == t && p.Status == st {
					okSt = false
				}
			}
		}
		if !okSt {
			continue
		}
		used[t] = true
		conds = append(conds, RCond{Type: t, Status: st, Since: base + sec(r.Int64N(600))})
	}
	r.Shuffle(len(conds), func(i, j int) { conds[i], conds[j] = conds[j], conds[i] })
	if len(conds) > 0 && r.Float64() < 0.05 { // duplicate type: only the first entry counts
		c := conds[r.IntN(len(conds))]
		c.Status = pick(r, condStatuses)
		conds = append(conds, c)
	}
	return conds
}

func genRepair(r *rand.Rand, _ core.Tier) any {
	in := RepairIn{Policies: []RPolicy{}, Others: []RNode{}, Claims: "one"}
	np := 1 + r.IntN(3)
	if r.Float64() < 0.05 {
		np = 0
	}
	for i := 0; i < np; i++ {
		in.Policies = append(in.Policies, RPolicy{Type: pick(r, condTypes), Status: pick(r, condStatuses), TolerationNs: pick(r, tolerations)})
	}
	base := sec(r.Int64N(100000))
	in.ClaimPool = pick(r, []string{"a", "a", "a", "b", ""})
	targetUnhealthy := r.Float64() < 0.9
	in.Node = RNode{Name: "node-target", Pool: in.ClaimPool, Conds: genConds(r, in.Policies, targetUnhealthy, base)}
	if r.Float64() < 0.1 { // the Node's own label differs from the claim's
		in.Node.Pool = pick(r, []string{"a", "b", ""})
	}
	// the population the circuit breaker counts: aim at the 20% edge
	n := 1 + r.IntN(14)
	thr := (n*20 + 99) / 100
	var u int
	switch x := r.Float64(); {
	case x < 0.3:
		u = thr
	case x < 0.55:
		u = thr + 1
	case x < 0.7:
		u = thr - 1
	default:
		u = r.IntN(n + 1)
	}
	if u < 0 {
		u = 0
	}
	inPool, tu := 0, 0
	if in.Node.Pool == in.ClaimPool || in.ClaimPool == "" {
		inPool = 1
		if matchesPolicy(in.Policies, in.Node.Conds) {
			tu = 1
		}
	}
	for i := 0; i < n-inPool; i++ {
		un := i < u-tu
		pool := in.ClaimPool
		if pool == "" && r.Float64() < 0.5 {
			pool = pick(r, []string{"a", "b"})
		}
		in.Others = append(in.Others, RNode{Name: fmt.Sprintf("node-%02d", i), Pool: pool, Conds: genConds(r, in.Policies, un, base)})
	}
	// nodes outside the counted population
	// (a mostly healthy or a mostly unhealthy rest of the cluster: the breaker must look at the pool only)
	if in.ClaimPool != "" {
		pUn := pick(r, []float64{0, 0.1, 0.7, 1})
		for i, k := 0, r.IntN(12); i < k; i++ {
			other := "b"
			if in.ClaimPool == "b" {
				other = "a"
			}
			in.Others = append(in.Others, RNode{Name: fmt.Sprintf("node-x%d", i), Pool: pick(r, []string{other, ""}), Conds: genConds(r, in.Policies, r.Float64() < pUn, base)})
		}
	}
	// terminating Nodes (deletion timestamp set, still present): none in half of the clusters; otherwise some of
	// the unhealthy Nodes (draining after an earlier repair) and some of the healthy ones (being consolidated),
	// and now and then the reconciled Node itself
	if r.Float64() < 0.5 {
		pu := pick(r, []float64{0.3, 0.6, 1})
		ph := pick(r, []float64{0, 0.1, 0.5})
		for i := range in.Others {
			if matchesPolicy(in.Policies, in.Others[i].Conds) {
				in.Others[i].Terminating = r.Float64() < pu
			} else {
				in.Others[i].Terminating = r.Float64() < ph
			}
		}
		in.Node.Terminating = r.Float64() < 0.15
	}
	r.Shuffle(len(in.Others), func(i, j int) { in.Others[i], in.Others[j] = in.Others[j], in.Others[i] })
	if t, ok := minTermination(in.Policies, in.Node.Conds); ok {
		if r.Float64() < 0.75 {
			in.Now = t + genDelta(r)
		} else {
			in.Now = t + r.Int64N(sec(7200))
		}
	} else {
		in.Now = base + r.Int64N(sec(7200))
	}
	// frame: 40% of the NodeClaims carry a terminationGracePeriod, 50% an expireAfter; with a grace period g, 25%
	// of the clocks are drawn inside [toleration end - g, toleration end)
	if r.Float64() < 0.4 {
		g := pick(r, []int64{0, sec(1), sec(30), sec(300), sec(600), sec(3600)})
		in.ClaimTGP = &g
		if t, ok := minTermination(in.Policies, in.Node.Conds); ok && g > 0 && r.Float64() < 0.25 {
			in.Now = t - g + r.Int64N(g)
		}
	}
	if r.Float64() < 0.5 {
		e := pick(r, []int64{0, sec(60), sec(300), sec(600), sec(1800), sec(3600), sec(720 * 3600)})
		in.ClaimExpireAfter = &e
	}
	switch x := r.Float64(); {
	case x < 0.05:
		in.Claims = "none"
	case x < 0.1:
		in.Claims = "dup"
	}
	in.ClaimDeleting = r.Float64() < 0.07
	switch x := r.Float64(); {
	case x < 0.1:
		in.Annot, in.AnnotSec = "time", in.Now/int64(time.Second)+pick(r, []int64{-100, -1, 0, 1, 100})
	case x < 0.13:
		in.Annot = "garbage"
	}
	// error classes: half of the faults are "err" / "notfound" (the two the controller tells apart), the other
	// half uniform over all apiErrClasses
	cls := func() string {
		if r.IntN(2) == 0 {
			return pick(r, []string{"err", "notfound"})
		}
		return pick(r, apiErrClasses)
	}
	if in.ClaimListFault = r.Float64() < 0.04; in.ClaimListFault {
		in.ClaimListErr = cls()
	}
	if r.Float64() < 0.12 {
		in.NodeListFault = cls()
	}
	if r.Float64() < 0.08 {
		in.PatchFault = cls()
	}
	if r.Float64() < 0.08 {
		in.DeleteFault = cls()
	}
	return in
}

// pool sizes 0..11 x unhealthy counts x clock at the toleration edge x every single fault, pool and standalone
func enumRepair(_ core.Tier) []any {
	var out []any
	pol := []RPolicy{{Type: "BadNode", Status: "False", TolerationNs: sec(1800)}, {Type: "Ready", Status: "Unknown", TolerationNs: sec(600)}}
	bad := []RCond{{Type: "BadNode", Status: "False", Since: sec(1000)}}
	good := []RCond{{Type: "BadNode", Status: "True", Since: sec(1000)}, {Type: "Ready", Status: "True", Since: sec(1000)}}
	type ft struct {
		claimList                      bool
		claimErr, nodeList, patch, del string
	}
	// every single fault position x every API error class
	faults := []ft{{}}
	for _, cls := range apiErrClasses {
		faults = append(faults, ft{claimList: true, claimErr: cls}, ft{nodeList: cls}, ft{patch: cls}, ft{del: cls})
	}
	for _, claimPool := range []string{"a", ""} {
		for n := 1; n <= 11; n++ {
			for u := 1; u <= n && u <= 4; u++ {
				for _, d := range []int64{-1, 0, 1} {
					for _, f := range faults {
						if (f != ft{}) && !(n == 5 && u == 1) && !(n == 6 && u == 2) {
							continue
						}
						// which Nodes are terminating (deletion timestamp set, still present): none; one / all of the
						// other unhealthy ones (draining after an earlier repair); all other unhealthy ones and the
						// reconciled Node; one healthy Node
						for _, term := range []string{"none", "one-unhealthy", "all-unhealthy", "all-unhealthy+target", "one-healthy"} {
							if term != "none" && (f != ft{} || d == 1) {
								continue
							}
							if (term == "one-unhealthy" || term == "all-unhealthy" || term == "all-unhealthy+target") && u < 2 {
								continue
							}
							if term == "one-unhealthy" && u == 2 {
								continue // same as all-unhealthy
							}
							if term == "one-healthy" && n == u {
								continue
							}
							in := RepairIn{Policies: pol, Node: RNode{Name: "node-target", Pool: claimPool, Conds: bad, Terminating: term == "all-unhealthy+target"}, Claims: "one", ClaimPool: claimPool, Others: []RNode{},
								Now: sec(1000) + sec(1800) + d, ClaimListFault: f.claimList, ClaimListErr: f.claimErr, NodeListFault: f.nodeList, PatchFault: f.patch, DeleteFault: f.del}
							for i := 0; i < n-1; i++ {
								o := RNode{Name: fmt.Sprintf("node-%02d", i), Pool: claimPool, Conds: good}
								if i < u-1 {
									o.Conds = bad
									o.Terminating = term == "all-unhealthy" || term == "all-unhealthy+target" || (term == "one-unhealthy" && i == 0)
								} else if i == u-1 {
									o.Terminating = term == "one-healthy"
								}
								in.Others = append(in.Others, o)
							}
							out = append(out, in)
						}
					}
				}
			}
		}
	}
	return out
}

func implRepair(raw json.RawMessage) (any, error) {
	var in RepairIn
	if err := json.Unmarshal(raw, &in); err != nil {
		return nil, err
	}
	const targetPID = "fake://i-target"
	mkNode := func(n RNode, pid string, i int) *corev1.Node {
		node := &corev1.Node{
			ObjectMeta: metav1.ObjectMeta{Name: n.Name, UID: types.UID("uid-" + n.Name), CreationTimestamp: mt(sec(int64(i))), Labels: map[string]string{"kubernetes.io/hostname": n.Name}},
			Spec:       corev1.NodeSpec{ProviderID: pid},
		}
		if n.Pool != "" {
			node.Labels[v1.NodePoolLabelKey] = n.Pool
		}
		for _, c := range n.Conds {
			node.Status.Conditions = append(node.Status.Conditions, corev1.NodeCondition{Type: corev1.NodeConditionType(c.Type), Status: corev1.ConditionStatus(c.Status), LastTransitionTime: mt(c.Since)})
		}
		if n.Terminating {
			// deleted in the setup below: the finalizer keeps the object, with a deletion timestamp
			node.Finalizers = []string{v1.TerminationFinalizer}
		}
		return node
	}
	target := mkNode(in.Node, targetPID, 0)
	objs := []client.Object{target}
	for i, o := range in.Others {
		objs = append(objs, mkNode(o, fmt.Sprintf("fake://i-o%02d", i), i+1))
	}
	for _, p := range []string{"a", "b"} {
		objs = append(objs, &v1.NodePool{ObjectMeta: metav1.ObjectMeta{Name: p, UID: types.UID("uid-pool-" + p), CreationTimestamp: mt(0)}})
	}
	nClaims := map[string]int{"one": 1, "none": 0, "dup": 2}[in.Claims]
	for i := 0; i < nClaims; i++ {
		nc := &v1.NodeClaim{
			ObjectMeta: metav1.ObjectMeta{Name: fmt.Sprintf("nc-%d", i), UID: types.UID(fmt.Sprintf("uid-nc-%d", i)), CreationTimestamp: mt(0), Finalizers: []string{v1.TerminationFinalizer}, Labels: map[string]string{}},
			Spec:       v1.NodeClaimSpec{NodeClassRef: nodeClassRef()},
			Status:     v1.NodeClaimStatus{ProviderID: targetPID, NodeName: in.Node.Name},
		}
		if in.ClaimPool != "" {
			nc.Labels[v1.NodePoolLabelKey] = in.ClaimPool
		}
		if in.ClaimTGP != nil {
			nc.Spec.TerminationGracePeriod = &metav1.Duration{Duration: time.Duration(*in.ClaimTGP)}
		}
		if in.ClaimExpireAfter != nil {
			nc.Spec.ExpireAfter = v1.NillableDuration{Duration: (*time.Duration)(in.ClaimExpireAfter)}
		}
		switch in.Annot {
		case "time":
			nc.Annotations = map[string]string{v1.NodeClaimTerminationTimestampAnnotationKey: at(sec(in.AnnotSec)).Format(time.RFC3339)}
		case "garbage":
			nc.Annotations = map[string]string{v1.NodeClaimTerminationTimestampAnnotationKey: "not-a-time"}
		}
		objs = append(objs, nc)
	}
	rec := &recorder{}
	armed := false
	c := newClient(interceptor.Funcs{
		List: func(ctx context.Context, w client.WithWatch, list client.ObjectList, opts ...client.ListOption) error {
			if armed {
				switch list.(type) {
				case *v1.NodeClaimList:
					if in.ClaimListFault {
						return apiErr(orErr(in.ClaimListErr), "nodeclaims")
					}
				case *corev1.NodeList:
					if err := apiErr(in.NodeListFault, "nodes"); err != nil {
						return err
					}
				}
			}
			return w.List(ctx, list, opts...)
		},
		Patch: func(ctx context.Context, w client.WithWatch, obj client.Object, patch client.Patch, opts ...client.PatchOption) error {
			if _, ok := obj.(*v1.NodeClaim); ok && armed {
				rec.bump("patch")
				if err := apiErr(in.PatchFault, obj.GetName()); err != nil {
					return err
				}
			}
			return w.Patch(ctx, obj, patch, opts...)
		},
		Delete: func(ctx context.Context, w client.WithWatch, obj client.Object, opts ...client.DeleteOption) error {
			if _, ok := obj.(*v1.NodeClaim); ok && armed {
				rec.deleted(obj.GetName())
				if err := apiErr(in.DeleteFault, obj.GetName()); err != nil {
					return err
				}
			}
			return w.Delete(ctx, obj, opts...)
		},
	}, objs...)
	ctx := baseCtx()
	if in.ClaimDeleting {
		for i := 0; i < nClaims; i++ {
			if err := c.Delete(ctx, &v1.NodeClaim{ObjectMeta: metav1.ObjectMeta{Name: fmt.Sprintf("nc-%d", i)}}); err != nil {
				return nil, fmt.Errorf("setup: %w", err)
			}
		}
	}
	for _, n := range append([]RNode{in.Node}, in.Others...) {
		if n.Terminating {
			if err := c.Delete(ctx, &corev1.Node{ObjectMeta: metav1.ObjectMeta{Name: n.Name}}); err != nil {
				return nil, fmt.Errorf("setup: %w", err)
			}
			chk := &corev1.Node{}
			if err := c.Get(ctx, client.ObjectKey{Name: n.Name}, chk); err != nil || chk.DeletionTimestamp.IsZero() {
				return nil, fmt.Errorf("setup: node %s is not terminating (%v)", n.Name, err)
			}
		}
	}
	got := &corev1.Node{}
	if err := c.Get(ctx, client.ObjectKeyFromObject(target), got); err != nil {
		return nil, fmt.Errorf("setup: %w", err)
	}
	cp := newProvider()
	cp.RepairPolicy = nil
	for _, p := range in.Policies {
		cp.RepairPolicy = append(cp.RepairPolicy, cloudprovider.RepairPolicy{ConditionType: corev1.NodeConditionType(p.Type), ConditionStatus: corev1.ConditionStatus(p.Status), TolerationDuration: time.Duration(p.TolerationNs)})
	}
	clk := clocktesting.NewFakeClock(at(in.Now))
	armed = true
	res, err := health.NewController(c, cp, clk, test.NewEventRecorder()).Reconcile(ctx, got)
	return ReapOut{Deletes: len(rec.deletes), RequeueNs: int64(res.RequeueAfter), Err: err != nil}, nil
}

func repairLabels(raw json.RawMessage, impl any) []string {
	var in RepairIn
	json.Unmarshal(raw, &in)
	l := []string{"claims:" + in.Claims, fmt.Sprintf("policies=%d", len(in.Policies))}
	if in.ClaimPool == "" {
		l = append(l, "standalone")
	} else {
		l = append(l, "pooled")
	}
	if t, ok := minTermination(in.Policies, in.Node.Conds); ok {
		switch d := in.Now - t; {
		case d == 0:
			l = append(l, "clock:at-edge")
		case d == -1:
			l = append(l, "clock:edge-1ns")
		case d == 1:
			l = append(l, "clock:edge+1ns")
		case d < 0:
			l = append(l, "clock:before")
		default:
			l = append(l, "clock:after")
		}
		if in.ClaimTGP != nil && *in.ClaimTGP > 0 && t-*in.ClaimTGP <= in.Now && in.Now < t {
			l = append(l, "clock:in-[tgp-window-before-toleration-end)")
		}
	} else {
		l = append(l, "target:healthy")
	}
	if in.ClaimTGP != nil {
		l = append(l, "claim:tgp-set")
	}
	if in.ClaimExpireAfter != nil {
		l = append(l, "claim:expireAfter-set")
	}
	// the population and its unhealthy count
	n, u, ut, ht := 0, 0, 0, 0
	all := append([]RNode{in.Node}, in.Others...)
	for _, x := range all {
		if in.ClaimPool == "" || x.Pool == in.ClaimPool {
			n++
			if matchesPolicy(in.Policies, x.Conds) {
				u++
				if x.Terminating {
					ut++
				}
			} else if x.Terminating {
				ht++
			}
		}
	}
	thr := (n*20 + 99) / 100
	if in.Node.Terminating {
		l = append(l, "target:terminating")
	}
	if ut > 0 {
		l = append(l, "population:unhealthy-terminating")
	}
	if ht > 0 {
		l = append(l, "population:healthy-terminating")
	}
	if ut+ht == 0 {
		l = append(l, "population:none-terminating")
	}
	if u > thr && u-ut <= thr {
		// the breaker is open only if the terminating unhealthy Nodes are counted
		l = append(l, "breaker:open-only-with-terminating")
	}
	if u <= thr && ht > 0 && u > ((n-ht)*20+99)/100 {
		// the breaker is closed only if the terminating healthy Nodes stay in the total
		l = append(l, "breaker:closed-only-with-terminating")
	}
	switch {
	case u == thr:
		l = append(l, "breaker:at-threshold")
	case u == thr+1:
		l = append(l, "breaker:threshold+1")
	case u < thr:
		l = append(l, "breaker:below")
	default:
		l = append(l, "breaker:above")
	}
	if in.ClaimListFault {
		l = append(l, "fault:claimList", "fault:claimList:"+orErr(in.ClaimListErr))
	}
	if in.NodeListFault != "" {
		l = append(l, "fault:nodeList:"+in.NodeListFault)
	}
	if in.PatchFault != "" {
		l = append(l, "fault:patch:"+in.PatchFault)
	}
	if in.DeleteFault != "" {
		l = append(l, "fault:delete:"+in.DeleteFault)
	}
	if in.ClaimDeleting {
		l = append(l, "claim:deleting")
	}
	if in.Annot != "" {
		l = append(l, "annot:"+in.Annot)
	}
	if implDeletes(impl) {
		l = append(l, "deleted")
	}
	return l
}
