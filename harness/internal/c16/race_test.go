package c16

import (
	"encoding/json"
	"sync"
	"testing"

	"verifharness/internal/core"
)

// go test -race -tags verif ./internal/c16 -run Race : the Impl functions run concurrently in kdiff
func TestRace(t *testing.T) {
	var wg sync.WaitGroup
	for w := 0; w < 8; w++ {
		wg.Add(1)
		go func(w int) {
			defer wg.Done()
			for _, op := range Ops() {
				for i := 0; i < 60; i++ {
					v := op.Gen(core.RNG(uint64(w), op.Name, i), core.Quick)
					b, _ := json.Marshal(v)
					core.SafeImpl(op, b)
				}
			}
		}(w)
	}
	wg.Wait()
}
