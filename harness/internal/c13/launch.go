package c13

import (
	"context"
	"encoding/json"
	"fmt"
	"math/rand/v2"
	"sort"
	"sync"
	"sync/atomic"
	"time"

	"k8s.io/apimachinery/pkg/types"

	v1 "sigs.k8s.io/karpenter/pkg/apis/v1"
	"sigs.k8s.io/karpenter/pkg/controllers/provisioning"
	provsched "sigs.k8s.io/karpenter/pkg/controllers/provisioning/scheduling"

	"verifharness/internal/core"
	"verifharness/internal/world"
)

// c13.launch: a whole real pass (Provisioner.Schedule) followed by the real Provisioner.CreateNodeClaims; every
// NodeClaim written to the (fake) API is compared with the scheduler's in-memory NodeClaim it was built from.

var maxITMu sync.Mutex

type Written struct {
	Labels        []KV          `json:"labels"`
	Sels          []Sel         `json:"sels"`
	ReqCPU        int64         `json:"reqCPU"`
	ReqMem        int64         `json:"reqMem"`
	ReqPods       int64         `json:"reqPods"`
	Taints        []world.Taint `json:"taints"`
	StartupTaints []world.Taint `json:"startupTaints"`
	Hash          string        `json:"hash"`
	HashVersion   string        `json:"hashVersion"`
	ExpectHash    string        `json:"expectHash"`
}

type LaunchClaim struct {
	Mem     world.ClaimOut `json:"mem"`
	Written *Written       `json:"written"`
	Err     string         `json:"err,omitempty"`
}

// LaunchIn is a world scenario plus the pass's time budget: ExpireAfter > 0 makes the context of the scheduling pass report
// DeadlineExceeded from its ExpireAfter-th Value() call on (a deterministic stand-in for the one-minute Solve timeout:
// Provisioner.Schedule launches what has been scheduled so far).
type LaunchIn struct {
	*world.Scenario
	ExpireAfter int `json:"expireAfter"`
	// ExpireFrac > 0: the time budget is that fraction of the Value() calls an unbounded pass over an identical world makes
	// (measured by a dry run first), so that the deadline strikes inside the pass whatever the size of the world
	ExpireFrac float64 `json:"expireFrac,omitempty"`
}

// expiringCtx reports DeadlineExceeded (and closes Done) from its (limit+1)-th Value() call on; Provisioner.Schedule derives
// its own timeout context from it, which observes the parent through Done().
type expiringCtx struct {
	context.Context
	calls atomic.Int64
	limit int64
	done  chan struct{}
	once  sync.Once
	dead  atomic.Bool
}

func (c *expiringCtx) Value(k any) any {
	if c.calls.Add(1) > c.limit {
		c.dead.Store(true)
		c.once.Do(func() { close(c.done) })
	}
	return c.Context.Value(k)
}
func (c *expiringCtx) Err() error {
	if c.dead.Load() {
		return context.DeadlineExceeded
	}
	return nil
}
func (c *expiringCtx) Done() <-chan struct{}       { return c.done }
func (c *expiringCtx) Deadline() (time.Time, bool) { return time.Time{}, false }

func implLaunch(raw json.RawMessage) (any, error) {
	var s world.Scenario
	if err := json.Unmarshal(raw, &s); err != nil {
		return nil, err
	}
	var ext struct {
		ExpireAfter int     `json:"expireAfter"`
		ExpireFrac  float64 `json:"expireFrac"`
	}
	_ = json.Unmarshal(raw, &ext)
	maxITMu.Lock()
	defer maxITMu.Unlock()
	if s.MaxInstanceTypes > 0 {
		old := provsched.MaxInstanceTypes
		provsched.MaxInstanceTypes = s.MaxInstanceTypes
		defer func() { provsched.MaxInstanceTypes = old }()
	}
	if ext.ExpireFrac > 0 {
		// dry run on an identical world with a context that only counts
		var s0 world.Scenario
		if err := json.Unmarshal(raw, &s0); err != nil {
			return nil, err
		}
		w0, err := world.Build(&s0)
		if err != nil {
			return nil, err
		}
		w0.Cluster.SetSynced(true)
		counter := &expiringCtx{Context: w0.Ctx, limit: 1 << 60, done: make(chan struct{})}
		_, _ = w0.Prov.Schedule(counter)
		ext.ExpireAfter = 1 + int(ext.ExpireFrac*float64(counter.calls.Load()))
	}
	w, err := world.Build(&s)
	if err != nil {
		return nil, err
	}
	var res provsched.Results
	if ext.ExpireAfter > 0 {
		w.Cluster.SetSynced(true)
		res, err = w.Prov.Schedule(&expiringCtx{Context: w.Ctx, limit: int64(ext.ExpireAfter), done: make(chan struct{})})
	} else {
		res, err = w.Schedule()
	}
	if err != nil {
		return map[string]any{"err": err.Error()}, nil
	}
	out := []LaunchClaim{}
	for _, nc := range res.NewNodeClaims {
		out = append(out, LaunchClaim{Mem: world.ExtractClaim(nc)})
	}
	names, cerr := w.Prov.CreateNodeClaims(w.Ctx, res.NewNodeClaims, provisioning.WithReason("verif"))
	for i, name := range names {
		if name == "" {
			out[i].Err = "not-created"
			continue
		}
		nc := &v1.NodeClaim{}
		if err := w.Client.Get(w.Ctx, types.NamespacedName{Name: name}, nc); err != nil {
			out[i].Err = "get-failed"
			continue
		}
		wr := &Written{Taints: world.FromTaints(nc.Spec.Taints), StartupTaints: world.FromTaints(nc.Spec.StartupTaints),
			Hash: nc.Annotations[v1.NodePoolHashAnnotationKey], HashVersion: nc.Annotations[v1.NodePoolHashVersionAnnotationKey]}
		np := &v1.NodePool{}
		if err := w.Client.Get(w.Ctx, types.NamespacedName{Name: out[i].Mem.Pool}, np); err == nil {
			wr.ExpectHash = np.Hash()
		}
		for k, v := range nc.Labels {
			wr.Labels = append(wr.Labels, KV{K: k, V: v})
		}
		sort.Slice(wr.Labels, func(a, b int) bool { return wr.Labels[a].K < wr.Labels[b].K })
		keys := map[string]bool{}
		for _, rq := range nc.Spec.Requirements {
			keys[rq.Key] = true
		}
		ks := []string{}
		for k := range keys {
			ks = append(ks, k)
		}
		sort.Strings(ks)
		wr.Sels = []Sel{}
		for _, k := range ks {
			wr.Sels = append(wr.Sels, selsOf(nc.Spec.Requirements, k)...)
		}
		req := nc.Spec.Resources.Requests
		wr.ReqCPU, wr.ReqMem, wr.ReqPods = req.Cpu().MilliValue(), world.CeilMi(*req.Memory()), req.Pods().Value()
		out[i].Written = wr
	}
	sort.Slice(out, func(a, b int) bool { return fmt.Sprint(out[a].Mem.Pods) < fmt.Sprint(out[b].Mem.Pods) })
	errs := map[string]string{}
	for p, e := range res.PodErrors {
		_ = e
		errs[p.Name] = "unschedulable"
	}
	r := map[string]any{"claims": out, "errors": errs}
	if cerr != nil {
		r["createErr"] = "create-error"
	}
	return r, nil
}

var launchOpts = world.GenOpts{InterPod: 0.1, NodeAffinity: 0.4, Existing: 0.3, Limits: 0.0, Weights: false}

func genLaunch(r *rand.Rand, t core.Tier) any {
	s := world.GenScenario(r, launchOpts)
	// a small launch cap makes truncation (and its minValues re-check) bite
	if r.Float64() < 0.6 {
		s.MaxInstanceTypes = 1 + r.IntN(3)
	}
	// a minValues floor just above the cap: the full option list meets it, the truncated one cannot
	for i := range s.Pools {
		if r.Float64() < 0.35 {
			names := []string{}
			for _, it := range s.ITs {
				names = append(names, it.Name)
			}
			mv := 2 + r.IntN(max(1, len(names)-1))
			if mv > len(names) {
				mv = len(names)
			}
			reqs := []world.MinExpr{}
			for _, e := range s.Pools[i].Reqs {
				if e.Key != "node.kubernetes.io/instance-type" {
					reqs = append(reqs, e)
				}
			}
			s.Pools[i].Reqs = append(reqs, world.MinExpr{Key: "node.kubernetes.io/instance-type", Op: "In", Values: names, MinValues: &mv})
			if r.Float64() < 0.7 {
				s.MaxInstanceTypes = mv - 1
			}
		}
	}
	// pods that pull custom keys into the NodeClaim's requirements
	for i := range s.Pods {
		if r.Float64() < 0.3 {
			s.Pods[i].Required = append(s.Pods[i].Required[:0:0], []world.KExpr{{Key: []string{"tenant", "tier"}[r.IntN(2)], Op: []string{"NotIn", "DoesNotExist"}[r.IntN(2)], Values: []string{"x"}}})
			if s.Pods[i].Required[0][0].Op == "DoesNotExist" {
				s.Pods[i].Required[0][0].Values = []string{}
			}
		}
	}
	// daemonsets that split the instance types: each selects ONE instance type and they request different amounts, none has a
	// running pod yet (the scheduler gets template-synthesized daemon pods), so that instance types admit different daemon
	// sets of the same size
	if len(s.ITs) >= 2 && r.Float64() < 0.2 {
		perm := r.Perm(len(s.ITs))
		s.DaemonSets = s.DaemonSets[:0:0]
		for i := 0; i < 2+r.IntN(min(2, len(s.ITs)-1)); i++ {
			s.DaemonSets = append(s.DaemonSets, world.DaemonSet{Name: fmt.Sprintf("ds-split-%d", i), CPU: int64(100 + 300*i + 100*r.IntN(3)), Mem: int64(64 * (1 + i)),
				NodeSelector: map[string]string{"node.kubernetes.io/instance-type": s.ITs[perm[i]].Name}, Tolerations: []world.Toleration{{Operator: "Exists"}}})
		}
	}
	in := LaunchIn{Scenario: s}
	// a quarter of the passes run out of time after some pods have been placed
	if x := r.Float64(); x < 0.12 {
		in.ExpireAfter = 30 + r.IntN(600)
	} else if x < 0.35 {
		in.ExpireFrac = 0.15 + 0.84*r.Float64()
	}
	return in
}

func launchOp() *core.Op {
	return &core.Op{
		Name:   "c13.launch",
		Doc:    "whole real pass + real Provisioner.CreateNodeClaims: every NodeClaim written to the API vs the scheduler's in-memory NodeClaim (per-key admits-equality, instance types subset/cap/minValues floor, requests cover pods + daemon overhead, labels/taints/hash from the template, labels admitted by the claim's own requirements)",
		N:      func(t core.Tier) int { return map[core.Tier]int{core.Quick: 500, core.Thorough: 10000}[t] },
		Gen:    genLaunch,
		Impl:   implLaunch,
		Serial: false,
		Rule:   "non-trivial = at least one NodeClaim was created",
		Nontrivial: func(raw json.RawMessage, impl any) bool {
			m, _ := impl.(map[string]any)
			c, _ := m["claims"].([]any)
			return len(c) > 0
		},
		Labels: func(raw json.RawMessage, impl any) []string {
			var s world.Scenario
			json.Unmarshal(raw, &s)
			m, _ := impl.(map[string]any)
			c, _ := m["claims"].([]any)
			var ext struct {
				ExpireAfter int     `json:"expireAfter"`
				ExpireFrac  float64 `json:"expireFrac"`
			}
			json.Unmarshal(raw, &ext)
			l := []string{fmt.Sprintf("claims=%d", min(len(c), 4)), fmt.Sprintf("expiring-context=%v", ext.ExpireAfter > 0 || ext.ExpireFrac > 0), fmt.Sprintf("maxIT=%d", s.MaxInstanceTypes), fmt.Sprintf("bestEffort=%v", s.BestEffortMinVal), fmt.Sprintf("daemonsets=%d", len(s.DaemonSets))}
			for _, p := range s.Pools {
				for _, e := range p.Reqs {
					if e.MinValues != nil {
						l = append(l, "pool-minValues")
					}
				}
			}
			return l
		},
		Signature: func(raw json.RawMessage, impl any) string { return "launch" },
	}
}
