// Package c13: the launch request (NodeClaim) carries the scheduler's decision faithfully.
package c13

import (
	"context"
	"encoding/json"
	"fmt"
	"math/rand/v2"
	"sort"
	"strconv"
	"strings"

	corev1 "k8s.io/api/core/v1"
	metav1 "k8s.io/apimachinery/pkg/apis/meta/v1"
	"k8s.io/apimachinery/pkg/types"

	v1 "sigs.k8s.io/karpenter/pkg/apis/v1"
	"sigs.k8s.io/karpenter/pkg/cloudprovider/fake"
	provsched "sigs.k8s.io/karpenter/pkg/controllers/provisioning/scheduling"
	"sigs.k8s.io/karpenter/pkg/scheduling"
	"sigs.k8s.io/karpenter/pkg/test"

	"verifharness/internal/core"
	"verifharness/internal/registry"
	rg "verifharness/internal/reqgen"
)

func init() { registry.Register("C13", Ops) }

type Sel struct {
	Key       string   `json:"key"`
	Op        string   `json:"op"`
	Values    []string `json:"values"`
	MinValues *int     `json:"minValues"`
}

func selsOf(rs []v1.NodeSelectorRequirementWithMinValues, key string) []Sel {
	out := []Sel{}
	for _, s := range rs {
		if s.Key != key {
			continue
		}
		vals := append([]string{}, s.Values...)
		sort.Strings(vals)
		out = append(out, Sel{Key: s.Key, Op: string(s.Operator), Values: vals, MinValues: s.MinValues})
	}
	// canonical order within a key: Gte, Lte, then the rest (the model's order)
	rank := map[string]int{"Gte": 0, "Lte": 1}
	sort.SliceStable(out, func(i, j int) bool {
		ri, ok := rank[out[i].Op]
		if !ok {
			ri = 2
		}
		rj, ok := rank[out[j].Op]
		if !ok {
			rj = 2
		}
		return ri < rj
	})
	return out
}

// ---------- c13.roundtrip ----------

type RTIn struct {
	Key    string    `json:"key"`
	Exprs  []rg.Expr `json:"exprs"`
	Probes []string  `json:"probes"`
}

var rtKeys = []string{"team", "example.com/tier", "topology.kubernetes.io/zone", "node.kubernetes.io/instance-type"}

func genExprs(r *rand.Rand, malformed bool, max int) []rg.Expr {
	n := 1 + r.IntN(max)
	es := make([]rg.Expr, n)
	for i := range es {
		es[i] = rg.RandExpr(r, malformed)
	}
	return es
}

func implRT(raw json.RawMessage) (any, error) {
	var in RTIn
	if err := json.Unmarshal(raw, &in); err != nil {
		return nil, err
	}
	r := rg.Build(in.Key, in.Exprs)
	R := scheduling.NewRequirements(r)
	sels := R.NodeSelectorRequirements()
	back := scheduling.NewNodeSelectorRequirementsWithMinValues(sels...)
	rb := back.Get(r.Key)
	row := func(q *scheduling.Requirement) []bool {
		o := make([]bool, len(in.Probes))
		for i, p := range in.Probes {
			o[i] = q.Has(p)
		}
		return o
	}
	return map[string]any{"mem": rg.SnapOf(r), "sels": selsOf(sels, r.Key), "back": rg.SnapOf(rb), "hasMem": row(r), "hasBack": row(rb)}, nil
}

// ---------- c13.any ----------

type AnyIn struct {
	Key   string    `json:"key"`
	Exprs []rg.Expr `json:"exprs"`
	N     int       `json:"n"`
}

func implAny(raw json.RawMessage) (any, error) {
	var in AnyIn
	if err := json.Unmarshal(raw, &in); err != nil {
		return nil, err
	}
	r := rg.Build(in.Key, in.Exprs)
	outs := make([]string, in.N)
	for i := range outs {
		outs[i] = r.Any()
	}
	return map[string]any{"outs": outs}, nil
}

// genNearlyExhaustedWindow: a bounded integer window [lo, hi] (2 to 12 wide, written with Gt/Gte and Lt/Lte) of which a NotIn
// excludes all values but one or two - mostly the LAST ones, so that neither the random probes of Any() nor a scan that stops
// one candidate early finds them - or all of them (then "" is the only right answer).
func genNearlyExhaustedWindow(r *rand.Rand) []rg.Expr {
	lo := []int{0, 1, 2, 5, 100, 4096}[r.IntN(6)]
	w := 2 + r.IntN(11)
	hi := lo + w - 1
	keep := map[int]bool{}
	switch r.IntN(6) {
	case 0: // nothing left
	case 1:
		keep[lo+r.IntN(w)] = true
	case 2:
		keep[hi], keep[lo+r.IntN(w)] = true, true
	default:
		keep[hi] = true
	}
	excl := []string{}
	for v := lo; v <= hi; v++ {
		if !keep[v] {
			excl = append(excl, strconv.Itoa(v))
		}
	}
	r.Shuffle(len(excl), func(i, j int) { excl[i], excl[j] = excl[j], excl[i] })
	var es []rg.Expr
	if lo > 0 && r.IntN(2) == 0 {
		es = append(es, rg.Expr{Op: "Gt", Values: []string{strconv.Itoa(lo - 1)}})
	} else {
		es = append(es, rg.Expr{Op: "Gte", Values: []string{strconv.Itoa(lo)}})
	}
	if r.IntN(2) == 0 {
		es = append(es, rg.Expr{Op: "Lt", Values: []string{strconv.Itoa(hi + 1)}})
	} else {
		es = append(es, rg.Expr{Op: "Lte", Values: []string{strconv.Itoa(hi)}})
	}
	es = append(es, rg.Expr{Op: "NotIn", Values: excl})
	r.Shuffle(len(es), func(i, j int) { es[i], es[j] = es[j], es[i] })
	return es
}

// validated NodePool-style numeric expressions (what ValidateRequirement accepts: one non-negative integer)
// genValidatedExprs draws expressions for a NodePool template (malformed operand lists included: validation must reject
// them) or, with wellFormed, for the pod side (pod specs are validated by the API server).
func genValidatedExprs(r *rand.Rand, wellFormed ...bool) []rg.Expr {
	onlyWellFormed := len(wellFormed) > 0 && wellFormed[0]
	n := 1 + r.IntN(3)
	es := make([]rg.Expr, 0, n)
	nums := []string{"0", "1", "2", "3", "4", "5", "7", "05", rg.MaxIntS, "9223372036854775806"}
	for i := 0; i < n; i++ {
		switch op := rg.Ops[r.IntN(len(rg.Ops))]; {
		case rg.IsCmp(op):
			switch x := r.Float64(); {
			case onlyWellFormed:
				es = append(es, rg.Expr{Op: op, Values: []string{nums[r.IntN(len(nums))]}})
			case x < 0.04:
				// operand lists that validation must reject (the constructor reads values[0] unguarded)
				es = append(es, rg.Expr{Op: op, Values: []string{}})
			case x < 0.06:
				es = append(es, rg.Expr{Op: op, Values: []string{"1", "2"}})
			case x < 0.08:
				es = append(es, rg.Expr{Op: op, Values: []string{[]string{"a", "1.5", "", "0x10"}[r.IntN(4)]}})
			default:
				es = append(es, rg.Expr{Op: op, Values: []string{nums[r.IntN(len(nums))]}})
			}
		case op == "In" || op == "NotIn":
			k := r.IntN(4)
			if op == "In" && k == 0 {
				k = 1
			}
			vs := []string{}
			for j := 0; j < k; j++ {
				vs = append(vs, []string{"0", "1", "2", "3", "4", "5", "a", "b", "05"}[r.IntN(9)])
			}
			es = append(es, rg.Expr{Op: op, Values: vs})
		default:
			es = append(es, rg.Expr{Op: op, Values: []string{}})
		}
	}
	return es
}

// ---------- c13.template ----------

type KV struct {
	K string `json:"k"`
	V string `json:"v"`
}

type Taint struct {
	Key    string `json:"key"`
	Value  string `json:"value"`
	Effect string `json:"effect"`
}

type KeyExprs struct {
	Key   string    `json:"key"`
	Exprs []rg.Expr `json:"exprs"`
}

type TmplIn struct {
	Name          string     `json:"name"`
	Labels        []KV       `json:"labels"`
	Taints        []Taint    `json:"taints"`
	StartupTaints []Taint    `json:"startupTaints"`
	Reqs          []KeyExprs `json:"reqs"`      // NodePool template requirements (validated by the real ValidateRequirement)
	PodReqs       []KeyExprs `json:"podReqs"`   // extra narrowing added by the scheduler (pod requirements on the same keys)
	NumTypes      int        `json:"numTypes"`  // instance-type options
	Static        bool       `json:"static"`
	// template metadata.annotations (not validated by karpenter): may shadow the computed hash annotations
	Annotations []KV `json:"annotations"`
}

var customKeys = []string{"team", "example.com/tier", "tenant"}

func genTmpl(r *rand.Rand, t core.Tier) any {
	in := TmplIn{Name: fmt.Sprintf("pool-%d", r.IntN(5)), NumTypes: 1 + r.IntN(8), Static: r.Float64() < 0.1}
	for i, n := 0, r.IntN(3); i < n; i++ {
		in.Labels = append(in.Labels, KV{K: []string{"env", "owner", "example.com/x"}[i], V: []string{"prod", "dev", "x1"}[r.IntN(3)]})
	}
	effects := []string{"NoSchedule", "NoExecute", "PreferNoSchedule"}
	for i, n := 0, r.IntN(3); i < n; i++ {
		in.Taints = append(in.Taints, Taint{Key: fmt.Sprintf("t%d", i), Value: "v", Effect: effects[r.IntN(3)]})
	}
	for i, n := 0, r.IntN(2); i < n; i++ {
		in.StartupTaints = append(in.StartupTaints, Taint{Key: fmt.Sprintf("s%d", i), Value: "", Effect: effects[r.IntN(2)]})
	}
	// requirements over custom keys (every operator) and some well-known keys
	perm := r.Perm(len(customKeys))
	for i, n := 0, r.IntN(len(customKeys)+1); i < n; i++ {
		in.Reqs = append(in.Reqs, KeyExprs{Key: customKeys[perm[i]], Exprs: genValidatedExprs(r)})
	}
	if r.Float64() < 0.5 {
		in.Reqs = append(in.Reqs, KeyExprs{Key: corev1.LabelTopologyZone, Exprs: []rg.Expr{{Op: "In", Values: []string{"test-zone-1", "test-zone-2"}}}})
	}
	if r.Float64() < 0.3 {
		in.Reqs = append(in.Reqs, KeyExprs{Key: v1.CapacityTypeLabelKey, Exprs: []rg.Expr{{Op: "In", Values: []string{"spot", "on-demand"}[:1+r.IntN(2)]}}})
	}
	if r.Float64() < 0.5 && len(in.Reqs) > 0 {
		k := in.Reqs[r.IntN(len(in.Reqs))].Key
		in.PodReqs = append(in.PodReqs, KeyExprs{Key: k, Exprs: genValidatedExprs(r, true)[:1]})
	}
	if r.Float64() < 0.3 {
		in.Annotations = append(in.Annotations, KV{K: "example.com/note", V: "x"})
		if r.Float64() < 0.6 {
			in.Annotations = append(in.Annotations, KV{K: v1.NodePoolHashAnnotationKey, V: "1234567890"})
		}
		if r.Float64() < 0.6 {
			in.Annotations = append(in.Annotations, KV{K: v1.NodePoolHashVersionAnnotationKey, V: "v2"})
		}
	}
	if in.Annotations == nil {
		in.Annotations = []KV{}
	}
	if in.Labels == nil {
		in.Labels = []KV{}
	}
	if in.Taints == nil {
		in.Taints = []Taint{}
	}
	if in.StartupTaints == nil {
		in.StartupTaints = []Taint{}
	}
	if in.Reqs == nil {
		in.Reqs = []KeyExprs{}
	}
	if in.PodReqs == nil {
		in.PodReqs = []KeyExprs{}
	}
	return in
}

func toTaints(ts []Taint) []corev1.Taint {
	var out []corev1.Taint
	for _, t := range ts {
		out = append(out, corev1.Taint{Key: t.Key, Value: t.Value, Effect: corev1.TaintEffect(t.Effect)})
	}
	return out
}

func fromTaints(ts []corev1.Taint) []Taint {
	out := []Taint{}
	for _, t := range ts {
		out = append(out, Taint{Key: t.Key, Value: t.Value, Effect: string(t.Effect)})
	}
	return out
}

func implTmpl(raw json.RawMessage) (any, error) {
	var in TmplIn
	if err := json.Unmarshal(raw, &in); err != nil {
		return nil, err
	}
	ctx := context.Background()
	np := test.NodePool(v1.NodePool{ObjectMeta: metav1.ObjectMeta{Name: in.Name}})
	np.UID = types.UID("uid-" + in.Name)
	np.Spec.Template.Labels = map[string]string{}
	for _, kv := range in.Labels {
		np.Spec.Template.Labels[kv.K] = kv.V
	}
	if len(in.Annotations) > 0 {
		np.Spec.Template.Annotations = map[string]string{}
		for _, kv := range in.Annotations {
			np.Spec.Template.Annotations[kv.K] = kv.V
		}
	}
	np.Spec.Template.Spec.Taints = toTaints(in.Taints)
	np.Spec.Template.Spec.StartupTaints = toTaints(in.StartupTaints)
	var reqs []v1.NodeSelectorRequirementWithMinValues
	for _, ke := range in.Reqs {
		for _, e := range ke.Exprs {
			reqs = append(reqs, v1.NodeSelectorRequirementWithMinValues{Key: ke.Key, Operator: corev1.NodeSelectorOperator(e.Op), Values: append([]string{}, e.Values...), MinValues: e.MinValues})
		}
	}
	np.Spec.Template.Spec.Requirements = reqs
	if in.Static {
		one := int64(1)
		np.Spec.Replicas = &one
	}
	// the property's domain: NodePools that pass validation
	for _, rq := range reqs {
		if err := v1.ValidateRequirement(ctx, rq); err != nil {
			return map[string]any{"invalid": true}, nil
		}
	}
	if err := np.RuntimeValidate(ctx); err != nil {
		return map[string]any{"invalid": true}, nil
	}
	nct := provsched.NewNodeClaimTemplate(np)
	its := fake.InstanceTypes(in.NumTypes)
	nct.InstanceTypeOptions = its
	for _, ke := range in.PodReqs {
		for _, e := range ke.Exprs {
			nct.Requirements.Add(rg.New(ke.Key, e))
		}
	}
	nc := nct.ToNodeClaim()

	back := scheduling.NewNodeSelectorRequirementsWithMinValues(nc.Spec.Requirements...)
	keys := []string{}
	for k := range nct.Requirements {
		keys = append(keys, k)
	}
	sort.Strings(keys)
	var keyOut []map[string]any
	for _, k := range keys {
		mem := nct.Requirements[k]
		// probes: values of the in-memory requirement + boundary integers + the label actually written
		var es []rg.Expr
		snap := rg.SnapOf(mem)
		es = append(es, rg.Expr{Op: "In", Values: snap.Values})
		if snap.Gte != nil {
			es = append(es, rg.Expr{Op: "Gte", Values: []string{fmt.Sprint(*snap.Gte)}})
		}
		if snap.Lte != nil {
			es = append(es, rg.Expr{Op: "Lte", Values: []string{fmt.Sprint(*snap.Lte)}})
		}
		probes := rg.Probes(es)
		if v, ok := nc.Labels[k]; ok {
			found := false
			for _, p := range probes {
				if p == v {
					found = true
				}
			}
			if !found {
				probes = append(probes, v)
			}
		}
		hm, hb := make([]bool, len(probes)), make([]bool, len(probes))
		var mvB *int
		if back.Has(k) {
			mvB = back.Get(k).MinValues
		}
		for i, p := range probes {
			hm[i] = mem.Has(p)
			hb[i] = back.Has(k) && back.Get(k).Has(p)
		}
		if !back.Has(k) {
			hb = hm // key filtered out (simulation-only); the driver checks that no entry was written
		}
		keyOut = append(keyOut, map[string]any{"key": k, "probes": probes, "hasMem": hm, "hasBack": hb, "sels": selsOf(nc.Spec.Requirements, k), "mvMem": mem.MinValues, "mvBack": pick(back.Has(k), mvB, mem.MinValues)})
	}
	labels := []KV{}
	for k, v := range nc.Labels {
		labels = append(labels, KV{K: k, V: v})
	}
	sort.Slice(labels, func(i, j int) bool { return labels[i].K < labels[j].K })
	options := []string{}
	for _, it := range its {
		options = append(options, it.Name)
	}
	instanceTypes := []string{}
	for _, s := range nc.Spec.Requirements {
		if s.Key == corev1.LabelInstanceTypeStable && s.Operator == corev1.NodeSelectorOpIn {
			instanceTypes = append(instanceTypes, s.Values...)
		}
	}
	return map[string]any{
		"labels": labels, "keys": keyOut,
		"taints": fromTaints(nc.Spec.Taints), "startupTaints": fromTaints(nc.Spec.StartupTaints),
		"hash": nc.Annotations[v1.NodePoolHashAnnotationKey], "expectHash": np.Hash(),
		"hashVersion": nc.Annotations[v1.NodePoolHashVersionAnnotationKey],
		"instanceTypes": instanceTypes, "options": options,
	}, nil
}

func pick(c bool, a, b *int) *int {
	if c {
		return a
	}
	return b
}

// ---------- registration ----------

func sigOf(es []rg.Expr) string {
	set := map[string]bool{}
	for _, f := range rg.Features(es) {
		if strings.HasPrefix(f, "op:") || f == "exclusions+bound" {
			set[f] = true
		}
	}
	var l []string
	for k := range set {
		l = append(l, k)
	}
	sort.Strings(l)
	return strings.Join(l, ",")
}

func Ops() []*core.Op {
	singles := rg.SingleExprs()
	return append(baseOps(singles), launchOp())
}

func baseOps(singles []rg.Expr) []*core.Op {
	return []*core.Op{
		{
			Name: "c13.roundtrip",
			Doc:  "Requirements.NodeSelectorRequirements() then NewNodeSelectorRequirementsWithMinValues(): snapshots, emitted entries, Has over probes before/after",
			N:    func(t core.Tier) int { return map[core.Tier]int{core.Quick: 4000, core.Thorough: 80000}[t] },
			Gen: func(r *rand.Rand, t core.Tier) any {
				es := genExprs(r, r.Float64() < 0.1, 4)
				return RTIn{Key: rtKeys[r.IntN(len(rtKeys))], Exprs: es, Probes: rg.Probes(es)}
			},
			Enum: func(t core.Tier) []any {
				var out []any
				stride := 1
				if t == core.Quick {
					stride = 11
				}
				i := 0
				for _, a := range singles {
					for _, b := range singles {
						if i%stride == 0 {
							es := []rg.Expr{a, b}
							out = append(out, RTIn{Key: "team", Exprs: es, Probes: rg.Probes(es)})
						}
						i++
					}
				}
				return out
			},
			ExhaustiveNote: "thorough: every intersection of two small-scope single expressions (quick: every 11th)",
			Impl:           implRT,
			Rule:           "non-trivial = the requirement combines at least two different operators on the key",
			Nontrivial: func(raw json.RawMessage, impl any) bool {
				var in RTIn
				json.Unmarshal(raw, &in)
				ops := map[string]bool{}
				for _, e := range in.Exprs {
					ops[e.Op] = true
				}
				return len(ops) >= 2
			},
			Labels: func(raw json.RawMessage, impl any) []string {
				var in RTIn
				json.Unmarshal(raw, &in)
				l := rg.Features(in.Exprs)
				if m, ok := impl.(map[string]any); ok {
					if s, ok := m["sels"].([]any); ok {
						l = append(l, fmt.Sprintf("entries=%d", len(s)))
					}
				}
				return l
			},
			Signature: func(raw json.RawMessage, impl any) string {
				var in RTIn
				json.Unmarshal(raw, &in)
				return "roundtrip:" + sigOf(in.Exprs)
			},
			Shrink: func(raw json.RawMessage) []any {
				var in RTIn
				json.Unmarshal(raw, &in)
				var out []any
				for _, es := range core.ShrinkList(in.Exprs) {
					if len(es) > 0 {
						out = append(out, RTIn{Key: in.Key, Exprs: es, Probes: rg.Probes(es)})
					}
				}
				return out
			},
		},
		{
			Name: "c13.any",
			Doc:  "Requirement.Any() called 24 times on requirements built from validated NodePool-style expressions (every operator combination, Lt 0, Lte MaxInt, exclusions inside a bounded range, nearly or fully exhausted windows): relation + Kubernetes semantics + no panic",
			N:    func(t core.Tier) int { return map[core.Tier]int{core.Quick: 4000, core.Thorough: 80000}[t] },
			Gen: func(r *rand.Rand, t core.Tier) any {
				switch x := r.Float64(); {
				case x < 0.65:
					return AnyIn{Key: "team", Exprs: genValidatedExprs(r), N: 24}
				case x < 0.85:
					return AnyIn{Key: "team", Exprs: genNearlyExhaustedWindow(r), N: 24}
				}
				return AnyIn{Key: "team", Exprs: genExprs(r, false, 3), N: 24}
			},
			Enum: func(t core.Tier) []any {
				var out []any
				for _, a := range singles {
					out = append(out, AnyIn{Key: "team", Exprs: []rg.Expr{a}, N: 8})
				}
				return out
			},
			Impl: implAny,
			Rule: "non-trivial = the requirement has a numeric bound or exclusions (the NotIn/Exists branch of Any with a restricted range)",
			Nontrivial: func(raw json.RawMessage, impl any) bool {
				var in AnyIn
				json.Unmarshal(raw, &in)
				for _, e := range in.Exprs {
					if rg.IsCmp(e.Op) || (e.Op == "NotIn" && len(e.Values) > 0) {
						return true
					}
				}
				return false
			},
			Labels: func(raw json.RawMessage, impl any) []string {
				var in AnyIn
				json.Unmarshal(raw, &in)
				l := rg.Features(in.Exprs)
				if m, ok := impl.(map[string]any); ok {
					if outs, ok := m["outs"].([]any); ok && len(outs) > 0 {
						if s, _ := outs[0].(string); s == "" {
							l = append(l, "out:empty")
						} else {
							l = append(l, "out:value")
						}
					}
					if _, ok := m["panic"]; ok {
						l = append(l, "out:panic")
					}
				}
				return l
			},
			Signature: func(raw json.RawMessage, impl any) string {
				var in AnyIn
				json.Unmarshal(raw, &in)
				return "any:" + sigOf(in.Exprs)
			},
			Shrink: func(raw json.RawMessage) []any {
				var in AnyIn
				json.Unmarshal(raw, &in)
				var out []any
				for _, es := range core.ShrinkList(in.Exprs) {
					if len(es) > 0 {
						out = append(out, AnyIn{Key: in.Key, Exprs: es, N: in.N})
					}
				}
				return out
			},
		},
		{
			Name: "c13.template",
			Doc:  "real NewNodeClaimTemplate + ToNodeClaim on generated NodePools that pass the real ValidateRequirement/RuntimeValidate: per-key admits-equality between scheduler requirements and NodeClaim.spec.requirements, labels/taints/hash from the template, custom labels admitted, instance types subset of options, no panic",
			N:    func(t core.Tier) int { return map[core.Tier]int{core.Quick: 1500, core.Thorough: 30000}[t] },
			Gen:  genTmpl,
			Impl: implTmpl,
			Rule: "non-trivial = the NodePool passes validation and has a requirement on a custom label key",
			Nontrivial: func(raw json.RawMessage, impl any) bool {
				var in TmplIn
				json.Unmarshal(raw, &in)
				if m, ok := impl.(map[string]any); ok {
					if _, inv := m["invalid"]; inv {
						return false
					}
				}
				for _, ke := range in.Reqs {
					for _, c := range customKeys {
						if ke.Key == c {
							return true
						}
					}
				}
				return false
			},
			Labels: func(raw json.RawMessage, impl any) []string {
				var in TmplIn
				json.Unmarshal(raw, &in)
				l := []string{fmt.Sprintf("reqkeys=%d", len(in.Reqs)), fmt.Sprintf("static=%v", in.Static)}
				if m, ok := impl.(map[string]any); ok {
					if _, inv := m["invalid"]; inv {
						l = append(l, "rejected-by-validation")
					} else {
						l = append(l, "valid")
					}
				}
				for _, ke := range in.Reqs {
					l = append(l, rg.Features(ke.Exprs)...)
				}
				return l
			},
			Signature: func(raw json.RawMessage, impl any) string { return "template" },
			Shrink: func(raw json.RawMessage) []any {
				var in TmplIn
				json.Unmarshal(raw, &in)
				var out []any
				for _, rs := range core.ShrinkList(in.Reqs) {
					c := in
					c.Reqs = rs
					if c.Reqs == nil {
						c.Reqs = []KeyExprs{}
					}
					out = append(out, c)
				}
				for _, rs := range core.ShrinkList(in.PodReqs) {
					c := in
					c.PodReqs = rs
					if c.PodReqs == nil {
						c.PodReqs = []KeyExprs{}
					}
					out = append(out, c)
				}
				return out
			},
		},
	}
}
