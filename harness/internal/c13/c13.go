// Package c13: correspondence ops for C13 (stub, not yet built).
package c13

import (
	"verifharness/internal/core"
	"verifharness/internal/registry"
)

func init() { registry.Register("C13", Ops) }

func Ops() []*core.Op { return nil }
