package c10

import (
	"context"
	"errors"
	"fmt"
	"sort"
	"strconv"
	"strings"
	"time"

	"github.com/go-logr/logr"
	corev1 "k8s.io/api/core/v1"
	policyv1 "k8s.io/api/policy/v1"
	storagev1 "k8s.io/api/storage/v1"
	apierrors "k8s.io/apimachinery/pkg/api/errors"
	metav1 "k8s.io/apimachinery/pkg/apis/meta/v1"
	"k8s.io/apimachinery/pkg/runtime/schema"
	"k8s.io/apimachinery/pkg/types"
	"k8s.io/client-go/kubernetes/scheme"
	clocktesting "k8s.io/utils/clock/testing"
	"sigs.k8s.io/controller-runtime/pkg/client"
	"sigs.k8s.io/controller-runtime/pkg/client/fake"
	"sigs.k8s.io/controller-runtime/pkg/client/interceptor"
	ctrllog "sigs.k8s.io/controller-runtime/pkg/log"

	_ "sigs.k8s.io/karpenter/pkg/apis"
	v1 "sigs.k8s.io/karpenter/pkg/apis/v1"
	fakecp "sigs.k8s.io/karpenter/pkg/cloudprovider/fake"
	"sigs.k8s.io/karpenter/pkg/controllers/node/termination"
	"sigs.k8s.io/karpenter/pkg/controllers/node/termination/terminator"
	"sigs.k8s.io/karpenter/pkg/events"
	"sigs.k8s.io/karpenter/pkg/operator/options"
	"sigs.k8s.io/karpenter/pkg/test"
	testv1alpha1 "sigs.k8s.io/karpenter/pkg/test/v1alpha1"
)

func init() { ctrllog.SetLogger(logr.Discard()) }

// All times in the protocol are integer offsets from `base`: nanoseconds for the clock and node deadlines,
// whole seconds for the metav1.Time fields of pods (the API stores those with second precision).
var base = time.Unix(1_800_000_000, 0).UTC()

const (
	nodeName   = "node-a"
	otherNode  = "node-b"
	providerID = "fake://node-a"
	namespace  = "default"
	holdFin    = "verif.example/hold" // lets the fake client store a pod that carries a deletionTimestamp
	// grace period the (emulated) API server applies when an eviction/delete does not carry one and the
	// pod has no terminationGracePeriodSeconds
	defaultGraceS = 30
)

type TolIn struct {
	Key string `json:"key"`
	Op  string `json:"op"`
	Val string `json:"val"`
	Eff string `json:"eff"`
}

// PodIn is the raw (Kubernetes-level) description of one pod.
type PodIn struct {
	Prio   string      `json:"prio"`   // spec.priorityClassName
	Owners [][2]string `json:"owners"` // ownerReferences: [apiVersion, kind]
	Tols   []TolIn     `json:"tols"`   // spec.tolerations
	Grace  *int64      `json:"grace"`  // spec.terminationGracePeriodSeconds
	Dnd    *string     `json:"dnd"`    // value of the karpenter.sh/do-not-disrupt annotation (null = absent)
	Start  *int64      `json:"start"`  // status.startTime, seconds offset
	Phase  string      `json:"phase"`  // status.phase
	Del    *int64      `json:"del"`    // metadata.deletionTimestamp, seconds offset
	Other  bool        `json:"other"`  // bound to another node
}

type Step struct {
	K string `json:"k"` // add | drain | node | rec | tick | mut
	D *int64 `json:"d"` // add/drain/node: node deadline, ns offset (null = NodeClaim has no terminationGracePeriod)
	// node: raw value of the NodeClaim's karpenter.sh/nodeclaim-termination-timestamp annotation, written verbatim
	// (null = the annotation is derived from `d`: RFC3339 in UTC, or absent when `d` is null)
	A *string `json:"a"`
	// node: NodeClaim shape: "" = exactly one NodeClaim for the node, "none" = no NodeClaim,
	// "dup" = two NodeClaims with the node's provider id (both carry the annotation)
	C  string `json:"c"`
	Ps []int  `json:"ps"` // add: pod indices
	P  int    `json:"p"`  // rec/mut: pod index
	Ns int64  `json:"ns"` // tick: clock advance
	Eo string `json:"eo"` // rec: answer of the eviction sub-resource if called: ok|gone|429|multi|500|404|409
	Do string `json:"do"` // rec: answer of pod Delete if called: ok|gone|404|500
	M  string `json:"m"`  // mut: cleardnd | succeed | gone | replace | kill
}

type HistIn struct {
	Pods  []PodIn `json:"pods"`
	Now   int64   `json:"now"` // initial clock, ns offset >= 0
	Steps []Step  `json:"steps"`
}

type CallOut struct {
	K   string `json:"k"`   // evict | delete
	U   int    `json:"u"`   // pod uid (generation*len(pods) + index), -1 if not a pod of the scenario
	G   *int64 `json:"g"`   // delete: gracePeriodSeconds (null if absent)
	Pre bool   `json:"pre"` // the call carries the UID precondition of exactly that pod
}

type ItemOut struct {
	U int    `json:"u"`
	D *int64 `json:"d"` // deadline ns offset, null = none
}

type StepOut struct {
	R     string    `json:"r"` // drain/node: drained|waiting|error; rec: absent|done|requeue|error; else ""
	Calls []CallOut `json:"calls"`
	Items []ItemOut `json:"items"`
}

type HistOut struct {
	Steps []StepOut `json:"steps"`
}

// ---------- the emulated API server state ----------

type podState struct {
	in   PodIn
	gen  int
	gone bool
}

type swapClient struct{ client.WithWatch }

type world struct {
	ctx      context.Context
	clk      *clocktesting.FakeClock
	pods     []*podState
	inner    *swapClient
	c        client.Client // what karpenter sees (interceptor on top of the fake client)
	q        *terminator.Queue
	t        *terminator.Terminator
	rec      *test.EventRecorder
	calls    []CallOut
	eo, do   string // scripted answers for the current step
	useCtl   bool
	ctl      *termination.Controller
	nodeDead *int64  // deadline currently written on the NodeClaim (controller mode)
	nodeAnn  *string // raw annotation value written instead (controller mode)
	claims   string  // NodeClaim shape (controller mode): "" | none | dup
}

func uidOf(i, gen int) types.UID { return types.UID(fmt.Sprintf("u%d-%d", i, gen)) }

// uidNum numbers a pod UID as generation*slots + slot, so that uid % slots identifies the pod slot.
func (w *world) uidNum(u types.UID) int {
	i, g, ok := parseUID(u)
	if !ok || i >= len(w.pods) {
		return -1
	}
	return g*len(w.pods) + i
}

func parseUID(u types.UID) (idx, gen int, ok bool) {
	s := string(u)
	if !strings.HasPrefix(s, "u") {
		return 0, 0, false
	}
	parts := strings.Split(s[1:], "-")
	if len(parts) != 2 {
		return 0, 0, false
	}
	i, e1 := strconv.Atoi(parts[0])
	g, e2 := strconv.Atoi(parts[1])
	if e1 != nil || e2 != nil || i < 0 || g < 0 {
		return 0, 0, false
	}
	return i, g, true
}

func secTime(s int64) metav1.Time { return metav1.NewTime(base.Add(time.Duration(s) * time.Second)) }

func (w *world) podObj(i int) *corev1.Pod {
	ps := w.pods[i]
	in := ps.in
	p := &corev1.Pod{
		ObjectMeta: metav1.ObjectMeta{
			Name: fmt.Sprintf("p%d", i), Namespace: namespace, UID: uidOf(i, ps.gen),
			CreationTimestamp: metav1.NewTime(base.Add(-time.Hour + time.Duration(i)*time.Second)),
		},
		Spec: corev1.PodSpec{
			NodeName:                      nodeName,
			PriorityClassName:             in.Prio,
			TerminationGracePeriodSeconds: in.Grace,
			Containers:                    []corev1.Container{{Name: "c", Image: "img"}},
		},
		Status: corev1.PodStatus{Phase: corev1.PodPhase(in.Phase)},
	}
	if in.Other {
		p.Spec.NodeName = otherNode
	}
	for j, o := range in.Owners {
		p.OwnerReferences = append(p.OwnerReferences, metav1.OwnerReference{APIVersion: o[0], Kind: o[1], Name: fmt.Sprintf("o%d", j), UID: types.UID(fmt.Sprintf("o%d-%d", i, j))})
	}
	for _, t := range in.Tols {
		p.Spec.Tolerations = append(p.Spec.Tolerations, corev1.Toleration{Key: t.Key, Operator: corev1.TolerationOperator(t.Op), Value: t.Val, Effect: corev1.TaintEffect(t.Eff)})
	}
	if in.Dnd != nil {
		p.Annotations = map[string]string{v1.DoNotDisruptAnnotationKey: *in.Dnd}
	}
	if in.Start != nil {
		t := secTime(*in.Start)
		p.Status.StartTime = &t
	}
	if in.Del != nil {
		t := secTime(*in.Del)
		p.DeletionTimestamp = &t
		p.Finalizers = []string{holdFin}
	}
	return p
}

func (w *world) nodeObjs() []client.Object {
	node := &corev1.Node{
		ObjectMeta: metav1.ObjectMeta{
			Name: nodeName, UID: "node-a-uid", CreationTimestamp: metav1.NewTime(base.Add(-2 * time.Hour)),
			Labels: map[string]string{v1.NodePoolLabelKey: "default", v1.NodeClassLabelKey(schema.GroupKind{Group: testv1alpha1.Group, Kind: "TestNodeClass"}): "default", v1.NodeRegisteredLabelKey: "true", v1.NodeInitializedLabelKey: "true"},
		},
		Spec:   corev1.NodeSpec{ProviderID: providerID},
		Status: corev1.NodeStatus{Conditions: []corev1.NodeCondition{{Type: corev1.NodeReady, Status: corev1.ConditionTrue}}},
	}
	nc := &v1.NodeClaim{
		ObjectMeta: metav1.ObjectMeta{Name: "claim-a", UID: "claim-a-uid", CreationTimestamp: metav1.NewTime(base.Add(-2 * time.Hour)),
			Labels: map[string]string{v1.NodePoolLabelKey: "default"}},
		Spec:   v1.NodeClaimSpec{NodeClassRef: &v1.NodeClassReference{Group: testv1alpha1.Group, Kind: "TestNodeClass", Name: "default"}},
		Status: v1.NodeClaimStatus{ProviderID: providerID, NodeName: nodeName},
	}
	if w.useCtl {
		// the node is being deleted and carries karpenter's finalizer; so does the NodeClaim
		dt := metav1.NewTime(base.Add(-time.Minute))
		node.DeletionTimestamp = &dt
		node.Finalizers = []string{v1.TerminationFinalizer}
		nc.DeletionTimestamp = &dt
		nc.Finalizers = []string{v1.TerminationFinalizer}
		switch {
		case w.nodeAnn != nil:
			nc.Annotations = map[string]string{v1.NodeClaimTerminationTimestampAnnotationKey: *w.nodeAnn}
		case w.nodeDead != nil:
			nc.Annotations = map[string]string{v1.NodeClaimTerminationTimestampAnnotationKey: base.Add(time.Duration(*w.nodeDead)).Format(time.RFC3339)}
		}
	}
	other := &corev1.Node{ObjectMeta: metav1.ObjectMeta{Name: otherNode, UID: "node-b-uid"}, Spec: corev1.NodeSpec{ProviderID: "fake://node-b"}}
	objs := []client.Object{node, other}
	if !w.useCtl || w.claims != "none" {
		objs = append(objs, nc)
	}
	if w.useCtl && w.claims == "dup" {
		nc2 := nc.DeepCopy()
		nc2.Name, nc2.UID = "claim-a2", "claim-a2-uid"
		objs = append(objs, nc2)
	}
	return objs
}

// rebuild re-creates the fake API server content from the world state (the fake client refuses to
// change deletionTimestamps in place).
func (w *world) rebuild() {
	objs := w.nodeObjs()
	for i, ps := range w.pods {
		if !ps.gone {
			objs = append(objs, w.podObj(i))
		}
	}
	fc := fake.NewClientBuilder().WithScheme(scheme.Scheme).
		WithIndex(&corev1.Pod{}, "spec.nodeName", func(o client.Object) []string { return []string{o.(*corev1.Pod).Spec.NodeName} }).
		WithIndex(&corev1.Node{}, "spec.providerID", func(o client.Object) []string { return []string{o.(*corev1.Node).Spec.ProviderID} }).
		WithIndex(&v1.NodeClaim{}, "status.providerID", func(o client.Object) []string { return []string{o.(*v1.NodeClaim).Status.ProviderID} }).
		WithIndex(&storagev1.VolumeAttachment{}, "spec.nodeName", func(o client.Object) []string { return []string{o.(*storagev1.VolumeAttachment).Spec.NodeName} }).
		WithStatusSubresource(&v1.NodeClaim{}, &v1.NodePool{}).
		WithObjects(objs...).Build()
	w.inner.WithWatch = fc
}

func floorSec(ns int64) int64 { // ns >= 0 by construction of the generators; floor for safety
	s := ns / int64(time.Second)
	if ns%int64(time.Second) < 0 {
		s--
	}
	return s
}

func (w *world) nowNs() int64 { return int64(w.clk.Now().Sub(base)) }

// terminate emulates the API server starting/shortening a graceful deletion with `g` seconds.
func (w *world) terminate(i int, g int64) {
	nd := floorSec(w.nowNs()) + g
	in := &w.pods[i].in
	if in.Del == nil || nd < *in.Del {
		in.Del = &nd
	}
}

func (w *world) podGrace(i int) int64 {
	if g := w.pods[i].in.Grace; g != nil {
		return *g
	}
	return defaultGraceS
}

func statusErr(code int32, reason metav1.StatusReason, msg string) error {
	return &apierrors.StatusError{ErrStatus: metav1.Status{Status: metav1.StatusFailure, Code: code, Reason: reason, Message: msg}}
}

const multiPDBMsg = "This pod has more than one PodDisruptionBudget, which the eviction subresource does not support."

func (w *world) locate(obj client.Object) (idx int, uid int) {
	uid = w.uidNum(obj.GetUID())
	if uid < 0 {
		return -1, -1
	}
	return uid % len(w.pods), uid
}

func (w *world) onEvict(_ context.Context, _ client.Client, sub string, obj client.Object, subObj client.Object, _ ...client.SubResourceCreateOption) error {
	if sub != "eviction" {
		return fmt.Errorf("unexpected sub-resource %q", sub)
	}
	idx, uid := w.locate(obj)
	pre := false
	if ev, ok := subObj.(*policyv1.Eviction); ok && ev.DeleteOptions != nil && ev.DeleteOptions.Preconditions != nil && ev.DeleteOptions.Preconditions.UID != nil {
		pre = *ev.DeleteOptions.Preconditions.UID == obj.GetUID()
	}
	w.calls = append(w.calls, CallOut{K: "evict", U: uid, Pre: pre})
	gr := schema.GroupResource{Resource: "pods"}
	switch w.eo {
	case "ok":
		if idx >= 0 && !w.pods[idx].gone {
			w.terminate(idx, w.podGrace(idx))
			w.rebuild()
		}
		return nil
	case "gone":
		if idx >= 0 {
			w.pods[idx].gone = true
			w.rebuild()
		}
		return nil
	case "429":
		return apierrors.NewTooManyRequests("Cannot evict pod as it would violate the pod's disruption budget.", 0)
	case "multi":
		return statusErr(500, metav1.StatusReasonInternalError, multiPDBMsg)
	case "404":
		return apierrors.NewNotFound(gr, obj.GetName())
	case "409":
		return apierrors.NewConflict(gr, obj.GetName(), errors.New("precondition failed"))
	default:
		return apierrors.NewInternalError(errors.New("scripted failure"))
	}
}

func (w *world) onDelete(ctx context.Context, c client.WithWatch, obj client.Object, opts ...client.DeleteOption) error {
	if _, isPod := obj.(*corev1.Pod); !isPod {
		return c.Delete(ctx, obj, opts...)
	}
	do := &client.DeleteOptions{}
	do.ApplyOptions(opts)
	idx, uid := w.locate(obj)
	pre := do.Preconditions != nil && do.Preconditions.UID != nil && *do.Preconditions.UID == obj.GetUID()
	var g *int64
	if do.GracePeriodSeconds != nil {
		v := *do.GracePeriodSeconds
		g = &v
	}
	w.calls = append(w.calls, CallOut{K: "delete", U: uid, G: g, Pre: pre})
	gr := schema.GroupResource{Resource: "pods"}
	switch w.do {
	case "ok":
		if idx >= 0 && !w.pods[idx].gone {
			gs := w.podGrace(idx)
			if g != nil {
				gs = *g
			}
			w.terminate(idx, gs)
			w.rebuild()
		}
		return nil
	case "gone":
		if idx >= 0 {
			w.pods[idx].gone = true
			w.rebuild()
		}
		return nil
	case "404":
		return apierrors.NewNotFound(gr, obj.GetName())
	default:
		return apierrors.NewInternalError(errors.New("scripted failure"))
	}
}

func newWorld(in *HistIn, useCtl bool) *world {
	w := &world{
		ctx:    options.ToContext(context.Background(), test.Options()),
		clk:    clocktesting.NewFakeClock(base.Add(time.Duration(in.Now))),
		inner:  &swapClient{},
		rec:    test.NewEventRecorder(),
		useCtl: useCtl,
	}
	for _, p := range in.Pods {
		cp := p
		if p.Grace != nil {
			g := *p.Grace
			cp.Grace = &g
		}
		if p.Del != nil {
			d := *p.Del
			cp.Del = &d
		}
		w.pods = append(w.pods, &podState{in: cp})
	}
	w.c = interceptor.NewClient(w.inner, interceptor.Funcs{SubResourceCreate: w.onEvict, Delete: w.onDelete})
	w.q = terminator.NewQueue(w.clk, w.c, w.rec)
	w.t = terminator.NewTerminator(w.clk, w.c, w.q, w.rec)
	if useCtl {
		cp := fakecp.NewCloudProvider()
		w.ctl = termination.NewController(w.clk, w.c, cp, w.t, w.rec)
	}
	w.rebuild()
	return w
}

func (w *world) items() []ItemOut {
	out := []ItemOut{}
	for k, v := range w.q.VerifItems() {
		it := ItemOut{U: w.uidNum(k.UID)}
		if v != nil {
			d := int64(v.Sub(base))
			it.D = &d
		}
		out = append(out, it)
	}
	sort.Slice(out, func(i, j int) bool { return out[i].U < out[j].U })
	return out
}

func deadline(d *int64) *time.Time {
	if d == nil {
		return nil
	}
	t := base.Add(time.Duration(*d))
	return &t
}

func (w *world) step(s Step) (StepOut, error) {
	w.calls = []CallOut{}
	w.eo, w.do = s.Eo, s.Do
	out := StepOut{}
	switch s.K {
	case "add":
		var pods []*corev1.Pod
		for _, i := range s.Ps {
			if i < 0 || i >= len(w.pods) {
				return out, fmt.Errorf("bad pod index %d", i)
			}
			if w.pods[i].gone {
				continue
			}
			pods = append(pods, w.podObj(i))
		}
		w.q.Add(deadline(s.D), pods...)
	case "drain":
		node := &corev1.Node{}
		if err := w.c.Get(w.ctx, client.ObjectKey{Name: nodeName}, node); err != nil {
			return out, err
		}
		err := w.t.Drain(w.ctx, node, deadline(s.D))
		switch {
		case err == nil:
			out.R = "drained"
		case terminator.IsNodeDrainError(err):
			out.R = "waiting"
		default:
			out.R = "error"
		}
	case "node":
		r, err := w.nodeReconcile(s)
		if err != nil {
			return out, err
		}
		out.R = r
	case "rec":
		if s.P < 0 || s.P >= len(w.pods) {
			return out, fmt.Errorf("bad pod index %d", s.P)
		}
		// what reconcile.AsReconciler does: fetch the object; a missing object is not reconciled
		pod := &corev1.Pod{}
		err := w.c.Get(w.ctx, client.ObjectKey{Namespace: namespace, Name: fmt.Sprintf("p%d", s.P)}, pod)
		if apierrors.IsNotFound(err) {
			out.R = "absent"
			break
		}
		if err != nil {
			return out, err
		}
		res, rerr := w.q.Reconcile(w.ctx, pod)
		switch {
		case rerr != nil:
			out.R = "error"
		case res.Requeue || res.RequeueAfter > 0: //nolint:staticcheck
			out.R = "requeue"
		default:
			out.R = "done"
		}
	case "tick":
		if s.Ns < 0 {
			return out, fmt.Errorf("negative tick")
		}
		w.clk.Step(time.Duration(s.Ns))
	case "mut":
		if s.P < 0 || s.P >= len(w.pods) {
			return out, fmt.Errorf("bad pod index %d", s.P)
		}
		ps := w.pods[s.P]
		switch s.M {
		case "cleardnd":
			ps.in.Dnd = nil
		case "succeed":
			if !ps.gone {
				ps.in.Phase = "Succeeded"
			}
		case "gone":
			ps.gone = true
		case "replace":
			ps.gone = false
			ps.gen++
			ps.in.Del = nil
			ps.in.Phase = "Running"
		case "kill":
			if !ps.gone {
				w.terminate(s.P, w.podGrace(s.P))
			}
		default:
			return out, fmt.Errorf("bad mutation %q", s.M)
		}
		w.rebuild()
	default:
		return out, fmt.Errorf("bad step %q", s.K)
	}
	out.Calls = w.calls
	out.Items = w.items()
	return out, nil
}

func runHistory(in *HistIn, useCtl bool) (*HistOut, error) {
	if in.Now < 0 {
		return nil, fmt.Errorf("negative initial clock")
	}
	if len(in.Pods) > 90 {
		return nil, fmt.Errorf("too many pods")
	}
	w := newWorld(in, useCtl)
	out := &HistOut{Steps: []StepOut{}}
	for _, s := range in.Steps {
		so, err := w.step(s)
		if err != nil {
			return nil, err
		}
		out.Steps = append(out.Steps, so)
	}
	return out, nil
}

// nodeReconcile drives the real termination controller: Reconcile -> finalize -> nodeTerminationTime
// (NodeClaim annotation) -> Taint -> awaitDrain -> Terminator.Drain. Node and NodeClaim(s) are re-created
// before every call so that finalize never gets past the drain stage while there is a NodeClaim (MinDrainTime
// has not elapsed): only the drain decision of the controller is observed here. Without a (single) NodeClaim
// there is no MinDrainTime wait: a drained node goes on to lose its finalizer, which is reported as "drained".
func (w *world) nodeReconcile(s Step) (string, error) {
	if s.A == nil && s.D != nil && *s.D%int64(time.Second) != 0 {
		return "", fmt.Errorf("controller mode needs whole-second deadlines in `d` (RFC3339 annotation); use `a` for fractions")
	}
	switch s.C {
	case "", "none", "dup":
	default:
		return "", fmt.Errorf("bad NodeClaim shape %q", s.C)
	}
	w.nodeDead, w.nodeAnn, w.claims = s.D, s.A, s.C
	w.rebuild()
	w.rec.Reset()
	node := &corev1.Node{}
	if err := w.c.Get(w.ctx, client.ObjectKey{Name: nodeName}, node); err != nil {
		return "", err
	}
	res, err := w.ctl.Reconcile(w.ctx, node)
	if err != nil {
		return "error", nil
	}
	if w.rec.Calls(events.FailedDraining) > 0 {
		return "waiting", nil
	}
	if res.RequeueAfter == 0 && s.C == "" {
		return "proceeded", nil // must not happen: MinDrainTime cannot have elapsed
	}
	return "drained", nil
}
