// Package c10: correspondence ops for C10 (stub, not yet built).
package c10

import (
	"verifharness/internal/core"
	"verifharness/internal/registry"
)

func init() { registry.Register("C10", Ops) }

func Ops() []*core.Op { return nil }
