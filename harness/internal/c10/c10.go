// Package c10: drain / eviction queue — real terminator.Terminator.Drain, terminator.Queue (Add, Reconcile),
// the termination controller and the pod predicates of pkg/utils/pod vs the Lean model and specification.
package c10

import (
	"encoding/json"
	"fmt"
	"math/rand/v2"
	"strings"
	"time"

	clocktesting "k8s.io/utils/clock/testing"

	podutil "sigs.k8s.io/karpenter/pkg/utils/pod"

	"verifharness/internal/core"
	"verifharness/internal/registry"
)

func init() { registry.Register("C10", Ops) }

// ---------- leaf predicates ----------

type PredIn struct {
	Pod PodIn  `json:"pod"`
	Now int64  `json:"now"` // ns offset
	D   *int64 `json:"d"`   // node deadline ns offset, null = none
}

type PredOut struct {
	Terminal    bool `json:"terminal"`
	Terminating bool `json:"terminating"`
	Active      bool `json:"active"`
	Stuck       bool `json:"stuck"`
	Tolerates   bool `json:"tolerates"`
	Static      bool `json:"static"`
	Daemon      bool `json:"daemon"`
	DndActive   bool `json:"dndActive"`
	Disruptable bool `json:"disruptable"`
	Drainable   bool `json:"drainable"`
	Waiting     bool `json:"waiting"`
	Evictable   bool `json:"evictable"`
	ForcedElig  bool `json:"forcedEligible"`
}

func implPreds(raw json.RawMessage) (any, error) {
	var in PredIn
	if err := json.Unmarshal(raw, &in); err != nil {
		return nil, err
	}
	w := &world{pods: []*podState{{in: in.Pod}}}
	p := w.podObj(0)
	clk := clocktesting.NewFakeClock(base.Add(time.Duration(in.Now)))
	return PredOut{
		Terminal:    podutil.IsTerminal(p),
		Terminating: podutil.IsTerminating(p),
		Active:      podutil.IsActive(p),
		Stuck:       podutil.IsStuckTerminating(p, clk),
		Tolerates:   podutil.ToleratesDisruptedNoScheduleTaint(p),
		Static:      podutil.IsOwnedByNode(p),
		Daemon:      podutil.IsOwnedByDaemonSet(p),
		DndActive:   podutil.IsDoNotDisruptActive(p, clk, nil),
		Disruptable: podutil.IsDisruptable(p, clk, nil),
		Drainable:   podutil.IsDrainable(p, clk),
		Waiting:     podutil.IsWaitingEviction(p, clk),
		Evictable:   podutil.IsEvictable(p, clk, nil),
		ForcedElig:  podutil.IsPodEligibleForForcedEviction(p, deadline(in.D)),
	}, nil
}

func genPreds(r *rand.Rand, t core.Tier) any {
	now := int64(r.IntN(1000))*sec + pick(r, []int64{0, 0, 1, sec / 2, sec - 1})
	d0 := genD0(r, now)
	p := genPod(r, genCtx{now: now, d0: d0})
	in := PredIn{Pod: p, Now: now}
	if r.IntN(100) < 60 {
		in.Now += tickTo(r, now, d0, []PodIn{p})
	}
	// do-not-disrupt duration edge: clock exactly at / around start + duration
	if p.Dnd != nil && p.Start != nil && r.IntN(100) < 50 {
		for _, dd := range dndDurations {
			if dd.s == *p.Dnd && dd.d > 0 {
				e := (*p.Start + dd.d) * sec
				if e >= 0 {
					in.Now = e + pick(r, []int64{-1, 0, 1})
					if in.Now < 0 {
						in.Now = 0
					}
				}
			}
		}
	}
	if r.IntN(100) < 85 {
		in.D = p64(d0)
	}
	return in
}

// enumPreds: every toleration shape x every owner shape; every do-not-disrupt value x start-time edge;
// every phase x deletionTimestamp edge.
func enumPreds(core.Tier) []any {
	var out []any
	now := int64(10000) * sec
	d := now + 100*sec
	basePod := func() PodIn {
		return PodIn{Phase: "Running", Grace: p64(30), Owners: [][2]string{}, Tols: []TolIn{}, Start: p64(now/sec - 1000)}
	}
	for _, t := range tolChoices {
		for _, o := range ownerChoices {
			p := basePod()
			if t.v != nil {
				p.Tols = t.v
			}
			if o.v != nil {
				p.Owners = o.v
			}
			out = append(out, PredIn{Pod: p, Now: now, D: p64(d)})
		}
	}
	var vals []string
	vals = append(vals, "true")
	vals = append(vals, dndInvalid...)
	for _, dd := range dndDurations {
		vals = append(vals, dd.s)
	}
	for _, v := range vals {
		for _, age := range []*int64{nil, p64(0), p64(1), p64(29), p64(30), p64(31), p64(89), p64(90), p64(91), p64(299), p64(300), p64(301), p64(3599), p64(3600), p64(3601), p64(5399), p64(5400), p64(5401)} {
			for _, sub := range []int64{0, 1, sec - 1} {
				p := basePod()
				p.Dnd = pstr(v)
				p.Start = nil
				if age != nil {
					p.Start = p64(now/sec - *age)
				}
				out = append(out, PredIn{Pod: p, Now: now + sub, D: p64(d)})
			}
		}
	}
	for _, ph := range []string{"Running", "Pending", "Succeeded", "Failed", "", "Unknown"} {
		for _, del := range []*int64{nil, p64(now/sec - 61), p64(now/sec - 60), p64(now/sec - 59), p64(now / sec), p64(d/sec - 1), p64(d / sec), p64(d/sec + 1)} {
			for _, sub := range []int64{0, 1} {
				for _, dl := range []*int64{nil, p64(d)} {
					p := basePod()
					p.Phase = ph
					p.Del = del
					out = append(out, PredIn{Pod: p, Now: now + sub, D: dl})
				}
			}
		}
	}
	return out
}

// ---------- histories ----------

func implHist(ctl bool) func(raw json.RawMessage) (any, error) {
	return func(raw json.RawMessage) (any, error) {
		var in HistIn
		if err := json.Unmarshal(raw, &in); err != nil {
			return nil, err
		}
		return runHistory(&in, ctl)
	}
}

func decodeHist(raw json.RawMessage) HistIn {
	var in HistIn
	json.Unmarshal(raw, &in)
	return in
}

func callsOf(impl any) (evicts, deletes int) {
	m, ok := impl.(map[string]any)
	if !ok {
		return
	}
	steps, _ := m["steps"].([]any)
	for _, s := range steps {
		sm, _ := s.(map[string]any)
		cs, _ := sm["calls"].([]any)
		for _, c := range cs {
			cm, _ := c.(map[string]any)
			switch cm["k"] {
			case "evict":
				evicts++
			case "delete":
				deletes++
			}
		}
	}
	return
}

func histLabels(raw json.RawMessage, impl any) []string {
	in := decodeHist(raw)
	l := []string{fmt.Sprintf("pods=%d", len(in.Pods)), fmt.Sprintf("steps<=%d", ((len(in.Steps)/10)+1)*10)}
	for _, s := range in.Steps {
		l = append(l, "step:"+s.K)
		if (s.K == "drain" || s.K == "node" || s.K == "add") && s.D != nil {
			l = append(l, "deadline")
		}
		if s.K == "node" {
			switch {
			case s.C != "":
				l = append(l, "claim:"+s.C)
			case s.A == nil && s.D == nil:
				l = append(l, "annotation:absent")
			case s.A == nil:
				l = append(l, "annotation:utc")
			default:
				l = append(l, "annotation:"+annotationClass(*s.A))
			}
		}
	}
	e, d := callsOf(impl)
	if e > 0 {
		l = append(l, "evicted")
	}
	if d > 0 {
		l = append(l, "force-deleted")
	}
	if m, ok := impl.(map[string]any); ok {
		steps, _ := m["steps"].([]any)
		for _, s := range steps {
			sm, _ := s.(map[string]any)
			if r, _ := sm["r"].(string); r != "" {
				l = append(l, "r:"+r)
			}
		}
	}
	return l
}

// annotationClass labels a raw annotation value for the input-distribution histogram (what the real parser says
// about it, and the presentation for valid ones).
func annotationClass(a string) string {
	t, err := time.Parse(time.RFC3339, a)
	if err != nil {
		return "malformed"
	}
	c := "valid"
	if !strings.HasSuffix(a, "Z") {
		c += "-zone"
	}
	if t.Nanosecond() != 0 || strings.Contains(a, ".") {
		c += "-fraction"
	}
	return c
}

func histShrink(raw json.RawMessage) []any {
	in := decodeHist(raw)
	var out []any
	for _, c := range core.ShrinkList(in.Steps) {
		out = append(out, HistIn{Pods: in.Pods, Now: in.Now, Steps: c})
	}
	// drop one pod together with the steps that refer to it (indices above it shift down)
	if n := len(in.Pods); n > 1 {
		for j := n - 1; j >= 0; j-- {
			c := HistIn{Now: in.Now}
			c.Pods = append(append([]PodIn{}, in.Pods[:j]...), in.Pods[j+1:]...)
			for _, st := range in.Steps {
				if (st.K == "rec" || st.K == "mut") && st.P == j {
					continue
				}
				ns := st
				if (st.K == "rec" || st.K == "mut") && st.P > j {
					ns.P--
				}
				ns.Ps = []int{}
				for _, i := range st.Ps {
					switch {
					case i == j:
					case i > j:
						ns.Ps = append(ns.Ps, i-1)
					default:
						ns.Ps = append(ns.Ps, i)
					}
				}
				if st.K == "add" && len(ns.Ps) == 0 {
					continue
				}
				c.Steps = append(c.Steps, ns)
			}
			if c.Steps == nil {
				c.Steps = []Step{}
			}
			out = append(out, c)
		}
	}
	// simplify one pod field at a time
	for j, p := range in.Pods {
		simpler := []func(q *PodIn) bool{
			func(q *PodIn) bool { c := q.Dnd != nil; q.Dnd = nil; return c },
			func(q *PodIn) bool { c := len(q.Tols) > 0; q.Tols = []TolIn{}; return c },
			func(q *PodIn) bool { c := q.Start != nil; q.Start = nil; return c },
			func(q *PodIn) bool { c := q.Other; q.Other = false; return c },
		}
		for _, f := range simpler {
			q := p
			if f(&q) {
				c := HistIn{Now: in.Now, Steps: in.Steps}
				c.Pods = append([]PodIn{}, in.Pods...)
				c.Pods[j] = q
				out = append(out, c)
			}
		}
	}
	return out
}

func hasRemoval(_ json.RawMessage, impl any) bool {
	e, d := callsOf(impl)
	return e+d > 0
}

func Ops() []*core.Op {
	n := func(q, th int) func(core.Tier) int {
		return func(t core.Tier) int {
			if t == core.Thorough {
				return th
			}
			return q
		}
	}
	return []*core.Op{
		{
			Name:           "c10.preds",
			Doc:            "pkg/utils/pod predicates (IsActive, IsTerminal, IsStuckTerminating, ToleratesDisruptedNoScheduleTaint, IsOwnedByNode/DaemonSet, IsDoNotDisruptActive, IsDisruptable, IsDrainable, IsWaitingEviction, IsEvictable, IsPodEligibleForForcedEviction) on one pod, clock and node deadline",
			N:              n(3000, 40000),
			Gen:            genPreds,
			Enum:           enumPreds,
			Impl:           implPreds,
			ExhaustiveNote: "every toleration shape x every owner shape; every do-not-disrupt value x pod age at/around each duration x sub-second clock; every phase x deletionTimestamp at/around now-60s and the deadline",
			Rule:           "random pods (priority class, owners, tolerations, grace, do-not-disrupt value, start, phase, deletionTimestamp) with the clock at/around deadline-grace, deletionTimestamp+1min and start+duration; non-trivial = pod terminating or annotated or tolerating or owned",
			Nontrivial: func(raw json.RawMessage, _ any) bool {
				var in PredIn
				json.Unmarshal(raw, &in)
				p := in.Pod
				return p.Del != nil || p.Dnd != nil || len(p.Tols) > 0 || len(p.Owners) > 0
			},
			Labels: func(raw json.RawMessage, impl any) []string {
				var l []string
				if m, ok := impl.(map[string]any); ok {
					for k, v := range m {
						if b, _ := v.(bool); b {
							l = append(l, k)
						}
					}
				}
				return l
			},
			Signature: func(json.RawMessage, any) string { return "preds" },
		},
		{
			Name:           "c10.reconcile",
			Doc:            "terminator.Queue.Add + one Queue.Reconcile for one pod on the fake client; eviction sub-resource and pod Delete answered by an interceptor (ok/429/multi-PDB/500/404/409)",
			N:              n(1500, 20000),
			Gen:            genReconcile,
			Enum:           enumReconcile,
			Impl:           implHist(false),
			ExhaustiveNote: "phase x deletionTimestamp{nil,D-1s,D,D+1s} x grace{nil,0,30} x tolerating x static x do-not-disrupt x queue entry{absent,no deadline,D} x clock{D-grace-1s,-1ns,0,+1ns,+1s} x eviction answer{ok,429}; remaining time to D x delete answers; every eviction answer",
			Rule:           "non-trivial = the reconcile made an eviction or delete call",
			Nontrivial:     hasRemoval,
			Labels:         histLabels,
			Signature:      func(json.RawMessage, any) string { return "reconcile" },
		},
		{
			Name:           "c10.drain",
			Doc:            "terminator.Terminator.Drain passes over a pod mix on the fake client; queue items (verif accessor) and drain verdict after each pass",
			N:              n(1500, 20000),
			Gen:            genDrain,
			Enum:           enumDrain,
			Impl:           implHist(false),
			ExhaustiveNote: "3 pods x every priority/daemon class x every subset past its force-delete threshold x deadline present/absent; every kind of pod the drain must skip, alone and next to a critical daemon pod",
			Rule:           "non-trivial = at least one pod was enqueued",
			Nontrivial: func(_ json.RawMessage, impl any) bool {
				m, ok := impl.(map[string]any)
				if !ok {
					return false
				}
				steps, _ := m["steps"].([]any)
				for _, s := range steps {
					sm, _ := s.(map[string]any)
					if it, _ := sm["items"].([]any); len(it) > 0 {
						return true
					}
				}
				return false
			},
			Labels:    histLabels,
			Signature: func(json.RawMessage, any) string { return "drain" },
			Shrink:    histShrink,
		},
		{
			Name:       "c10.history",
			Doc:        "interleavings of Terminator.Drain passes, Queue.Reconcile calls, clock advances and pod changes (annotation cleared, pod finished/gone/replaced/killed) with scripted eviction/delete answers; calls and queue items after every step",
			N:          n(2000, 20000),
			Gen:        func(r *rand.Rand, t core.Tier) any { return genHistory(r, t, false) },
			Impl:       implHist(false),
			Rule:       "random histories (3..26 steps quick, 3..72 thorough, 1..6 pods); non-trivial = at least one eviction or delete call was made",
			Nontrivial: hasRemoval,
			Labels:     histLabels,
			Signature:  func(json.RawMessage, any) string { return "history" },
			Shrink:     histShrink,
		},
		{
			Name:           "c10.controller",
			Doc:            "the same histories with every drain pass driven through termination.Controller.Reconcile (finalize -> NodeClaimForNode -> nodeTerminationTime from the NodeClaim annotation -> Taint -> awaitDrain -> Drain); the NodeClaim presents the deadline as an RFC 3339 timestamp in UTC / another zone / with a fraction, as a value that is not a timestamp, not at all, or there is no / more than one NodeClaim",
			N:              n(400, 3000),
			Gen:            func(r *rand.Rand, t core.Tier) any { return genHistory(r, t, true) },
			Enum:           enumController,
			ExhaustiveNote: "every presentation of the node deadline (UTC, 6 zones x 7 fractions, +00:00/-00:00, 29 classes of values that are not timestamps with one or two NodeClaims, no annotation, no NodeClaim, duplicate NodeClaims) x clock before/after the pods' thresholds, over a PDB-blocked pod, a do-not-disrupt pod and a critical pod",
			Impl:           implHist(true),
			Rule:           "random histories; per controller pass 50 % annotation derived from the deadline (UTC) or absent, 22 % other zone/fraction, 18 % not a timestamp, 5 % no NodeClaim, 5 % duplicate NodeClaims; non-trivial = at least one eviction or delete call was made",
			Nontrivial:     hasRemoval,
			Labels:         histLabels,
			Signature:      func(json.RawMessage, any) string { return "controller" },
			Shrink:         histShrink,
		},
	}
}
