package c10

import (
	"fmt"
	"math/rand/v2"
	"strconv"
	"strings"
	"time"

	"verifharness/internal/core"
)

const sec = int64(time.Second)

const disruptedKey = "karpenter.sh/disrupted"

func pick[T any](r *rand.Rand, xs []T) T { return xs[r.IntN(len(xs))] }

type weighted[T any] struct {
	w int
	v T
}

func pickW[T any](r *rand.Rand, xs []weighted[T]) T {
	tot := 0
	for _, x := range xs {
		tot += x.w
	}
	n := r.IntN(tot)
	for _, x := range xs {
		if n < x.w {
			return x.v
		}
		n -= x.w
	}
	return xs[len(xs)-1].v
}

func p64(v int64) *int64    { return &v }
func pstr(s string) *string { return &s }

var prioChoices = []weighted[string]{
	{40, ""}, {20, "system-cluster-critical"}, {15, "system-node-critical"}, {10, "high-priority"},
	{4, "System-Cluster-Critical"}, {3, "system-node-critical "}, {3, "system-critical"},
}

var ownerChoices = []weighted[[][2]string]{
	{32, nil},
	{20, [][2]string{{"apps/v1", "ReplicaSet"}}},
	{20, [][2]string{{"apps/v1", "DaemonSet"}}},
	{8, [][2]string{{"v1", "Node"}}},
	{5, [][2]string{{"apps/v1", "StatefulSet"}}},
	{3, [][2]string{{"apps/v1beta1", "DaemonSet"}}},
	{2, [][2]string{{"v1", "node"}}},
	{2, [][2]string{{"extensions/v1", "Node"}}},
	{2, [][2]string{{"apps/v1", "Node"}}},
	{2, [][2]string{{"v1", "DaemonSet"}}},
	{2, [][2]string{{"apps/v1", "ReplicaSet"}, {"apps/v1", "DaemonSet"}}},
	{2, [][2]string{{"batch/v1", "Job"}, {"v1", "Node"}}},
}

var tolChoices = []weighted[[]TolIn]{
	{58, nil},
	{6, []TolIn{{Key: disruptedKey, Op: "Exists"}}},
	{5, []TolIn{{Op: "Exists"}}},
	{4, []TolIn{{Key: disruptedKey, Op: "Equal", Val: "", Eff: "NoSchedule"}}},
	{3, []TolIn{{Key: disruptedKey}}},
	{3, []TolIn{{Key: disruptedKey, Op: "Exists", Eff: "NoSchedule"}}},
	{4, []TolIn{{Key: disruptedKey, Op: "Equal", Val: "x"}}},
	{4, []TolIn{{Key: disruptedKey, Op: "Exists", Eff: "NoExecute"}}},
	{4, []TolIn{{Key: "example.com/other", Op: "Exists"}}},
	{2, []TolIn{{Key: disruptedKey, Op: "Lt", Val: "5"}}},
	{2, []TolIn{{Key: disruptedKey, Op: "Bogus"}}},
	{2, []TolIn{{Op: "Exists", Eff: "NoExecute"}}},
	{3, []TolIn{{Key: "example.com/other", Op: "Exists"}, {Key: disruptedKey, Op: "Exists"}}},
	{2, []TolIn{{Key: disruptedKey, Op: "Equal", Val: "x"}, {Key: "karpenter.sh/unregistered", Op: "Exists"}}},
	// the matching toleration is NOT the last one (the API server appends the default not-ready / unreachable tolerations)
	{4, []TolIn{{Key: disruptedKey, Op: "Exists"}, {Key: "node.kubernetes.io/not-ready", Op: "Exists", Eff: "NoExecute"}, {Key: "node.kubernetes.io/unreachable", Op: "Exists", Eff: "NoExecute"}}},
	{3, []TolIn{{Op: "Exists"}, {Key: "example.com/other", Op: "Exists"}}},
	{2, []TolIn{{Key: "example.com/other", Op: "Exists"}, {Key: disruptedKey, Op: "Equal", Val: "", Eff: "NoSchedule"}, {Key: disruptedKey, Op: "Equal", Val: "x"}}},
}

var dndDurations = []struct {
	s string
	d int64 // seconds
}{{"5m", 300}, {"1h", 3600}, {"90s", 90}, {"1h30m", 5400}, {"30s", 30}, {"1500ms", 0}}

var dndInvalid = []string{"false", "", "abc", "0s", "-5m", "10", "True", "0", "5 m", "m"}

type genCtx struct {
	now int64 // ns
	d0  int64 // ns (reference node deadline)
}

func genPod(r *rand.Rand, c genCtx) PodIn {
	p := PodIn{Phase: "Running"}
	p.Prio = pickW(r, prioChoices)
	p.Owners = pickW(r, ownerChoices)
	if p.Owners == nil {
		p.Owners = [][2]string{}
	}
	p.Tols = pickW(r, tolChoices)
	if p.Tols == nil {
		p.Tols = []TolIn{}
	}
	switch x := r.IntN(100); {
	case x < 10:
		p.Grace = nil
	case x < 11:
		p.Grace = p64(-1) // not admitted by the API server; the code must still not act early
	case x < 18:
		p.Grace = p64(0)
	case x < 26:
		p.Grace = p64(1)
	case x < 56:
		p.Grace = p64(30)
	default:
		p.Grace = p64(pick(r, []int64{5, 10, 60, 120, 300, 3600}))
	}
	nowS := c.now / sec
	// start time
	if r.IntN(100) < 85 {
		p.Start = p64(nowS - int64(r.IntN(7200)))
	}
	switch x := r.IntN(100); {
	case x < 55:
	case x < 70:
		p.Dnd = pstr("true")
	case x < 88:
		dd := pick(r, dndDurations)
		p.Dnd = pstr(dd.s)
		if dd.d > 0 && r.IntN(100) < 75 {
			// place the start so that the protection ends around the scenario's clock
			p.Start = p64(nowS - dd.d + pick(r, []int64{-30, -1, 0, 1, 2, 30, 120}))
		}
		if r.IntN(100) < 10 {
			p.Start = nil
		}
	default:
		p.Dnd = pstr(pick(r, dndInvalid))
	}
	switch x := r.IntN(100); {
	case x < 76:
		p.Phase = "Running"
	case x < 81:
		p.Phase = "Pending"
	case x < 89:
		p.Phase = "Succeeded"
	case x < 96:
		p.Phase = "Failed"
	default:
		p.Phase = ""
	}
	if r.IntN(100) < 32 {
		d0S := c.d0 / sec
		if r.IntN(2) == 0 {
			p.Del = p64(d0S + pick(r, []int64{-30, -5, -1, 0, 1, 5, 30}))
		} else {
			p.Del = p64(nowS - pick(r, []int64{-30, -1, 0, 1, 30, 59, 60, 61, 62, 120}))
		}
	}
	p.Other = r.IntN(100) < 5
	return p
}

var evictAnswers = []weighted[string]{{40, "ok"}, {10, "gone"}, {25, "429"}, {5, "multi"}, {8, "500"}, {6, "404"}, {6, "409"}}
var deleteAnswers = []weighted[string]{{60, "ok"}, {15, "gone"}, {10, "404"}, {15, "500"}}
var mutations = []weighted[string]{{30, "cleardnd"}, {15, "succeed"}, {25, "gone"}, {15, "replace"}, {15, "kill"}}

func genD0(r *rand.Rand, now int64) int64 {
	d0 := (now/sec)*sec + pick(r, []int64{5, 10, 30, 60, 120, 600})*sec
	switch r.IntN(10) {
	case 0:
		d0 += 1
	case 1:
		d0 += sec / 2
	}
	return d0
}

// tickTo picks a clock advance that lands the clock at/around an edge of the branch structure.
func tickTo(r *rand.Rand, now, d0 int64, pods []PodIn) int64 {
	var targets []int64
	for _, p := range pods {
		if p.Grace != nil {
			e := d0 - *p.Grace*sec
			targets = append(targets, e-sec, e-1, e, e+1, e+sec)
		}
		if p.Del != nil {
			e := *p.Del*sec + 60*sec // stuck-terminating edge
			targets = append(targets, e-1, e, e+1)
		}
	}
	targets = append(targets, d0-1, d0, d0+1, d0+5*sec)
	r.Shuffle(len(targets), func(i, j int) { targets[i], targets[j] = targets[j], targets[i] })
	for _, t := range targets {
		if t > now {
			return t - now
		}
	}
	return int64(r.IntN(5)+1) * sec
}

// ---------- the NodeClaim's termination-timestamp annotation ----------

// zone designators a valid timestamp is rendered with (minutes east of UTC; 0 also as +00:00 / -00:00)
var zoneChoices = []int{0, 0, 0, 120, -450, 345, -720, 840, 60, -1}

// fractions of a second a valid timestamp may carry (digits after the period, and their value in ns)
var fracChoices = []struct {
	s  string
	ns int64
}{{"", 0}, {"", 0}, {".5", 500_000_000}, {".000000001", 1}, {".123456789", 123_456_789}, {".250", 250_000_000}, {".999999999", 999_999_999}, {".0", 0}}

// rfc3339 renders the instant base+d (whole seconds) + frac in the given zone as an RFC 3339 timestamp
// (upper-case T and Z, two-digit fields): the forms on which RFC 3339 and Go's time.Parse agree.
func rfc3339(dSec int64, frac string, zoneMin int, zeroForm int) string {
	t := base.Add(time.Duration(dSec) * time.Second).UTC().Add(time.Duration(zoneMin) * time.Minute)
	z := "Z"
	switch {
	case zoneMin == 0 && zeroForm == 1:
		z = "+00:00"
	case zoneMin == 0 && zeroForm == 2:
		z = "-00:00"
	case zoneMin > 0:
		z = fmt.Sprintf("+%02d:%02d", zoneMin/60, zoneMin%60)
	case zoneMin < 0:
		z = fmt.Sprintf("-%02d:%02d", -zoneMin/60, -zoneMin%60)
	}
	return t.Format("2006-01-02T15:04:05") + frac + z
}

// malformedAnnotations: values that are not RFC 3339 timestamps (and that time.Parse(time.RFC3339) rejects too),
// by class, for the instant base+dSec. Deliberately NOT included: the few non-RFC-3339 forms Go's lenient
// fallback parser accepts (one-digit hour, comma as fraction separator, zone hour 24+): outside the modelled
// vocabulary.
func malformedAnnotations(dSec int64) []struct{ class, v string } {
	t := base.Add(time.Duration(dSec) * time.Second).UTC()
	ok := t.Format("2006-01-02T15:04:05Z")
	day := t.Format("2006-01-02")
	return []struct{ class, v string }{
		{"space-no-zone", t.Format("2006-01-02 15:04:05")},
		{"space", t.Format("2006-01-02 15:04:05Z")},
		{"no-zone", t.Format("2006-01-02T15:04:05")},
		{"date-only", day},
		{"unix", strconv.FormatInt(t.Unix(), 10)},
		{"empty", ""},
		{"duration", "1h"},
		{"rfc1123", t.Format(time.RFC1123)},
		{"go-string", t.String()},
		{"zone-no-colon", t.In(time.FixedZone("", 7200)).Format("2006-01-02T15:04:05Z0700")},
		{"zone-hour-only", t.Format("2006-01-02T15:04:05") + "+02"},
		{"lower-case", strings.ToLower(ok)},
		{"trailing", ok + " "},
		{"leading", " " + ok},
		{"trailing-text", ok + "UTC"},
		{"feb-30", t.Format("2006") + "-02-30T08:00:00Z"},
		{"month-13", t.Format("2006") + "-13-01T08:00:00Z"},
		{"month-0", t.Format("2006") + "-00-10T08:00:00Z"},
		{"day-0", t.Format("2006-01") + "-00T08:00:00Z"},
		{"hour-24", day + "T24:00:00Z"},
		{"minute-60", day + "T08:60:00Z"},
		{"second-60", day + "T08:59:60Z"},
		{"unpadded", t.Format("2006-1-2T15:04:05Z")},
		{"short-year", t.Format("06-01-02T15:04:05Z")},
		{"long-year", "1" + ok},
		{"bare-fraction", t.Format("2006-01-02T15:04:05") + ".Z"},
		{"fullwidth-digits", "２０２７" + t.Format("-01-02T15:04:05Z")},
		{"word", "never"},
		{"zone-only", "Z"},
	}
}

// genNodeStep draws a controller-driven drain pass: the deadline `d` (or none) as the generator intends it, and how
// the NodeClaim presents it. Distribution: 50 % annotation derived from `d` (RFC 3339 in UTC / absent),
// 22 % a valid timestamp in another zone and/or with a fraction, 18 % a value that is not a timestamp,
// 5 % no NodeClaim, 5 % duplicate NodeClaims.
func genNodeStep(r *rand.Rand, d *int64) Step {
	s := Step{K: "node", D: d}
	dSec := int64(600)
	if d != nil {
		dSec = floorSec(*d)
	}
	switch x := r.IntN(100); {
	case x < 50:
	case x < 72:
		if d == nil {
			break
		}
		f := pick(r, fracChoices)
		s.A = pstr(rfc3339(dSec, f.s, pick(r, zoneChoices), r.IntN(3)))
		s.D = nil
	case x < 90:
		m := pick(r, malformedAnnotations(dSec))
		s.A = pstr(m.v)
		s.D = nil
	case x < 95:
		s.C = "none"
	default:
		s.C = "dup"
	}
	return s
}

func genHistory(r *rand.Rand, t core.Tier, ctl bool) HistIn {
	now := int64(r.IntN(1000))*sec + pick(r, []int64{0, 0, 0, 1, sec / 2, sec - 1})
	d0 := genD0(r, now)
	if ctl {
		d0 = (d0 / sec) * sec
	}
	c := genCtx{now: now, d0: d0}
	np := 1 + r.IntN(6)
	if t == core.Thorough && r.IntN(4) == 0 {
		np = 1 + r.IntN(12)
	}
	in := HistIn{Now: now}
	for i := 0; i < np; i++ {
		in.Pods = append(in.Pods, genPod(r, c))
	}
	noDeadline := r.IntN(100) < 15
	maxLen := 24
	if t == core.Thorough {
		maxLen = 70
	}
	n := 3 + r.IntN(maxLen)
	drainKind := "drain"
	if ctl {
		drainKind = "node"
	}
	cur := now
	for i := 0; i < n; i++ {
		x := r.IntN(100)
		switch {
		case x < 30 || i == 0:
			s := Step{K: drainKind}
			if !noDeadline {
				switch y := r.IntN(100); {
				case y < 82:
					s.D = p64(d0)
				case y < 87:
					s.D = nil
				case y < 94:
					s.D = p64(d0 - pick(r, []int64{1, 10, 60})*sec)
				default:
					s.D = p64(d0 + pick(r, []int64{1, 10, 60})*sec)
				}
			} else if r.IntN(100) < 4 {
				s.D = p64(d0)
			}
			if ctl {
				s = genNodeStep(r, s.D)
			}
			in.Steps = append(in.Steps, s)
		case x < 72:
			in.Steps = append(in.Steps, Step{K: "rec", P: r.IntN(np), Eo: pickW(r, evictAnswers), Do: pickW(r, deleteAnswers)})
		case x < 90:
			ns := tickTo(r, cur, d0, in.Pods)
			if r.IntN(4) == 0 {
				ns = int64(r.IntN(90)+1) * sec
			}
			cur += ns
			in.Steps = append(in.Steps, Step{K: "tick", Ns: ns})
		default:
			in.Steps = append(in.Steps, Step{K: "mut", P: r.IntN(np), M: pickW(r, mutations)})
		}
	}
	// direct Queue.Add steps (bypassing Drain's filters) only in a minority of terminator-mode histories
	if !ctl && r.IntN(100) < 12 {
		k := r.IntN(len(in.Steps) + 1)
		s := Step{K: "add", Ps: []int{r.IntN(np)}}
		if r.IntN(3) > 0 {
			s.D = p64(d0 + pick(r, []int64{-10, 0, 0, 10})*sec)
		}
		in.Steps = append(in.Steps[:k], append([]Step{s}, in.Steps[k:]...)...)
	}
	for i := range in.Steps {
		if in.Steps[i].Ps == nil {
			in.Steps[i].Ps = []int{}
		}
	}
	return in
}

// ---------- single Reconcile ----------

// recCase builds [add?, rec] for one pod.
func recCase(p PodIn, now int64, entry string, d int64, eo, do string) HistIn {
	in := HistIn{Now: now, Pods: []PodIn{p}}
	switch entry {
	case "none":
		in.Steps = append(in.Steps, Step{K: "add", Ps: []int{0}})
	case "dl":
		in.Steps = append(in.Steps, Step{K: "add", Ps: []int{0}, D: p64(d)})
	}
	in.Steps = append(in.Steps, Step{K: "rec", P: 0, Eo: eo, Do: do, Ps: []int{}})
	return in
}

func enumReconcile(t core.Tier) []any {
	var out []any
	d := int64(1000) * sec
	dels := []*int64{nil, p64(999), p64(1000), p64(1001)}
	graces := []*int64{nil, p64(0), p64(30)}
	for _, phase := range []string{"Running", "Succeeded"} {
		for _, del := range dels {
			for _, g := range graces {
				for _, tol := range []bool{false, true} {
					for _, static := range []bool{false, true} {
						for _, dnd := range []*string{nil, pstr("true")} {
							for _, entry := range []string{"absent", "none", "dl"} {
								p := PodIn{Phase: phase, Del: del, Grace: g, Dnd: dnd, Owners: [][2]string{}, Tols: []TolIn{}, Start: p64(0)}
								if tol {
									p.Tols = []TolIn{{Key: disruptedKey, Op: "Exists"}}
								}
								if static {
									p.Owners = [][2]string{{"v1", "Node"}}
								}
								var clocks []int64
								if g != nil {
									e := d - *g*sec
									clocks = []int64{e - sec, e - 1, e, e + 1, e + sec}
								} else {
									clocks = []int64{d - 40*sec, d + 1}
								}
								for _, now := range clocks {
									for _, eo := range []string{"ok", "429"} {
										out = append(out, recCase(p, now, entry, d, eo, "ok"))
									}
								}
							}
						}
					}
				}
			}
		}
	}
	// grace clamp: remaining time to the deadline from far before to far after, every API answer
	p := PodIn{Phase: "Running", Grace: p64(3600), Owners: [][2]string{}, Tols: []TolIn{}}
	for _, rem := range []int64{-10 * sec, -sec, -1, 0, 1, sec - 1, sec, sec + 1, 2*sec - 1, 2 * sec, 59*sec + sec/2, 600 * sec} {
		for _, do := range []string{"ok", "gone", "404", "500"} {
			out = append(out, recCase(p, d-rem, "dl", d, "ok", do))
		}
	}
	// every eviction answer for an evictable pod, with and without a deadline
	for _, eo := range []string{"ok", "gone", "429", "multi", "500", "404", "409"} {
		for _, entry := range []string{"none", "dl"} {
			out = append(out, recCase(PodIn{Phase: "Running", Grace: p64(30), Owners: [][2]string{}, Tols: []TolIn{}}, d-100*sec, entry, d, eo, "ok"))
		}
	}
	return out
}

func genReconcile(r *rand.Rand, t core.Tier) any {
	now := int64(r.IntN(1000))*sec + pick(r, []int64{0, 0, 1, sec / 2, sec - 1})
	d0 := genD0(r, now)
	p := genPod(r, genCtx{now: now, d0: d0})
	p.Other = false
	entry := pickW(r, []weighted[string]{{10, "absent"}, {25, "none"}, {65, "dl"}})
	// move the clock to an edge most of the time
	if r.IntN(100) < 70 {
		now += tickTo(r, now, d0, []PodIn{p})
	}
	return recCase(p, now, entry, d0, pickW(r, evictAnswers), pickW(r, deleteAnswers))
}

// ---------- single Drain pass ----------

func classPod(critical, daemon bool) PodIn {
	p := PodIn{Phase: "Running", Grace: p64(30), Owners: [][2]string{}, Tols: []TolIn{}}
	if critical {
		p.Prio = "system-cluster-critical"
	}
	if daemon {
		p.Owners = [][2]string{{"apps/v1", "DaemonSet"}}
	}
	return p
}

func enumDrain(t core.Tier) []any {
	var out []any
	d := int64(1000) * sec
	now := d - 100*sec
	// three pods, every class combination, every subset past its force-delete threshold, with/without deadline
	for a := 0; a < 4; a++ {
		for b := 0; b < 4; b++ {
			for c := 0; c < 4; c++ {
				for mask := 0; mask < 8; mask++ {
					for _, dl := range []bool{true, false} {
						if !dl && mask != 0 {
							continue
						}
						in := HistIn{Now: now}
						for i, cl := range []int{a, b, c} {
							p := classPod(cl&2 != 0, cl&1 != 0)
							if mask&(1<<i) != 0 {
								p.Grace = p64(3600)
							}
							in.Pods = append(in.Pods, p)
						}
						s := Step{K: "drain", Ps: []int{}}
						if dl {
							s.D = p64(d)
						}
						in.Steps = []Step{s}
						out = append(out, in)
					}
				}
			}
		}
	}
	// one pod that must not hold up / be touched by the drain, next to a critical daemon pod
	odd := []PodIn{}
	for _, f := range []func(p *PodIn){
		func(p *PodIn) { p.Phase = "Succeeded" },
		func(p *PodIn) { p.Phase = "Failed" },
		func(p *PodIn) { p.Owners = [][2]string{{"v1", "Node"}} },
		func(p *PodIn) { p.Tols = []TolIn{{Key: disruptedKey, Op: "Exists"}} },
		func(p *PodIn) { p.Del = p64(now/sec - 61) },
		func(p *PodIn) { p.Del = p64(now/sec - 60) },
		func(p *PodIn) { p.Del = p64(now/sec + 10) },
		func(p *PodIn) { p.Del = p64(d/sec + 10) },
		func(p *PodIn) { p.Dnd = pstr("true") },
		func(p *PodIn) { p.Other = true },
		func(p *PodIn) { p.Grace = nil },
	} {
		p := classPod(false, false)
		f(&p)
		odd = append(odd, p)
	}
	for _, o := range odd {
		for _, dl := range []bool{true, false} {
			for _, alone := range []bool{true, false} {
				in := HistIn{Now: now, Pods: []PodIn{o}}
				if !alone {
					in.Pods = append(in.Pods, classPod(true, true))
				}
				s := Step{K: "drain", Ps: []int{}}
				if dl {
					s.D = p64(d)
				}
				in.Steps = []Step{s}
				out = append(out, in)
			}
		}
	}
	return out
}

func genDrain(r *rand.Rand, t core.Tier) any {
	now := int64(r.IntN(1000))*sec + pick(r, []int64{0, 0, 1, sec / 2, sec - 1})
	d0 := genD0(r, now)
	np := r.IntN(8)
	in := HistIn{Now: now, Pods: []PodIn{}}
	for i := 0; i < np; i++ {
		in.Pods = append(in.Pods, genPod(r, genCtx{now: now, d0: d0}))
	}
	if r.IntN(100) < 60 {
		in.Now += tickTo(r, now, d0, in.Pods)
	}
	s := Step{K: "drain", Ps: []int{}}
	if r.IntN(100) < 80 {
		s.D = p64(d0)
	}
	in.Steps = []Step{s}
	// sometimes a second pass with another deadline: the stored deadline may only tighten
	if r.IntN(100) < 30 {
		s2 := Step{K: "drain", Ps: []int{}}
		switch r.IntN(4) {
		case 0:
		case 1:
			s2.D = p64(d0 - 10*sec)
		case 2:
			s2.D = p64(d0 + 10*sec)
		default:
			s2.D = p64(d0)
		}
		in.Steps = append(in.Steps, s2)
	}
	return in
}

// ---------- controller passes ----------

// enumController: every presentation of the node deadline (derived annotation, every zone x fraction form, every
// malformed class, no annotation, no NodeClaim, duplicate NodeClaims) x clock before / after the pods' thresholds,
// over a PDB-blocked plain pod, a do-not-disrupt pod with a long grace period and a critical pod: one controller
// pass, a reconcile of each pod, a second pass.
func enumController(core.Tier) []any {
	var out []any
	dSec := int64(1000)
	pods := func() []PodIn {
		a := classPod(false, false)
		b := classPod(false, false)
		b.Dnd = pstr("true")
		b.Grace = p64(3600)
		c := classPod(true, false)
		return []PodIn{a, b, c}
	}
	var heads []Step
	heads = append(heads, Step{K: "node", D: p64(dSec * sec)}, Step{K: "node"}, Step{K: "node", C: "none", D: p64(dSec * sec)}, Step{K: "node", C: "dup", D: p64(dSec * sec)})
	for _, z := range []int{0, 120, -450, 345, 840, -1} {
		for _, f := range fracChoices[1:] {
			for zf := 0; zf < 3; zf++ {
				if z != 0 && zf > 0 {
					continue
				}
				heads = append(heads, Step{K: "node", A: pstr(rfc3339(dSec, f.s, z, zf))})
			}
		}
	}
	for _, m := range malformedAnnotations(dSec) {
		heads = append(heads, Step{K: "node", A: pstr(m.v)})
		heads = append(heads, Step{K: "node", A: pstr(m.v), C: "dup"})
	}
	for _, h := range heads {
		for _, now := range []int64{(dSec - 100) * sec, (dSec-30)*sec + 1, (dSec + 5) * sec} {
			in := HistIn{Now: now, Pods: pods()}
			in.Steps = []Step{h,
				{K: "rec", P: 0, Eo: "429", Do: "ok"}, {K: "rec", P: 1, Eo: "ok", Do: "ok"}, {K: "rec", P: 2, Eo: "ok", Do: "ok"},
				h, {K: "rec", P: 2, Eo: "ok", Do: "ok"}}
			for i := range in.Steps {
				in.Steps[i].Ps = []int{}
			}
			out = append(out, in)
		}
	}
	return out
}
